"""`fac` engine, DEN part: real DEN service (+ EmergencyVehicleApproachingService) on real BTP+GN stations of a
simulated ether, repetition threads parked on the kernel's virtual `sleep`, optional LDM on receivers.

Real code: DecentralizedEnvironmentalNotificationService, DENMTransmissionManagement (repetition loop, action id,
GBC request), DENMReceptionManagement (LDM feed), DENMCoder, EmergencyVehicleApproachingService, DENRequest,
btp.Router, geonet.Router, LDMFactory -> LDMFacility (Reactive maintenance/service, Dictionary back-end).
Stubs: SimLinkLayer, clock, `time.sleep`, `threading.Thread`, pass-through security entity (knob `sec`="null").

Observation points
* every `BTPDataRequest` a station's BTP router is handed (recording wrapper around `btp_data_request`, virtual
  timestamp, originating plan op through the kernel's cause tag);
* every BTP indication for port 2002 (wrapper around the callback DENMReceptionManagement registered) followed by a
  query of the receiver's LDM through IF.LDM.4.
"""
from __future__ import annotations

from typing import Optional

from .kernel import SimExit, SimThread, HarnessError
from .netsim import NetSim, Station
from .patching import Patches, patch_module_time_threading

from flexstack.btp.service_access_point import BTPDataIndication
from flexstack.security.sn_sap import SNSIGNConfirm, SNVERIFYConfirm, ReportVerify
from flexstack.facilities.ca_basic_service.cam_transmission_management import VehicleData
import flexstack.facilities.decentralized_environmental_notification_service.den_service as den_service_mod
import flexstack.facilities.decentralized_environmental_notification_service.denm_transmission_management as denm_tx_mod
from flexstack.facilities.decentralized_environmental_notification_service.denm_coder import DENMCoder
from flexstack.facilities.decentralized_environmental_notification_service.den_service import (
    DecentralizedEnvironmentalNotificationService,
)
from flexstack.applications.road_hazard_signalling_service.emergency_vehicle_approaching_service import (
    EmergencyVehicleApproachingService,
)
from flexstack.applications.road_hazard_signalling_service.service_access_point import DENRequest, PriorityLevel
import flexstack.facilities.local_dynamic_map.ldm_maintenance as ldm_maint_mod
import flexstack.facilities.local_dynamic_map.ldm_maintenance_reactive as ldm_maint_reactive_mod
import flexstack.facilities.local_dynamic_map.ldm_service_reactive as ldm_service_reactive_mod
from flexstack.facilities.local_dynamic_map.factory import LDMFactory
from flexstack.facilities.local_dynamic_map.ldm_classes import (
    AccessPermission, Altitude, Circle, GeometricArea, Location, PositionConfidenceEllipse, ReferencePosition,
    RegisterDataConsumerReq, RequestDataObjectsReq, TimestampIts,
)
from flexstack.facilities.local_dynamic_map.ldm_constants import CAM, DENM

_DENM_CODER: Optional[DENMCoder] = None


def denm_coder() -> DENMCoder:
    """One compiled DENM coder per worker process (compilation takes seconds)."""
    global _DENM_CODER
    if _DENM_CODER is None:
        _DENM_CODER = DENMCoder()
    return _DENM_CODER


# ----------------------------------------------------------------------------- pass-through security entity
class NullSign:
    """Stands in for a SignService: 'signs' by prefixing a marker (C17 is not about security)."""
    MARK = b"NULLSEC!"

    def sign_denm(self, request):
        msg = self.MARK + bytes(request.tbs_message)
        return SNSIGNConfirm(sec_message_length=len(msg), sec_message=msg)

    sign_cam = sign_denm
    sign_request = sign_denm


class NullVerify:
    def verify(self, request):
        msg = bytes(request.message)
        if not msg.startswith(NullSign.MARK):
            return SNVERIFYConfirm(report=ReportVerify.FALSE_SIGNATURE, certificate_id=b"", its_aid_length=0,
                                   its_aid=b"", permissions=b"")
        return SNVERIFYConfirm(report=ReportVerify.SUCCESS, certificate_id=b"\x00" * 8, its_aid_length=1,
                               its_aid=b"\x25", permissions=b"", plain_message=msg[len(NullSign.MARK):])


# ----------------------------------------------------------------------------- DENM templates (injected DENMs)
def build_denm(spec: dict) -> dict:
    """A DENM dict from a JSON spec (harness side: the reference sender of the reception clause)."""
    mgmt = {
        "actionId": {"originatingStationId": spec["sid"], "sequenceNumber": spec.get("seq", 0)},
        "detectionTime": spec.get("det", 0),
        "referenceTime": spec.get("ref", 0),
        "eventPosition": {
            "latitude": spec["lat"], "longitude": spec["lon"],
            "positionConfidenceEllipse": {"semiMajorConfidence": spec.get("smaj", 4095),
                                          "semiMinorConfidence": spec.get("smin", 4095),
                                          "semiMajorOrientation": spec.get("sori", 3601)},
            "altitude": {"altitudeValue": spec.get("alt", 800001), "altitudeConfidence": spec.get("altc", "unavailable")},
        },
        "stationType": spec.get("stype", 0),
    }
    for k_json, k_asn in (("term", "termination"), ("aware", "awarenessDistance"), ("tdir", "trafficDirection"),
                          ("valid", "validityDuration"), ("tint", "transmissionInterval")):
        if spec.get(k_json) is not None:
            mgmt[k_asn] = spec[k_json]
    denm = {"header": {"protocolVersion": 2, "messageId": 1, "stationId": spec.get("hsid", spec["sid"])},
            "denm": {"management": mgmt}}
    if spec.get("situation", True) and spec.get("term") is None:
        denm["denm"]["situation"] = {"informationQuality": spec.get("iq", 7),
                                     "eventType": {"ccAndScc": (spec.get("cc", "collisionRisk97"), spec.get("scc", 4))}}
        denm["denm"]["location"] = {
            "eventSpeed": {"speedValue": 30, "speedConfidence": 1},
            "eventPositionHeading": {"value": 0, "confidence": 2},
            "detectionZonesToEventPosition": [[{"pathPosition": {"deltaLatitude": 131072, "deltaLongitude": 131072,
                                                                 "deltaAltitude": 12800}}]],
        }
    return denm


def event_position_dict(lat_i: int, lon_i: int, alt: int = 800001) -> dict:
    return {"latitude": lat_i, "longitude": lon_i,
            "positionConfidenceEllipse": {"semiMajorConfidence": 4095, "semiMinorConfidence": 4095,
                                          "semiMajorOrientation": 3601},
            "altitude": {"altitudeValue": alt, "altitudeConfidence": "unavailable"}}


class DenSim(NetSim):
    """NetSim whose stations carry a DEN service; ops: den_eva, den_req, den_crw, rx_denm (+ NetSim's own)."""

    EVENT_OPS = ("den_eva", "den_req", "den_crw")

    def __init__(self, plan: dict):
        plan["config"].setdefault("max_events", 400_000)
        super().__init__(plan)
        self.btp_log: list[dict] = []
        self.rx_log: list[dict] = []
        self.events: dict[int, dict] = {}
        self.thread_errors: list[tuple] = []
        self.fac: dict[int, dict] = {}

    # ------------------------------------------------------------------ hooks
    def security_for(self, station: Station):
        if self.cfg.get("sec") == "null":
            return NullSign(), NullVerify()
        return None, None

    def extra_patches(self, p: Patches) -> None:
        sim = self
        k = self.kernel
        tf, thf = patch_module_time_threading(
            p, k, [denm_tx_mod, ldm_maint_mod, ldm_maint_reactive_mod, ldm_service_reactive_mod], self.net_seed)

        class DenThread(SimThread):
            kernel = k

            def run(self):
                try:
                    super().run()
                except SimExit:
                    raise
                except Exception as e:  # judged by the oracle, then reported like threading.excepthook would
                    sim.thread_errors.append((self.cause, e))
                    raise
        thf.Thread = DenThread
        # one compiled coder per process instead of one per service instance (same class, same object semantics)
        p.set(den_service_mod, "DENMCoder", denm_coder)

    def wire_facilities(self, station: Station) -> None:
        spec = station.spec
        k = self.kernel
        sim = self
        ldm = None
        if spec.get("ldm"):
            loc = Location.initializer(latitude=spec["pos"][0], longitude=spec["pos"][1])
            ldm = LDMFactory().create_ldm(loc, ldm_maintenance_type="Reactive", ldm_service_type="Reactive",
                                          ldm_database_type="Dictionary")
            ldm.if_ldm_4.register_data_consumer(RegisterDataConsumerReq(
                application_id=CAM, access_permisions=(AccessPermission.CAM, AccessPermission.DENM),
                area_of_interest=GeometricArea(circle=Circle(radius=5000), rectangle=None, ellipse=None)))
        vd = VehicleData(station_id=spec["station_id"], station_type=spec.get("stype", 5))
        den = DecentralizedEnvironmentalNotificationService(btp_router=station.btp, vehicle_data=vd, ldm=ldm)
        self.fac[station.idx] = {"den": den, "ldm": ldm, "eva": {}, "gen": station.gen}

        # -- recording wrapper around the BTP router's request primitive
        orig_req = station.btp.btp_data_request

        def btp_data_request(request):
            rec = {"t": k.now_us, "ev": k.events_run, "st": station.idx, "req": request, "cause": k.current_cause,
                   "exc": None, "gen": station.gen}
            sim.btp_log.append(rec)
            k.record("btp-req", station.idx, request.destination_port, bytes(request.data))
            try:
                return orig_req(request)
            except Exception as e:
                rec["exc"] = e
                raise
        station.btp.btp_data_request = btp_data_request

        # -- wrapper around the reception callback the DEN service registered for port 2002
        orig_cb = station.btp.pre_indication_callbacks.get(2002)
        if orig_cb is None:
            raise HarnessError("DEN service did not register port 2002")

        def on_denm(indication):
            rec = {"t": k.now_us, "st": station.idx, "data": bytes(indication.data), "exc": None, "ldm": None,
                   "ldm_exc": None, "has_ldm": ldm is not None, "cause": k.current_cause, "gen": station.gen}
            k.record("denm-ind", station.idx, rec["data"])
            try:
                orig_cb(indication)
            except Exception as e:
                rec["exc"] = e
            if ldm is not None:
                try:
                    resp = ldm.if_ldm_4.request_data_objects(RequestDataObjectsReq(
                        application_id=CAM, data_object_type=(DENM,), priority=None, order=None, filter=None))
                    objs = []
                    for o in resp.data_objects:
                        do = o.get("dataObject", {})
                        if isinstance(do, dict) and "denm" in do:
                            rp = o.get("location", {}).get("referencePosition", {})
                            objs.append((rp.get("latitude"), rp.get("longitude"),
                                         rp.get("altitude", {}).get("altitudeValue"), do))
                    rec["ldm"] = objs
                except Exception as e:
                    rec["ldm_exc"] = e
            sim.rx_log.append(rec)
        station.btp.pre_indication_callbacks[2002] = on_denm

    # ------------------------------------------------------------------ ops
    def custom_op(self, idx: int, op: dict, rec: dict) -> None:
        kind = op["op"]
        k = self.kernel
        st = self.stations[op["st"]]
        fac = self.fac.get(st.idx)
        if st.role != "stack" or fac is None:
            rec["skipped"] = True
            return
        den = fac["den"]
        if kind in self.EVENT_OPS:
            ev = {"idx": idx, "st": st.idx, "kind": {"den_eva": "eva", "den_req": "direct", "den_crw": "crw"}[kind],
                  "t0": k.now_us, "ev0": k.events_run, "interval": op.get("interval_ms", 100),
                  "duration": op.get("duration_ms", 0), "pos": (op["lat"], op["lon"]), "exc": None, "svc": None,
                  "gen": st.gen, "op": op}
            self.events[idx] = ev
            try:
                if kind == "den_eva":
                    svc_key = op.get("svc", ("fresh", idx))
                    svc_key = tuple(svc_key) if isinstance(svc_key, list) else svc_key
                    svc = fac["eva"].get(svc_key)
                    if svc is None:
                        svc = EmergencyVehicleApproachingService(den, duration=op["duration_ms"])
                        fac["eva"][svc_key] = svc
                    svc.denm_duration = op["duration_ms"]
                    svc.denm_interval = op["interval_ms"]
                    ev["svc"] = svc_key
                    tpv = {"class": "TPV", "lat": op["lat"] / 1e7, "lon": op["lon"] / 1e7}
                    if op.get("alt_m") is not None:
                        tpv["altHAE"] = op["alt_m"]
                    svc.trigger_denm_sending(tpv)
                elif kind == "den_req":
                    req = DENRequest(
                        denm_interval=op["interval_ms"], priority_level=PriorityLevel.WARNING,
                        detection_time=int((k.station_now_us(st.idx) / 1e6 - 1072915200 + 5) * 1000),
                        time_period=op["duration_ms"], quality=op.get("quality", 7),
                        event_position=event_position_dict(op["lat"], op["lon"], op.get("alt", 800001)),
                        heading=op.get("heading", 0), confidence=op.get("confidence", 2),
                        relevance_distance="lessThan200m", relevance_traffic_direction="upstreamTraffic",
                        rhs_cause_code=op.get("cc", "emergencyVehicleApproaching95"), rhs_subcause_code=op.get("scc", 1),
                        rhs_event_speed=op.get("speed", 30), rhs_vehicle_type=op.get("vtype", 0))
                    den.denm_transmission_management.request_denm_sending(req)
                else:
                    req = DENRequest.with_collision_risk_warning(
                        TimestampIts(int((k.station_now_us(st.idx) / 1e6 - 1072915200 + 5) * 1000)),
                        ReferencePosition(latitude=op["lat"], longitude=op["lon"],
                                          position_confidence_ellipse=PositionConfidenceEllipse(4095, 4095, 3601),
                                          altitude=Altitude(op.get("alt", 800001), op.get("altc", "unavailable"))))
                    ev["interval"] = req.denm_interval
                    ev["duration"] = req.time_period
                    den.denm_transmission_management.send_collision_risk_warning_denm(req)
            except Exception as e:
                ev["exc"] = e
                rec["exc"] = e
        elif kind == "rx_denm":
            data = denm_coder().encode(build_denm(op["denm"]))
            rec["data"] = data
            self.fault("inject")
            if op.get("via") == "gn":
                d = op["denm"]
                req = self.make_btp_request(st, {"type": "gbc", "btp": "b", "dport": 2002, "dpinfo": 0, "payload": data.hex(),
                                                 "tc": 0, "hl": 1, "lt": None,
                                                 "area": {"shape": 0, "lat": d["lat"], "lon": d["lon"], "a": op.get("radius", 500),
                                                          "b": 0, "angle": 0}})
                try:
                    st.btp.btp_data_request(req)
                except Exception as e:
                    rec["exc"] = e
            else:
                cb = st.btp.indication_callbacks.get(2002) if st.btp.indication_callbacks is not None else None
                if cb is None:
                    rec["skipped"] = True
                    return
                cb(BTPDataIndication(destination_port=2002, length=len(data), data=data))
        else:
            raise HarnessError("unknown op " + kind)
