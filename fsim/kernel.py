"""Discrete-event virtual-time kernel with parked real threads (baton passing).

One Kernel per run.  Exactly one OS thread executes at any moment: the kernel
thread or one SimThread that the kernel resumed and that has not yet parked.
The kernel never reads a wall clock or an OS PRNG; all order is (time_us, seq).
"""
from __future__ import annotations

import heapq
import threading
import hashlib
from typing import Any, Callable, Optional

_real_Thread = threading.Thread
_real_Semaphore = threading.Semaphore
_real_get_ident = threading.get_ident


class SimExit(BaseException):
    """Raised inside a parked SimThread when the run is torn down."""


class HarnessError(Exception):
    """The simulator itself is in an impossible state (never a VIOLATION)."""


class _Ev:
    __slots__ = ("t", "seq", "fn", "args", "station", "cancelled", "kind", "cause")

    def __init__(self, t, seq, fn, args, station, kind, cause):
        self.t = t
        self.seq = seq
        self.fn = fn
        self.args = args
        self.station = station
        self.cancelled = False
        self.kind = kind
        self.cause = cause

    def __lt__(self, other):
        return (self.t, self.seq) < (other.t, other.seq)


class Kernel:
    def __init__(self, t0_us: int = 1_767_225_600_000_000, max_events: int = 200_000):
        self.t0_us = int(t0_us)
        self.now_us = int(t0_us)
        self.seq = 0
        self.heap: list[_Ev] = []
        self.events_run = 0
        self.max_events = max_events
        self.current_station: Any = None
        self.current_cause: Any = None
        self.offsets_us: dict[Any, int] = {}
        self.threads: list["SimThread"] = []
        self._ksem = _real_Semaphore(0)
        self._kernel_tid = _real_get_ident()
        self._running_thread: Optional["SimThread"] = None
        self.shutting_down = False
        self.log = hashlib.sha256()
        self.log_lines = 0
        self.keep_log: Optional[list] = None
        self.after_event: Optional[Callable[[], None]] = None
        self.task_errors: list = []
        self.timer_skew: Optional[Callable[[float], float]] = None
        self.exhausted = False

    # ------------------------------------------------------------------ clock
    def time(self) -> float:
        """Clock seen by the code under test (seconds, float)."""
        off = self.offsets_us.get(self.current_station, 0) if self.offsets_us else 0
        return (self.now_us + off) / 1_000_000.0

    def true_time(self) -> float:
        return self.now_us / 1_000_000.0

    def monotonic(self) -> float:
        return (self.now_us - self.t0_us) / 1_000_000.0 + 1000.0

    def station_now_us(self, station) -> int:
        return self.now_us + self.offsets_us.get(station, 0)

    # ------------------------------------------------------------------ log
    def record(self, *fields) -> None:
        """Append to the event log digest.  Fields must be hash-seed independent."""
        line = "|".join(_fmt(f) for f in fields)
        self.log.update(line.encode() + b"\n")
        self.log_lines += 1
        if self.keep_log is not None:
            self.keep_log.append(line)

    def digest(self) -> str:
        return self.log.hexdigest()

    # ------------------------------------------------------------------ events
    def call_at(self, t_us: int, fn, *args, station="__inherit__", kind="call", cause="__inherit__") -> _Ev:
        if station == "__inherit__":
            station = self.current_station
        if cause == "__inherit__":
            cause = self.current_cause
        self.seq += 1
        ev = _Ev(max(int(t_us), self.now_us), self.seq, fn, args, station, kind, cause)
        heapq.heappush(self.heap, ev)
        return ev

    def call_later(self, dt_us: int, fn, *args, **kw) -> _Ev:
        return self.call_at(self.now_us + int(dt_us), fn, *args, **kw)

    def pending(self) -> int:
        return sum(1 for e in self.heap if not e.cancelled)

    def next_time(self) -> Optional[int]:
        while self.heap and self.heap[0].cancelled:
            heapq.heappop(self.heap)
        return self.heap[0].t if self.heap else None

    def run(self, until_us: Optional[int] = None) -> None:
        """Run events in (time, seq) order until the heap drains or `until_us`."""
        if _real_get_ident() != self._kernel_tid:
            raise HarnessError("Kernel.run called from a simulated thread")
        while self.heap:
            ev = self.heap[0]
            if ev.cancelled:
                heapq.heappop(self.heap)
                continue
            if until_us is not None and ev.t > until_us:
                break
            heapq.heappop(self.heap)
            if self.events_run >= self.max_events:
                self.exhausted = True
                break
            self.events_run += 1
            self.now_us = ev.t
            self.current_station = ev.station
            self.current_cause = ev.cause
            try:
                ev.fn(*ev.args)
            finally:
                self.current_station = None
                self.current_cause = None
            if self.after_event is not None:
                self.after_event()
        if until_us is not None and not self.exhausted and self.now_us < until_us:
            self.now_us = until_us

    def advance(self, dt_us: int) -> None:
        self.run(self.now_us + int(dt_us))

    # ------------------------------------------------------------------ threads
    def _resume(self, th: "SimThread") -> None:
        """Kernel side: hand the baton to `th` and wait until it parks/finishes."""
        if th.done:
            return
        prev = self._running_thread
        self._running_thread = th
        saved_station, saved_cause = self.current_station, self.current_cause
        self.current_station, self.current_cause = th.station, th.cause
        th._sem.release()
        self._ksem.acquire()
        self.current_station, self.current_cause = saved_station, saved_cause
        self._running_thread = prev

    def in_sim_thread(self) -> Optional["SimThread"]:
        th = self._running_thread
        if th is not None and _real_get_ident() == th._tid:
            return th
        return None

    def _park(self, th: "SimThread") -> None:
        """Thread side: give the baton back and block until resumed."""
        self._ksem.release()
        th._sem.acquire()
        if self.shutting_down:
            raise SimExit()

    def sleep(self, seconds: float) -> None:
        th = self.in_sim_thread()
        if th is None:
            raise HarnessError("sleep() outside a SimThread (blocking call on the kernel thread)")
        self.call_later(max(0, int(round(seconds * 1_000_000))), self._resume, th,
                        station=th.station, kind="wake", cause=th.cause)
        self._park(th)

    def shutdown(self) -> None:
        """Unwind every parked thread (SimExit) so that no OS thread leaks."""
        self.shutting_down = True
        for th in list(self.threads):
            guard = 0
            while not th.done and th.started and guard < 100:
                self._resume(th)
                guard += 1
            if th.started and th._os_thread is not None:
                th._os_thread.join(timeout=5)
        self.threads.clear()
        self.heap.clear()


def _fmt(f) -> str:
    if isinstance(f, (bytes, bytearray)):
        return hashlib.sha256(bytes(f)).hexdigest()[:16]
    if isinstance(f, float):
        return repr(round(f, 9))
    return str(f)


# ---------------------------------------------------------------------- drop-ins
class SimTimer:
    """Drop-in for threading.Timer bound to a kernel (see make_classes)."""
    kernel: Kernel = None  # type: ignore

    def __init__(self, interval, function, args=None, kwargs=None):
        self.interval = interval
        self.function = function
        self.args = args if args is not None else []
        self.kwargs = kwargs if kwargs is not None else {}
        self.daemon = True
        self.name = "SimTimer"
        self._ev = None
        self._cancelled = False
        self._started = False
        self._fired = False
        k = self.kernel
        self.station = k.current_station
        self.cause = k.current_cause

    def start(self):
        if self._started:
            raise RuntimeError("threads can only be started once")
        self._started = True
        if self._cancelled:
            return
        k = self.kernel
        delay = float(self.interval)
        if k.timer_skew is not None:
            delay = k.timer_skew(delay)
        self._ev = k.call_later(max(0, int(round(delay * 1_000_000))), self._fire,
                                station=self.station, kind="timer", cause=("timer", self.cause))

    def _fire(self):
        if self._cancelled:
            return
        self._fired = True
        k = self.kernel
        try:
            self.function(*self.args, **self.kwargs)
        except SimExit:
            raise
        except Exception as e:  # what threading.excepthook would report
            k.task_errors.append(("timer", self.station, getattr(self.function, "__name__", "?"), e))

    def cancel(self):
        self._cancelled = True
        if self._ev is not None:
            self._ev.cancelled = True

    def is_alive(self):
        return self._started and not self._fired and not self._cancelled

    def join(self, timeout=None):
        return None


class SimThread:
    """Drop-in for threading.Thread: a real OS thread released one at a time."""
    kernel: Kernel = None  # type: ignore

    def __init__(self, group=None, target=None, name=None, args=(), kwargs=None, *, daemon=None):
        self._target = target
        self._args = args
        self._kwargs = kwargs or {}
        self.name = name or "SimThread"
        self.daemon = True if daemon is None else daemon
        self.done = False
        self.started = False
        self.error = None
        self._sem = _real_Semaphore(0)
        self._tid = None
        self._os_thread = None
        k = self.kernel
        self.station = k.current_station
        self.cause = k.current_cause
        self._joiners: list = []

    def run(self):
        if self._target is not None:
            self._target(*self._args, **self._kwargs)

    def start(self):
        if self.started:
            raise RuntimeError("threads can only be started once")
        self.started = True
        k = self.kernel
        k.threads.append(self)
        self._os_thread = _real_Thread(target=self._bootstrap, daemon=True)
        self._os_thread.start()
        k.call_later(0, k._resume, self, station=self.station, kind="thread-start", cause=self.cause)

    def _bootstrap(self):
        k = self.kernel
        self._tid = _real_get_ident()
        self._sem.acquire()
        try:
            if not k.shutting_down:
                self.run()
        except SimExit:
            pass
        except BaseException as e:  # noqa: BLE001 - recorded, judged by the scenario
            self.error = e
            k.task_errors.append(("thread", self.station, self.name, e))
        finally:
            self.done = True
            for j in self._joiners:
                k.call_later(0, k._resume, j, station=j.station, kind="wake", cause=j.cause)
            self._joiners.clear()
            k._ksem.release()

    def is_alive(self):
        return self.started and not self.done

    def join(self, timeout=None):
        k = self.kernel
        if self.done or not self.started:
            return
        me = k.in_sim_thread()
        if me is None:
            # kernel thread: run the simulation until the thread is done (bounded)
            limit = None if timeout is None else k.now_us + int(timeout * 1_000_000)
            while not self.done and k.heap:
                nt = k.next_time()
                if nt is None or (limit is not None and nt > limit):
                    break
                k.run(nt)
            return
        self._joiners.append(me)
        if timeout is not None:
            k.call_later(int(timeout * 1_000_000), k._resume, me, station=me.station, kind="wake", cause=me.cause)
        k._park(me)


class SimEvent:
    """Drop-in for threading.Event with wait(timeout) in virtual time."""
    kernel: Kernel = None  # type: ignore

    def __init__(self):
        self._flag = False
        self._waiters: list = []

    def is_set(self):
        return self._flag

    isSet = is_set

    def set(self):
        self._flag = True
        k = self.kernel
        ws, self._waiters = self._waiters, []
        for w in ws:
            w[1] = True
            if w[2] is not None:
                w[2].cancelled = True
            k.call_later(0, k._resume, w[0], station=w[0].station, kind="wake", cause=w[0].cause)

    def clear(self):
        self._flag = False

    def wait(self, timeout=None):
        if self._flag:
            return True
        k = self.kernel
        th = k.in_sim_thread()
        if th is None:
            raise HarnessError("Event.wait() outside a SimThread")
        w = [th, False, None]
        if timeout is not None:
            def _timeout():
                if not w[1]:
                    w[1] = True
                    try:
                        self._waiters.remove(w)
                    except ValueError:
                        pass
                    k._resume(th)
            w[2] = k.call_later(max(0, int(round(timeout * 1_000_000))), _timeout,
                                station=th.station, kind="wake", cause=th.cause)
        self._waiters.append(w)
        k._park(th)
        return self._flag


def make_classes(kernel: Kernel):
    """Per-run subclasses bound to `kernel` (no global mutable binding)."""
    T = type("SimTimer", (SimTimer,), {"kernel": kernel})
    Th = type("SimThread", (SimThread,), {"kernel": kernel})
    E = type("SimEvent", (SimEvent,), {"kernel": kernel})
    return T, Th, E


class TimeFacade:
    """Stands in for the `time` module inside patched modules."""

    def __init__(self, kernel: Kernel):
        self._k = kernel

    def time(self):
        return self._k.time()

    def monotonic(self):
        return self._k.monotonic()

    def perf_counter(self):
        return self._k.monotonic()

    def sleep(self, s):
        self._k.sleep(s)

    def time_ns(self):
        return int(self._k.time() * 1e9)


class ThreadingFacade:
    """Stands in for the `threading` module inside patched modules."""

    def __init__(self, kernel: Kernel):
        T, Th, E = make_classes(kernel)
        self.Timer = T
        self.Thread = Th
        self.Event = E
        self.Lock = threading.Lock
        self.RLock = threading.RLock
        self.Condition = threading.Condition
        self.Semaphore = threading.Semaphore
        self.current_thread = threading.current_thread
        self.get_ident = threading.get_ident
        self.main_thread = threading.main_thread
        self.excepthook = threading.excepthook
