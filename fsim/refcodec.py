"""Independent reference codec for EN 302 636-4-1 clause 9 / EN 302 636-5-1 clause 7
and EN 302 931 geometry.  Shares no code with /repo/src.  Written from the standards.
"""
from __future__ import annotations

import math
import struct
from typing import Optional

# --------------------------------------------------------------------------- constants
NH_ANY, NH_COMMON, NH_SECURED = 0, 1, 2
CNH_ANY, CNH_BTP_A, CNH_BTP_B, CNH_IPV6 = 0, 1, 2, 3
HT_ANY, HT_BEACON, HT_GUC, HT_GAC, HT_GBC, HT_TSB, HT_LS = 0, 1, 2, 3, 4, 5, 6
HST_SHB, HST_TSB_MH = 0, 1
HST_CIRCLE, HST_RECT, HST_ELIP = 0, 1, 2
HST_LS_REQUEST, HST_LS_REPLY = 0, 1
HT_NAMES = {0: "ANY", 1: "BEACON", 2: "GUC", 3: "GAC", 4: "GBC", 5: "TSB", 6: "LS"}
LT_BASE_MS = (50, 1000, 10_000, 100_000)
ITS_EPOCH_MS = 1072915200_000  # 2004-01-01T00:00:00Z in Unix ms
TAI_OFFSET_MS = 5_000          # leap seconds since the ITS epoch (TS 102 894-2 TimestampIts)


class Malformed(Exception):
    def __init__(self, klass: str, detail: str = ""):
        super().__init__(f"{klass}: {detail}")
        self.klass = klass
        self.detail = detail


# --------------------------------------------------------------------------- lifetime
def lt_ms(code: int) -> int:
    return (code >> 2) * LT_BASE_MS[code & 3]


REPRESENTABLE_LT = sorted({m * b for b in LT_BASE_MS for m in range(64)})


def lt_floor_ms(requested_ms: int) -> int:
    """Largest representable lifetime value not exceeding the request."""
    best = 0
    for b in LT_BASE_MS:
        m = min(63, requested_ms // b)
        if m * b > best:
            best = m * b
    return best


# --------------------------------------------------------------------------- TST
def tst_from_unix_ms(unix_ms: int) -> int:
    return (unix_ms - ITS_EPOCH_MS + TAI_OFFSET_MS) % (1 << 32)


def tst_newer(a: int, b: int) -> bool:
    """Serial-number arithmetic (annex C.2): a is strictly newer than b."""
    d = (a - b) % (1 << 32)
    return 0 < d < (1 << 31)


# --------------------------------------------------------------------------- helpers
def s32(v: int) -> int:
    v &= 0xFFFFFFFF
    return v - (1 << 32) if v & 0x80000000 else v


def u32(v: int) -> int:
    return v & 0xFFFFFFFF


def s15(v: int) -> int:
    v &= 0x7FFF
    return v - (1 << 15) if v & 0x4000 else v


# --------------------------------------------------------------------------- GN address
def enc_addr(m: int, st: int, mid: bytes, reserved: int = 0) -> bytes:
    assert len(mid) == 6
    hi = ((m & 1) << 15) | ((st & 0x1F) << 10) | (reserved & 0x3FF)
    return struct.pack(">H", hi) + mid


def dec_addr(b: bytes) -> dict:
    hi = struct.unpack(">H", b[0:2])[0]
    return {"m": hi >> 15, "st": (hi >> 10) & 0x1F, "res": hi & 0x3FF, "mid": bytes(b[2:8])}


# --------------------------------------------------------------------------- position vectors
def enc_lpv(addr: bytes, tst: int, lat: int, lon: int, pai: int, speed: int, heading: int) -> bytes:
    ps = ((pai & 1) << 15) | (speed & 0x7FFF)
    return addr + struct.pack(">IiiHH", tst & 0xFFFFFFFF, lat, lon, ps, heading & 0xFFFF)


def dec_lpv(b: bytes) -> dict:
    tst, lat, lon, ps, h = struct.unpack(">IiiHH", b[8:24])
    return {"addr": dec_addr(b[0:8]), "addr_raw": bytes(b[0:8]), "tst": tst, "lat": lat, "lon": lon,
            "pai": ps >> 15, "speed": s15(ps), "speed_raw": ps & 0x7FFF, "heading": h}


def enc_spv(addr: bytes, tst: int, lat: int, lon: int) -> bytes:
    return addr + struct.pack(">Iii", tst & 0xFFFFFFFF, lat, lon)


def dec_spv(b: bytes) -> dict:
    tst, lat, lon = struct.unpack(">Iii", b[8:20])
    return {"addr": dec_addr(b[0:8]), "addr_raw": bytes(b[0:8]), "tst": tst, "lat": lat, "lon": lon}


# --------------------------------------------------------------------------- headers
def enc_basic(nh: int, lt_code: int, rhl: int, version: int = 1, reserved: int = 0) -> bytes:
    return bytes([((version & 0xF) << 4) | (nh & 0xF), reserved & 0xFF, lt_code & 0xFF, rhl & 0xFF])


def enc_common(nh: int, ht: int, hst: int, tc: int, flags: int, pl: int, mhl: int,
               res1: int = 0, res2: int = 0) -> bytes:
    return bytes([((nh & 0xF) << 4) | (res1 & 0xF), ((ht & 0xF) << 4) | (hst & 0xF), tc & 0xFF, flags & 0xFF]) + \
        struct.pack(">HBB", pl & 0xFFFF, mhl & 0xFF, res2 & 0xFF)


def enc_tc(scf: int, offload: int, tc_id: int) -> int:
    return ((scf & 1) << 7) | ((offload & 1) << 6) | (tc_id & 0x3F)


def enc_area(lat: int, lon: int, a: int, b: int, angle: int, reserved: int = 0) -> bytes:
    return struct.pack(">iiHHHH", lat, lon, a & 0xFFFF, b & 0xFFFF, angle & 0xFFFF, reserved & 0xFFFF)


def enc_btp(p1: int, p2: int) -> bytes:
    return struct.pack(">HH", p1 & 0xFFFF, p2 & 0xFFFF)


EXT_LEN = {  # (ht, hst) -> extended header length; hst None = any
    HT_BEACON: 24, HT_GUC: 48, HT_GAC: 44, HT_GBC: 44,
}


def ext_len(ht: int, hst: int) -> Optional[int]:
    if ht == HT_TSB:
        return 28 if hst == HST_SHB else (28 if hst == HST_TSB_MH else None)
    if ht == HT_LS:
        return 36 if hst == HST_LS_REQUEST else (48 if hst == HST_LS_REPLY else None)
    return EXT_LEN.get(ht)


def build_packet(p: dict) -> bytes:
    """Reference encoder.  `p` describes a packet with explicit field values:
    basic: {nh, lt, rhl[, version, reserved]}, common: {nh, ht, hst, tc, flags, mhl[, pl, res1, res2]},
    so: {addr(bytes8), tst, lat, lon, pai, speed, heading}, sn, de: {addr, tst, lat, lon},
    area: {lat, lon, a, b, angle}, req_addr (bytes8), payload (bytes), media (bytes4)
    """
    c = p["common"]
    ht, hst = c["ht"], c["hst"]
    payload = p.get("payload", b"")
    so = p["so"]
    lpv = enc_lpv(so["addr"], so["tst"], so["lat"], so["lon"], so["pai"], so["speed"], so["heading"])
    if ht == HT_BEACON:
        ext = lpv
    elif ht == HT_TSB and hst == HST_SHB:
        ext = lpv + p.get("media", b"\x00\x00\x00\x00")
    elif ht == HT_TSB:
        ext = struct.pack(">HH", p["sn"], p.get("ext_reserved", 0)) + lpv
    elif ht in (HT_GBC, HT_GAC):
        a = p["area"]
        ext = struct.pack(">HH", p["sn"], p.get("ext_reserved", 0)) + lpv + \
            enc_area(a["lat"], a["lon"], a["a"], a["b"], a["angle"], a.get("reserved", 0))
    elif ht == HT_GUC or (ht == HT_LS and hst == HST_LS_REPLY):
        de = p["de"]
        ext = struct.pack(">HH", p["sn"], p.get("ext_reserved", 0)) + lpv + \
            enc_spv(de["addr"], de["tst"], de["lat"], de["lon"])
    elif ht == HT_LS and hst == HST_LS_REQUEST:
        ext = struct.pack(">HH", p["sn"], p.get("ext_reserved", 0)) + lpv + p["req_addr"]
    else:
        raise ValueError("unsupported type")
    pl = c.get("pl", len(payload))
    b = p["basic"]
    return enc_basic(b.get("nh", NH_COMMON), b["lt"], b["rhl"], b.get("version", 1), b.get("reserved", 0)) + \
        enc_common(c["nh"], ht, hst, c["tc"], c["flags"], pl, c["mhl"], c.get("res1", 0), c.get("res2", 0)) + \
        ext + payload


def parse_common_on(data: bytes) -> dict:
    """Parse common header + extended header + payload (the signed part of a secured packet)."""
    if len(data) < 8:
        raise Malformed("short-common", str(len(data)))
    b0, b1, tc, flags, pl, mhl, res2 = struct.unpack(">BBBBHBB", data[0:8])
    c = {"nh": b0 >> 4, "res1": b0 & 0xF, "ht": b1 >> 4, "hst": b1 & 0xF, "tc": tc, "flags": flags,
         "pl": pl, "mhl": mhl, "res2": res2}
    ht, hst = c["ht"], c["hst"]
    out = {"common": c}
    if ht not in HT_NAMES or ht == HT_ANY:
        raise Malformed("ht-unsupported", str(ht))
    n = ext_len(ht, hst)
    if n is None:
        raise Malformed("hst-unsupported", f"{ht}/{hst}")
    if ht in (HT_GBC, HT_GAC) and hst > 2:
        raise Malformed("hst-unsupported", f"{ht}/{hst}")
    if ht in (HT_GUC, HT_BEACON) and hst != 0:
        raise Malformed("hst-unsupported", f"{ht}/{hst}")
    if c["nh"] > 3:
        raise Malformed("cnh-reserved", str(c["nh"]))
    body = data[8:]
    if len(body) < n:
        raise Malformed("short-ext", f"{len(body)}<{n}")
    ext, payload = body[:n], body[n:]
    if ht == HT_BEACON:
        out["so"] = dec_lpv(ext[0:24])
    elif ht == HT_TSB and hst == HST_SHB:
        out["so"] = dec_lpv(ext[0:24])
        out["media"] = bytes(ext[24:28])
    else:
        out["sn"], out["ext_reserved"] = struct.unpack(">HH", ext[0:4])
        out["so"] = dec_lpv(ext[4:28])
        if ht in (HT_GBC, HT_GAC):
            lat, lon, a, b, angle, r = struct.unpack(">iiHHHH", ext[28:44])
            out["area"] = {"lat": lat, "lon": lon, "a": a, "b": b, "angle": angle, "reserved": r}
        elif ht == HT_GUC or (ht == HT_LS and hst == HST_LS_REPLY):
            out["de"] = dec_spv(ext[28:48])
        elif ht == HT_LS:
            out["req_addr"] = bytes(ext[28:36])
    if out["so"]["addr"]["st"] > 15 and False:
        pass
    out["payload"] = bytes(payload)
    return out


def parse_packet(frame: bytes) -> dict:
    """Tolerant reference parser; raises Malformed(class) for frames a conformant
    receiver has to discard at GN level.  Secured packets are returned with
    basic header only and `secured` = envelope bytes."""
    if len(frame) < 4:
        raise Malformed("short-basic", str(len(frame)))
    b0, res, lt, rhl = frame[0], frame[1], frame[2], frame[3]
    basic = {"version": b0 >> 4, "nh": b0 & 0xF, "reserved": res, "lt": lt, "rhl": rhl}
    if basic["version"] != 1:
        raise Malformed("version", str(basic["version"]))
    if basic["nh"] == NH_SECURED:
        return {"basic": basic, "secured": bytes(frame[4:])}
    if basic["nh"] != NH_COMMON:
        raise Malformed("bnh-unsupported", str(basic["nh"]))
    out = parse_common_on(frame[4:])
    out["basic"] = basic
    if rhl > out["common"]["mhl"]:
        raise Malformed("rhl>mhl", f"{rhl}>{out['common']['mhl']}")
    return out


def ptype(p: dict) -> str:
    c = p["common"]
    ht, hst = c["ht"], c["hst"]
    if ht == HT_TSB:
        return "SHB" if hst == HST_SHB else "TSB"
    if ht == HT_LS:
        return "LSREQ" if hst == HST_LS_REQUEST else "LSREP"
    return HT_NAMES.get(ht, "?")


def describe_diff(a: bytes, b: bytes) -> str:
    """Name the first differing field between two frames of the same type (best effort)."""
    try:
        pa, pb = parse_packet(a), parse_packet(b)
    except Malformed as e:
        return f"unparsable:{e.klass}"

    def flat(d, pre=""):
        o = {}
        for k, v in d.items():
            if isinstance(v, dict):
                o.update(flat(v, pre + k + "."))
            else:
                o[pre + k] = v
        return o
    fa, fb = flat(pa), flat(pb)
    order = ["basic.version", "basic.nh", "basic.reserved", "basic.lt", "basic.rhl", "common.nh", "common.res1",
             "common.ht", "common.hst", "common.tc", "common.flags", "common.pl", "common.mhl", "common.res2", "sn",
             "ext_reserved"]
    keys = order + sorted(k for k in set(fa) | set(fb) if k not in order)
    for k in keys:
        if fa.get(k) != fb.get(k):
            if k.endswith("addr_raw"):
                continue
            return k
    if len(a) != len(b):
        return "length"
    return "none"


# --------------------------------------------------------------------------- geometry (EN 302 931)
R_EARTH = 6371000.0


def _local_en(lat0: float, lon0: float, lat: float, lon: float) -> tuple[float, float]:
    """East/north offsets (m) of P relative to the centre, equirectangular."""
    dlon = ((lon - lon0 + 180.0) % 360.0) - 180.0
    n = math.radians(lat - lat0) * R_EARTH
    e = math.radians(dlon) * R_EARTH * math.cos(math.radians((lat + lat0) / 2))
    return e, n


def _gc_en(lat0: float, lon0: float, lat: float, lon: float) -> tuple[float, float]:
    """East/north offsets by great-circle distance and initial bearing."""
    p0, p1 = math.radians(lat0), math.radians(lat)
    dl = math.radians(((lon - lon0 + 180.0) % 360.0) - 180.0)
    a = math.sin((p1 - p0) / 2) ** 2 + math.cos(p0) * math.cos(p1) * math.sin(dl / 2) ** 2
    d = 2 * R_EARTH * math.asin(min(1.0, math.sqrt(a)))
    brg = math.atan2(math.sin(dl) * math.cos(p1),
                     math.cos(p0) * math.sin(p1) - math.sin(p0) * math.cos(p1) * math.cos(dl))
    return d * math.sin(brg), d * math.cos(brg)


def _f(shape: int, a: float, b: float, x: float, y: float) -> float:
    if shape == HST_CIRCLE:
        return 1 - (x / a) ** 2 - (y / a) ** 2
    if shape == HST_ELIP:
        return 1 - (x / a) ** 2 - (y / b) ** 2
    return min(1 - (x / a) ** 2, 1 - (y / b) ** 2)


def area_verdict(shape: int, area: dict, lat_i: int, lon_i: int, band: float = 0.005, min_m: float = 2.0):
    """'inside' / 'outside' / None (no verdict: tolerance band, projections disagree, polar, degenerate).
    Coordinates in 1/10 microdegree; a, b in metres; angle = azimuth of the a-axis from north, clockwise."""
    a, b = float(area["a"]), float(area["b"])
    if shape == HST_CIRCLE:
        b = a
    if a <= 0 or b <= 0:
        return None
    lat0, lon0 = area["lat"] / 1e7, area["lon"] / 1e7
    lat, lon = lat_i / 1e7, lon_i / 1e7
    if abs(lat0) > 85 or abs(lat) > 85:
        return None
    th = math.radians(area["angle"] % 360)
    res = []
    for proj in (_local_en, _gc_en):
        e, n = proj(lat0, lon0, lat, lon)
        x = e * math.sin(th) + n * math.cos(th)   # along the a-axis
        y = e * math.cos(th) - n * math.sin(th)   # across
        # verdict with tolerance: shrink / grow the axes
        ta, tb = max(min_m, band * a), max(min_m, band * b)
        f_in = _f(shape, max(a - ta, 1e-9), max(b - tb, 1e-9), x, y) if (a > ta and b > tb) else -1.0
        f_out = _f(shape, a + ta, b + tb, x, y)
        if f_in >= 0:
            res.append("inside")
        elif f_out < 0:
            res.append("outside")
        else:
            res.append(None)
    if res[0] is not None and res[0] == res[1]:
        return res[0]
    return None


def area_size_km2(shape: int, a: int, b: int) -> float:
    if shape == HST_CIRCLE:
        return math.pi * a * a / 1e6
    if shape == HST_ELIP:
        return math.pi * a * b / 1e6
    return 4.0 * a * b / 1e6


def offset_position(lat_i: int, lon_i: int, east_m: float, north_m: float) -> tuple[int, int]:
    """Move a point by (east, north) metres; returns 1/10 microdegree integers (lon wrapped)."""
    lat = lat_i / 1e7 + math.degrees(north_m / R_EARTH)
    lat = max(-89.9, min(89.9, lat))
    lon = lon_i / 1e7 + math.degrees(east_m / (R_EARTH * max(0.01, math.cos(math.radians((lat + lat_i / 1e7) / 2)))))
    lon = ((lon + 180.0) % 360.0) - 180.0
    return int(round(lat * 1e7)), int(round(lon * 1e7))


def distance_m(lat1: int, lon1: int, lat2: int, lon2: int) -> float:
    e, n = _gc_en(lat1 / 1e7, lon1 / 1e7, lat2 / 1e7, lon2 / 1e7)
    return math.hypot(e, n)
