"""`sec` engine: one CertificateLibrary + VerifyService under test, fed from a plan with genuine and forged material.

Real code: CertificateLibrary, Certificate / OwnCertificate (verification and issuing API), SignService (senders and the
DUT's P2PCD notifications), VerifyService, SecurityCoder, PythonECDSABackend.sign / verify_with_pk.
Stubs: virtual clock (TimeService.time = kernel.time), seeded ECDSA entropy (seccrypto.SeededECDSABackend).

The engine only executes and observes; oracles are attached as hooks (see props/c09.py).
"""
from __future__ import annotations

import json
from typing import Any, Callable, Optional

from .kernel import Kernel, HarnessError
from .patching import Patches
from . import seccrypto as sc

_FORGE_CACHE: dict = {}


class SecSim:
    def __init__(self, plan: dict):
        self.plan = plan
        self.cfg = cfg = plan["config"]
        self.kernel = Kernel(cfg["t0_us"], max_events=10_000)
        self.faults: dict[str, int] = {}
        self.probes: dict[str, int] = {}
        self.violations: list[dict] = []
        self.trace: list[tuple] = []
        self.hooks: list[Callable[["SecSim", dict], None]] = []
        self.patches = Patches()
        pk = cfg["pki"]
        self.pki = sc.make_pki(("c09", pk["seed"]), pk["n"], psid_sets=pk["psid_sets"], now=pk.get("now"),
                               validity={"root": (-86400 * 30, ("years", 20)), "aa": (-86400, ("years", 5)),
                                         "tickets": [(w[0], tuple(w[1])) for w in pk["tickets_validity"]]},
                               aa_psids=pk["aa_psids"], root_min_chain=pk.get("root_min_chain", 2),
                               root_chain_range=pk.get("root_chain_range", 0))
        self._pki_key = json.dumps(pk, sort_keys=True)
        for role in self.pki.fallbacks:
            self.probe("pki-issuing-api-fallback:" + role)
        self.forger = sc.Forger(("c09-atk", cfg.get("atk_seed", 0)), self.pki)
        self.known: dict[bytes, str] = {}                 # encoded certificate -> kind label (everything ever resolved)
        self.configured_roots: set[bytes] = set()
        self.lib = None
        self.dut_backend = None
        self.dut_sign = None
        self.dut_verify = None
        self.senders: dict[int, Any] = {}
        self.nontrivial = False
        for role, i in [("root", None), ("aa", None)] + [("at", j) for j in range(pk["n"])]:
            self.known[self.pki.bytes_of(role, i)] = "genuine-" + role

    # ------------------------------------------------------------------ bookkeeping (same interface as NetSim)
    def fault(self, kind: str, n: int = 1) -> None:
        self.faults[kind] = self.faults.get(kind, 0) + n

    def probe(self, name: str, n: int = 1) -> None:
        self.probes[name] = self.probes.get(name, 0) + n

    def violate(self, prop: str, rule: str, key: str, detail: str) -> None:
        self.violations.append({"property": prop, "rule": rule, "key": key, "detail": detail,
                                "t_us": self.kernel.now_us - self.kernel.t0_us, "seq": self.kernel.seq})

    def now_its_s(self) -> float:
        return self.kernel.now_us / 1e6 - sc.ITS_EPOCH + sc.LEAP_S

    # ------------------------------------------------------------------ certificate specs -> material
    def resolve(self, spec: dict) -> sc.Forged:
        ck = (self._pki_key, self.cfg.get("atk_seed", 0), json.dumps(spec, sort_keys=True))
        fg = _FORGE_CACHE.get(ck)
        if fg is None:
            fg = self._resolve(spec)
            if len(_FORGE_CACHE) > 20_000:
                _FORGE_CACHE.clear()
            _FORGE_CACHE[ck] = fg
        self.known.setdefault(fg.cert, fg.kind)
        if fg.canon is not None and fg.canon != fg.cert:
            self.known.setdefault(fg.canon, fg.kind)
        return fg

    def _resolve(self, spec: dict) -> sc.Forged:
        k, p, f = spec["k"], self.pki, self.forger
        if k == "g":
            role, i = spec["role"], spec.get("i")
            if role == "at":
                i = i % len(p.ticket_bytes)
            issuer = None if role == "root" else (p.root_bytes if role == "aa" else p.aa_bytes)
            return sc.Forged("genuine-" + role, p.bytes_of(role, i), role, p.key_of(role, i), issuer, True)
        if k == "atk":
            ch = f.attacker_chain(psids=spec.get("psids", sc.DEFAULT_PSIDS), tag=spec.get("tag", 0))
            fg = ch[spec["role"]]
            return sc.Forged("attacker-" + spec["role"], fg.cert, fg.role, fg.key, fg.issuer)
        if k == "resigned":
            return f.resigned(spec["role"], spec.get("i", 0) % len(p.ticket_bytes), spec.get("swap", True))
        if k == "resigned-atk":
            return f.resigned_under_attacker(spec["role"], spec.get("i", 0) % len(p.ticket_bytes))
        if k == "esc-at":
            return f.escalated_at(spec["psids"], spec.get("by", "aa"))
        if k == "sub-ca":
            return f.sub_ca(spec["psids"], spec.get("min", 1), spec.get("range", 0), spec.get("by", "aa"),
                            kind=spec.get("label", "sub-ca"), app_psids=spec.get("app"))
        if k == "child":
            parent = self.resolve(spec["parent"])
            if parent.key is None:
                raise HarnessError("child spec of a parent whose key the forger does not own")
            return f.child_of(parent, spec.get("psids", sc.DEFAULT_PSIDS), as_ca=spec.get("ca", False),
                              min_chain=spec.get("min", 1), kind=spec.get("label"))
        if k == "by-ticket":
            return f.issued_by_ticket(spec.get("i", 0) % len(p.ticket_bytes), spec.get("psids", sc.DEFAULT_PSIDS))
        if k == "validity":
            return f.with_validity(p.now + spec["start_off"], tuple(spec["dur"]), spec.get("psids", sc.DEFAULT_PSIDS),
                                   kind=spec.get("label", "validity"))
        if k == "key-swapped":
            return f.key_swapped(spec["role"], spec.get("i", 0) % len(p.ticket_bytes))
        if k == "edited":
            return self._edited(spec)
        if k == "crafted":
            return f.crafted(spec["role"], spec.get("i", 0) % len(p.ticket_bytes), spec.get("alg", sc.SIG_ALGS[0]), spec.get("r_form", "compressed-y-0"),
                             spec.get("rs", "random"), spec.get("key_form", "uncompressedP256"), tag=spec.get("tag", 0),
                             own_tbs=spec.get("own_tbs", False))
        if k == "empty-app":
            # hand-built ticket under the genuine AA whose appPermissions is present but empty, or absent altogether
            absent = spec.get("absent", False)
            sk = f.key("empty-app", absent, spec.get("tag", 0))
            tbs = sc.make_tbs(None, p.now + spec.get("start_off", -3600), tuple(spec.get("dur", ("years", 1))), app_psids=None if absent else [])
            b = sc.build_cert(tbs, p.aa_key, p.aa_bytes, subject_key=sk)
            return sc.Forged("no-app-at" if absent else "empty-app-at", b, "at", sk, p.aa_bytes, True)
        if k == "mutated":
            base = self.resolve(spec["base"])
            return sc.Forged("mutated:" + spec["m"], sc.mutate(base.cert, spec["m"], spec.get("a", 0), spec.get("v", 0)),
                             base.role, base.key, base.issuer)
        raise HarnessError("unknown certificate spec " + k)

    def _edited(self, spec: dict) -> sc.Forged:
        p, f = self.pki, self.forger
        role, i, fld, v = spec["role"], spec.get("i", 0) % len(p.ticket_bytes), spec["field"], spec.get("v", 1)
        d, _ = sc.as_cert(p.bytes_of(role, i))
        tbs = d["toBeSigned"]
        if fld == "psid":
            if tbs.get("appPermissions"):
                path, val = ["toBeSigned", "appPermissions", 0, "psid"], 1000 + v
            elif "appPermissions" in tbs:          # present but empty: the edit grants a PSID
                path, val = ["toBeSigned", "appPermissions"], [{"psid": 1000 + v}]
            else:
                path = ["toBeSigned", "certIssuePermissions", 0, "subjectPermissions"]
                val = ("all", None) if tbs["certIssuePermissions"][0]["subjectPermissions"][0] != "all" else ("explicit", [{"psid": 1000 + v}])
        elif fld == "start":
            path, val = ["toBeSigned", "validityPeriod", "start"], max(0, tbs["validityPeriod"]["start"] - 86400 * v)
        elif fld == "duration":
            path, val = ["toBeSigned", "validityPeriod", "duration"], ("years", 20 + v)
        elif fld == "id":
            path, val = ["toBeSigned", "id"], ("name", "edited-%d" % v)
        elif fld == "issuer":
            other = p.root_bytes if role == "at" else (p.aa_bytes if role == "root" else p.ticket_bytes[0])
            path, val = ["issuer"], ("sha256AndDigest", sc.hashed_id8(other))
        elif fld in ("sig-s", "sig-r"):
            sig = d["signature"][1]
            if fld == "sig-s":
                b = bytearray(sig["sSig"])
                b[v % 32] ^= 1 << (v % 8)
                path, val = ["signature", 1, "sSig"], bytes(b)
            else:
                b = bytearray(sig["rSig"][1])
                b[v % 32] ^= 1 << (v % 8)
                path, val = ["signature", 1, "rSig"], (sig["rSig"][0], bytes(b))
        elif fld == "version":
            path, val = ["version"], 2 if v % 2 else 4
        elif fld == "sig-form":
            # same r, s octets, r spelled in another point form (compressed-y-* / uncompressed keep the x coordinate: still the
            # issuer's signature by the x-coordinate reading of IEEE 1609.2; fill drops r)
            path, val = ["signature"], sc.reencode_signature(d["signature"], r_form=sc.R_FORMS[1 + v % 4])
        elif fld == "sig-alg":
            path, val = ["signature"], sc.reencode_signature(d["signature"], alg=sc.SIG_ALGS[1 + v % 4])
        elif fld == "key-form":
            # the same public key in compressed form: toBeSigned changes, the issuer's signature no longer covers it
            vk = sc.verifying_key_of(d)
            if vk is None:
                path, val = ["toBeSigned", "id"], ("name", "edited-%d" % v)
            else:
                path, val = ["toBeSigned", "verifyKeyIndicator"], ("verificationKey", sc.public_key_value_form(vk, "compressed"))
        elif fld == "min-chain":
            if "certIssuePermissions" not in tbs:
                path, val = ["toBeSigned", "id"], ("name", "edited-%d" % v)
            else:
                path = ["toBeSigned", "certIssuePermissions", 0, "minChainLength"]
                val = tbs["certIssuePermissions"][0]["minChainLength"] + 1 + v % 3
        else:
            raise HarnessError("unknown edited field " + fld)
        return f.edited(role, i, path, val, "edited:" + fld)

    # ------------------------------------------------------------------ repo objects
    def repo_cert(self, fg: sc.Forged, issuer_mode: str = "proper", own: bool = False):
        """Repo Certificate for forged/genuine material; raises sc.Undecodable when the bytes do not decode."""
        from flexstack.security.certificate import Certificate, OwnCertificate
        d = sc.decode_cert(fg.cert)
        issuer = None
        if issuer_mode == "proper" and fg.issuer is not None:
            try:
                issuer = Certificate.from_dict(sc.decode_cert(fg.issuer), None)
            except sc.Undecodable:
                issuer = None
        elif issuer_mode == "lib":
            try:
                issuer = self.lib.get_issuer_certificate(Certificate.from_dict(d, None))
            except Exception:
                issuer = None
        elif issuer_mode == "wrong":
            issuer = self.pki.cert("root" if fg.role == "at" else "aa")
        if own:
            kid = self.dut_backend.add_key(fg.key) if fg.key is not None else 0
            return OwnCertificate(certificate=d, issuer=issuer, key_id=kid)
        return Certificate.from_dict(d, issuer)

    def sender(self, i: int):
        if i not in self.senders:
            self.senders[i] = self.pki.services_for(i)[0]
        return self.senders[i]

    # ------------------------------------------------------------------ stores as observed
    def store(self, name: str) -> dict:
        lib = self.lib
        return {"root": lib.known_root_certificates, "aa": lib.known_authorization_authorities,
                "at": lib.known_authorization_tickets, "own": lib.own_certificates}[name]

    # ------------------------------------------------------------------ run
    def run(self) -> None:
        cfg, k = self.cfg, self.kernel
        from flexstack.utils import time_service
        with self.patches as p:
            p.mute_stdout()
            p.set(time_service.TimeService, "time", staticmethod(k.time))
            sc.entropy_tripwire(p)
            try:
                self._build_dut()
                self._after({"idx": -1, "op": {"op": "ctor"}, "api": "ctor", "kind": "ctor", "outcome": "built", "offered": []})
                for idx, op in enumerate(self.plan["ops"]):
                    k.call_later(0, self._run_op, idx, op, station=None, kind="op", cause=("op", idx))
                    k.run(k.now_us)
            finally:
                k.shutdown()

    def _build_dut(self) -> None:
        from flexstack.security.sign_service import SignService
        from flexstack.security.verify_service import VerifyService
        lc = self.cfg.get("lib", {})
        own = lc.get("own")
        if own is not None:
            self.dut_backend, kid = self.pki.station_backend(own % len(self.pki.ticket_bytes))
        else:
            self.dut_backend, kid = sc.SeededECDSABackend(("c09-dut", self.cfg["pki"]["seed"])), None
        preload = [j % len(self.pki.ticket_bytes) for j in lc.get("preload", [])]
        self.lib = self.pki.library_for(None if own is None else own % len(self.pki.ticket_bytes), preload,
                                        backend=self.dut_backend, key_id=kid,
                                        with_root=lc.get("with_root", True), with_aa=lc.get("with_aa", True))
        if lc.get("with_root", True):
            self.configured_roots.add(self.pki.root_bytes)
        self.dut_sign = SignService(backend=self.dut_backend, certificate_library=self.lib)
        self.dut_verify = VerifyService(backend=self.dut_backend, certificate_library=self.lib,
                                        sign_service=self.dut_sign if lc.get("sign_service", True) else None)
        self.probe("api:ctor")

    def _after(self, rec: dict) -> None:
        for h in self.hooks:
            h(self, rec)

    def _run_op(self, idx: int, op: dict) -> None:
        kind = op["op"]
        rec = {"idx": idx, "op": op, "api": kind, "kind": "-", "outcome": "?", "offered": [], "exc": None}
        fn = getattr(self, "_op_" + kind, None)
        if fn is None:
            raise HarnessError("unknown op " + kind)
        fn(op, rec)
        self.kernel.record("op", idx, rec["api"], rec["kind"], rec["outcome"])
        self.trace.append((kind, rec["api"], rec["kind"], rec["outcome"]))
        self._after(rec)

    # ---- ops
    def _op_advance(self, op, rec) -> None:
        rec["t_before"] = self.now_its_s()
        self.kernel.now_us += int(op["dt_s"] * 1_000_000)
        rec["outcome"] = "advanced"

    _API = {"add_root": ("add_root_certificate", "root"), "add_aa": ("add_authorization_authority", "aa"),
            "add_at": ("add_authorization_ticket", "at"), "add_own": ("add_own_certificate", "own")}

    def _op_add(self, op, rec) -> None:
        method, store = self._API[op["api"]]
        rec["api"] = method
        fg = self.resolve(op["cert"])
        rec["kind"] = fg.kind
        rec["offered"] = [fg]
        self.probe("api:" + method)
        self.probe("offered:" + fg.kind)
        try:
            cert = self.repo_cert(fg, op.get("issuer", "proper"), own=(store == "own"))
            canon = sc.encode_cert(cert.certificate)
        except Exception as e:
            if not isinstance(e, sc.Undecodable) and type(e).__name__ != "EncodeError":
                raise
            rec["outcome"] = "undecodable"
            self.probe("offered-undecodable")
            return
        if canon != fg.cert:
            self.probe("offered-noncanonical-encoding")       # e.g. trailing bytes the decoder ignores
            self.known.setdefault(canon, fg.kind)
        if method == "add_root_certificate":
            self.configured_roots.add(canon)                   # what the API is handed is the decoded certificate
        self.nontrivial = True
        h8 = sc.hashed_id8(fg.cert)
        before = h8 in self.store(store)
        try:
            getattr(self.lib, method)(cert)
        except Exception as e:  # code under test raised: recorded, judged by the oracle
            rec["exc"] = e
            rec["outcome"] = "raised:" + type(e).__name__
            self.probe("raised:%s:%s" % (method, type(e).__name__))
            return
        after = h8 in self.store(store)
        rec["outcome"] = "already" if before else ("stored" if after else "rejected")

    def _op_verify_chain(self, op, rec) -> None:
        rec["api"] = "verify_sequence_of_certificates"
        fgs = [self.resolve(s) for s in op["chain"]]
        rec["offered"] = fgs
        rec["kind"] = "+".join(f.kind for f in fgs) or "empty"
        self.probe("api:verify_sequence_of_certificates")
        self.probe("chain-len:%d" % len(fgs))
        for f in fgs:
            self.probe("offered:" + f.kind)
        try:
            dicts = [sc.decode_cert(f.cert) for f in fgs]
        except sc.Undecodable:
            rec["outcome"] = "undecodable"
            self.probe("offered-undecodable")
            return
        self.nontrivial = True
        try:
            res = self.lib.verify_sequence_of_certificates(dicts, self.dut_backend)
        except Exception as e:
            rec["exc"] = e
            rec["outcome"] = "raised:" + type(e).__name__
            self.probe("raised:verify_sequence_of_certificates:" + type(e).__name__)
            return
        rec["outcome"] = "ticket" if res is not None else "none"

    def _op_message(self, op, rec) -> None:
        from flexstack.security.sn_sap import SNSIGNRequest, SNVERIFYRequest
        rec["api"] = "verify"
        payload = bytes.fromhex(op.get("payload", "00"))
        enc = None
        if op["via"] == "service":
            i = op["st"] % len(self.pki.ticket_bytes)
            rec["kind"] = "service:" + op["profile"]
            rec["offered"] = [self.resolve({"k": "g", "role": "at", "i": i})]
            req = SNSIGNRequest(len(payload), payload, op["psid"], 0, b"",
                                generation_location={"latitude": 415520000, "longitude": 21340000, "elevation": 0xF000}
                                if op["profile"] == "denm" else None)
            try:
                s = self.sender(i)
                enc = (s.sign_cam(req) if op["profile"] == "cam" else s.sign_request(req)).sec_message
            except Exception as e:
                rec["outcome"] = "sender-refused:" + type(e).__name__
                self.probe("sender-refused:" + type(e).__name__)
                return
        else:
            fg = self.resolve(op["cert"])
            rec["offered"] = [fg]
            ks = op.get("key", "own")
            if ks == "own":
                key = fg.key
            elif ks == "atk":
                key = self.forger.key("msg-atk", op.get("ktag", 0))
            else:
                key = self.pki.ticket_keys[int(ks) % len(self.pki.ticket_keys)]
            if key is None:
                key = self.forger.key("msg-atk", "nokey")
                ks = "atk"
            rec["kind"] = "forge:%s:%s:%s" % (fg.kind, op["form"], "own-key" if ks == "own" else "other-key")
            extra = None
            if op.get("extra"):
                extra = {}
                for name, val in op["extra"].items():
                    if name == "requestedCertificate":
                        try:
                            extra[name] = sc.decode_cert(self.resolve(val).cert)
                            self.probe("requested-cert-offered")
                        except sc.Undecodable:
                            pass
                    elif name == "inlineP2pcdRequest":
                        extra[name] = [bytes.fromhex(x) for x in val]
            gen = None if op.get("gen_n0_s") is None else int((self.pki.now + op["gen_n0_s"]) * 1_000_000)
            try:
                enc = self.forger.message(payload, op["psid"], gen, key, fg.cert, op["form"],
                                          generation_location={"latitude": 415520000, "longitude": 21340000, "elevation": 0xF000}
                                          if op.get("loc") else None, extra_header=extra, mode=op.get("mode", "plain"))
            except sc.Undecodable:
                rec["outcome"] = "undecodable"
                self.probe("offered-undecodable")
                return
            self.probe("offered-in-message:" + fg.kind)
        if op.get("mut"):
            m = op["mut"]
            enc = sc.mutate(enc, m["m"], m.get("a", 0), m.get("v", 0))
            rec["kind"] += ":mut-" + m["m"]
        rec["message"] = enc
        rec["aa_before"] = set(self.store("aa").keys())
        self.nontrivial = True
        self.probe("api:verify")
        try:
            conf = self.dut_verify.verify(SNVERIFYRequest(0, b"", len(enc), enc))
        except Exception as e:
            rec["exc"] = e
            rec["outcome"] = "raised:" + type(e).__name__
            self.probe("raised:verify:" + type(e).__name__)
            return
        rec["confirm"] = conf
        rec["outcome"] = conf.report.name
        self.probe("msg:" + conf.report.name)

    def _op_issue(self, op, rec) -> None:
        """Exercise OwnCertificate.initialize_certificate / issue_certificate over a fresh two- or three-level hierarchy."""
        from flexstack.security.certificate import Certificate, OwnCertificate
        be = sc.SeededECDSABackend(("c09-issue", self.cfg.get("atk_seed", 0), op.get("tag", 0)))
        now = self.pki.now
        rec["api"] = "initialize_certificate" if op.get("method", "initialize") == "initialize" else "issue_certificate"
        rec["issued"] = []
        self.nontrivial = True

        def tbs_of(s, name):
            groups = None if s.get("groups") is None else [sc.group(g["psids"], g["min"], g["range"]) for g in s["groups"]]
            return sc.make_tbs(name if (groups is not None or s.get("named")) else None, now + s.get("start_off", -60),
                               tuple(s.get("dur", ("hours", 2))), app_psids=s.get("app"), issue_groups=groups)

        def issue(s, name, issuer, method):
            tbs = tbs_of(s, name)
            self.probe("api:" + method)
            entry = {"method": method, "issuer": issuer, "spec": s, "result": None, "exc": None}
            rec["issued"].append(entry)
            try:
                if method == "initialize_certificate":
                    entry["result"] = OwnCertificate.initialize_certificate(be, tbs, issuer)
                else:
                    kid = be.create_key()
                    tbs["verifyKeyIndicator"] = ("verificationKey", be.get_public_key(kid))
                    req = Certificate.from_dict({"version": 3, "type": "explicit",
                                                 "issuer": ("sha256AndDigest", b"\x00" * 8), "toBeSigned": tbs,
                                                 "signature": ("ecdsaNistP256Signature", {"rSig": ("x-only", b"\x00" * 32), "sSig": b"\x00" * 32})},
                                                issuer)
                    out = issuer.issue_certificate(be, req)
                    entry["result"] = OwnCertificate(certificate=out.certificate, issuer=issuer, key_id=kid)
            except Exception as e:
                entry["exc"] = e
                self.probe("raised:%s:%s" % (method, type(e).__name__))
            return entry["result"]

        root = issue(op["root"], "issue-root", None, "initialize_certificate")
        outcome = []
        issuer = root
        if root is not None and op.get("mid") is not None:
            issuer = issue(op["mid"], "issue-mid", root, "initialize_certificate")
        if issuer is not None:
            issue(op["subject"], "issue-sub", issuer, rec["api"])
        for e in rec["issued"]:
            outcome.append("x" if e["exc"] is not None else "r")
        rec["kind"] = "%s/%s" % ("mid" if op.get("mid") is not None else "root",
                                 "ca" if op["subject"].get("groups") is not None else "at")
        rec["outcome"] = "".join(outcome)
        rec["backend"] = be
