"""Reference models shared by several oracles (written from EN 302 636-4-1, not from the code)."""
from __future__ import annotations

from collections import deque

from . import refcodec as rc
from .netsim import Monitor

MULTIHOP = ("TSB", "GBC", "GAC", "GUC", "LSREQ", "LSREP")


class RefDPL(Monitor):
    """Annex A.2 duplicate packet list per (station, source): ring of the last itsGnDPLLength
    accepted sequence numbers, fed with exactly the frames the ether delivered.

    For every delivered multi-hop frame it records in rec['dpl']:
      'dup'   - SN is in the ring and was accepted recently enough that the source's LocTE cannot
                have expired -> must be neither delivered nor forwarded
      'fresh' - SN not in the ring -> accepted (no obligation either way for old replays)
      'stale' - SN in the ring but old enough that the LocTE may have expired -> no verdict
      None    - not a multi-hop frame / own address / unparsable
    """

    def __init__(self, margin_s: float = 3.0):
        self.rings: dict[tuple, deque] = {}
        self.margin_s = margin_s

    def before_rx(self, sim, rec):
        rec["dpl"] = None
        rec["parsed"] = None
        st = sim.stations[rec["st"]]
        try:
            p = rc.parse_packet(rec["frame"])
        except rc.Malformed as e:
            rec["malformed"] = e.klass
            return
        rec["parsed"] = p
        if "secured" in p:
            return
        typ = rc.ptype(p)
        rec["ptype"] = typ
        if typ not in MULTIHOP:
            return
        mid = p["so"]["addr"]["mid"]
        if mid == st.mac:
            rec["dpl"] = "own"
            return
        key = (st.idx, st.gen, mid)
        ring = self.rings.get(key)
        if ring is None:
            ring = self.rings[key] = deque(maxlen=st.mib.itsGnDPLLength)
        sn = p["sn"]
        now = sim.kernel.now_us
        for (s, t) in ring:
            if s == sn:
                life_us = (st.mib.itsGnLifetimeLocTE - self.margin_s) * 1e6
                rec["dpl"] = "dup" if (now - t) < life_us else "stale"
                return
        ring.append((sn, now))
        rec["dpl"] = "fresh"
