"""Pre-emptive scheduling engine for C15 / C16 (DESIGN 2.5).

Real OS threads, baton passing (exactly one simulated thread executes at any moment; the scheduler decides
which), and instruction-level pre-emption points restricted to the code objects of the modules under test.

Instrumentation: CPython 3.12 `sys.monitoring` INSTRUCTION events enabled *locally* on the code objects of the
modules under test (the PEP 669 successor of `sys.settrace` + `f_trace_opcodes`; same granularity - the callback
runs before every bytecode instruction of those files - at a small fraction of the cost, and nothing outside
those code objects is ever instrumented, so nothing can leak into the runner's own code).  The tool id is
claimed at the start of `Scheduler.run()` and released in its `finally`.

Locks created by the code under test must be `SimLock` / `SimRLock` (patched into the module namespaces before
the objects are built): a real lock held by a parked thread would deadlock the process.  Each armed `SimTimer`
becomes one more simulated thread that may be started at any later scheduling point; `cancel()` before it
started means it never runs, `cancel()` after its callback started has no effect (as with threading.Timer).

All choices come from `random.Random(seed)` consumed in execution order, which is itself deterministic because
of the baton; the same plan on the same code therefore reproduces the same schedule.  The schedule taken is
recorded as a list of (step, thread index) switches; `strategy="explicit"` replays such a list.
"""
from __future__ import annotations

import hashlib
import os
import random
import sys
import threading
import types
import _thread

from .kernel import HarnessError

_get_ident = _thread.get_ident
_alloc = _thread.allocate_lock
_RealThread = threading.Thread

MON = sys.monitoring
TOOL_ID = 4
TOOL_NAME = "fsim-sched"

PENDING, RUNNABLE, BLOCKED, DONE, CANCELLED = range(5)
STATE_NAME = {PENDING: "pending", RUNNABLE: "runnable", BLOCKED: "blocked", DONE: "done", CANCELLED: "cancelled"}

DEFAULT_STEP_CAP = 200_000


class SchedAbort(BaseException):
    """Raised inside simulated threads to unwind them when a run is torn down (deadlock, step cap)."""


# ------------------------------------------------------------------------------------------ CPU pinning
_PINNED = False


def _pin_once() -> None:
    """Baton passing between OS threads is 2-3 times cheaper when the threads of one process share a core (no
    cross-core wake-ups; only one of them runs at any moment anyway).  Each worker process pins itself once to
    one of the CPUs it is allowed to use, chosen from its pool-worker number (FSIM_NO_PIN=1 disables this).
    Purely a performance measure: nothing observable by a run depends on it."""
    global _PINNED
    if _PINNED:
        return
    _PINNED = True
    if os.environ.get("FSIM_NO_PIN") or not hasattr(os, "sched_setaffinity"):
        return
    try:
        import multiprocessing
        ident = getattr(multiprocessing.current_process(), "_identity", ()) or ()
        n = (ident[0] - 1) if ident else os.getpid()
        cpus = sorted(os.sched_getaffinity(0))
        if len(cpus) > 1:
            os.sched_setaffinity(0, {cpus[n % len(cpus)]})
    except Exception:                      # noqa: BLE001
        pass


# ------------------------------------------------------------------------------------------ code objects
_CODES: dict = {}


def code_objects(mod) -> list:
    """Every code object defined in the module's file (functions, methods, nested functions, lambdas)."""
    hit = _CODES.get(mod.__name__)
    if hit is not None and hit[0] is mod:
        return hit[1]
    fn = getattr(mod, "__file__", None)
    out: list = []
    seen: set = set()

    def walk(c):
        if id(c) in seen or c.co_filename != fn:
            return
        seen.add(id(c))
        out.append(c)
        for k in c.co_consts:
            if isinstance(k, types.CodeType):
                walk(k)

    def from_obj(o, depth=0):
        if isinstance(o, (staticmethod, classmethod)):
            o = o.__func__
        if isinstance(o, property):
            for g in (o.fget, o.fset, o.fdel):
                if g is not None:
                    from_obj(g, depth)
            return
        c = getattr(o, "__code__", None)
        if isinstance(c, types.CodeType):
            walk(c)
        w = getattr(o, "__wrapped__", None)
        if w is not None and depth < 3:
            from_obj(w, depth + 1)

    for _, obj in list(vars(mod).items()):
        if isinstance(obj, type):
            if obj.__module__ == mod.__name__:
                for _, o2 in list(vars(obj).items()):
                    from_obj(o2)
        else:
            from_obj(obj)
    _CODES[mod.__name__] = (mod, out)
    return out


def line_of(code, offset) -> int:
    for start, end, line in code.co_lines():
        if start <= offset < end and line is not None:
            return line
    return code.co_firstlineno


# ------------------------------------------------------------------------------------------ writes to shared state
_STORE_PTS: dict = {}


def store_points(mod, names) -> dict:
    """code object -> frozenset of the offsets of the instructions that directly FOLLOW a write to shared state in that code object:
    STORE_ATTR to one of `names` (all attributes when `names` is empty), STORE_SUBSCR and DELETE_SUBSCR (dictionary updates).  Used by
    the race-directed strategy "store": a pre-emption right after such a write lets another thread observe the intermediate state
    (clear-then-set publication, read-modify-write split, test-then-act).  Computed once per module and name set with `dis`."""
    import dis
    key = (mod.__name__, tuple(sorted(names or ())))
    hit = _STORE_PTS.get(key)
    if hit is not None and hit[0] is mod:
        return hit[1]
    want = set(names or ())
    out = {}
    for c in code_objects(mod):
        pts = set()
        prev = None
        for ins in dis.get_instructions(c):
            if prev is not None:
                pts.add(ins.offset)
                prev = None
            if ins.opname == "STORE_ATTR":
                if not want or ins.argval in want:
                    prev = ins
            elif ins.opname in ("STORE_SUBSCR", "DELETE_SUBSCR"):
                prev = ins
        if pts:
            out[c] = frozenset(pts)
    _STORE_PTS[key] = (mod, out)
    return out


# ------------------------------------------------------------------------------------------ threads
class SThread:
    __slots__ = ("idx", "name", "kind", "fn", "args", "kwargs", "state", "baton", "os_thread", "tid", "error",
                 "blocked_on", "timed", "wake_result", "prio", "created_step", "armed_step", "start_step", "end_step",
                 "timer", "creator", "tag", "start_seq", "end_seq", "nheld")

    def __init__(self, idx, name, kind, fn, args, kwargs):
        self.idx = idx
        self.name = name
        self.kind = kind
        self.fn = fn
        self.args = args
        self.kwargs = kwargs
        self.state = PENDING
        self.baton = _alloc()
        self.baton.acquire()
        self.os_thread = None
        self.tid = None
        self.error = None
        self.blocked_on = None
        self.timed = False
        self.wake_result = True
        self.prio = 0.0
        self.created_step = 0
        self.armed_step = 0
        self.start_step = None
        self.end_step = None
        self.timer = None
        self.creator = None
        self.tag = None
        self.start_seq = None
        self.end_seq = None
        self.nheld = 0

    def __repr__(self):
        return f"<SThread {self.idx}:{self.name} {STATE_NAME[self.state]}>"


# ------------------------------------------------------------------------------------------ locks
class SimLock:
    """Scheduler-aware threading.Lock."""
    _reentrant = False

    def __init__(self, sched: "Scheduler"):
        self._s = sched
        self._owner = None          # SThread | "main" | None
        self._count = 0
        self._waiters: list = []
        sched.n_locks += 1
        self.serial = sched.n_locks
        self.name = f"lock#{self.serial}"

    def acquire(self, blocking=True, timeout=-1):
        s = self._s
        me = s.current()
        if s.aborting:
            return True
        if me is None:                      # harness thread outside the run: never contended
            if self._owner is None or (self._reentrant and self._owner == "main"):
                self._owner = "main"
                self._count += 1
                return True
            raise HarnessError("harness thread would block on a lock held by " + repr(self._owner))
        if self._reentrant and self._owner is me:
            self._count += 1
            return True
        s._sync_point(me, "before acquire of ", self)
        first = True
        while self._owner is not None:
            if not blocking:
                return False
            if first:
                s.lock_contended += 1
                first = False
            ok = s._block(me, self, timed=(timeout is not None and timeout >= 0))
            if not ok:
                return False
        self._owner = me
        self._count = 1
        me.nheld += 1
        return True

    __enter__ = acquire

    def release(self):
        s = self._s
        if s.aborting:
            self._owner = None
            self._count = 0
            return
        if self._owner is None:
            raise RuntimeError("release unlocked lock")
        if self._reentrant:
            me = s.current() or "main"
            if self._owner is not me and self._owner != me:
                raise RuntimeError("cannot release un-acquired lock")
            self._count -= 1
            if self._count > 0:
                return
        if isinstance(self._owner, SThread):
            self._owner.nheld -= 1
        self._owner = None
        self._count = 0
        if self._waiters:
            for w in self._waiters:
                if w.state == BLOCKED:
                    w.state = RUNNABLE
                    w.blocked_on = None
                    w.wake_result = True
            self._waiters = []
            s._dirty = True
        me = s.current()
        if me is not None:
            s._sync_point(me, "after release of ", self)

    def __exit__(self, *a):
        self.release()
        return False

    def locked(self):
        return self._owner is not None

    def _is_owned(self):
        me = self._s.current() or "main"
        return self._owner is me or self._owner == me


class SimRLock(SimLock):
    _reentrant = True


# ------------------------------------------------------------------------------------------ timers
class SimTimer:
    """Drop-in for threading.Timer: an armed timer is one more simulated thread."""
    _s: "Scheduler" = None  # type: ignore

    def __init__(self, interval, function, args=None, kwargs=None):
        self.interval = interval
        self.function = function
        self.args = args if args is not None else []
        self.kwargs = kwargs if kwargs is not None else {}
        self.daemon = True
        self.name = "SimTimer"
        self.thread: SThread | None = None
        self.cancelled = False
        self.cancel_step = None
        self.cancel_by = None
        self.started = False
        s = self._s
        s.n_timers += 1
        self.serial = s.n_timers
        self.created_step = s.steps
        cur = s.current()
        self.creator = cur.idx if cur is not None else -1
        self.creator_tag = cur.tag if cur is not None else s.main_tag
        self.created_seq = s.note("timer-new", self.serial, getattr(function, "__name__", "timer"))
        self.armed_seq = None
        self.cancel_seq = None
        s.timers.append(self)

    def start(self):
        if self.started:
            raise RuntimeError("threads can only be started once")
        self.started = True
        s = self._s
        if s.aborting or self.cancelled:
            return
        fname = getattr(self.function, "__name__", "timer")
        t = s._new_thread(f"timer{self.serial}:{fname}", "timer", self.function, tuple(self.args), dict(self.kwargs))
        t.timer = self
        t.armed_step = s.steps
        t.creator = self.creator
        self.thread = t
        self.armed_seq = s.note("timer-arm", self.serial, t.idx)
        s._dirty = True

    def cancel(self):
        s = self._s
        if self.cancel_step is None:
            self.cancel_step = s.steps
            cur = s.current()
            self.cancel_by = cur.idx if cur is not None else -1
            self.cancel_seq = s.note("timer-cancel", self.serial)
        self.cancelled = True
        t = self.thread
        if t is not None and t.state == PENDING:
            t.state = CANCELLED
            s.timers_cancelled_before_start += 1
        elif t is not None and t.state in (RUNNABLE, BLOCKED):
            s.timers_cancelled_while_running += 1

    def is_alive(self):
        t = self.thread
        return self.started and t is not None and t.state in (PENDING, RUNNABLE, BLOCKED)

    def join(self, timeout=None):
        return None


class InertThread:
    """Stands in for threading.Thread where the code under test starts a service loop that the plan drives
    explicitly instead (LDM maintenance / attendance passes are issued by plan threads)."""

    def __init__(self, group=None, target=None, name=None, args=(), kwargs=None, *, daemon=None):
        self.target = target
        self.daemon = daemon
        self.name = name or "InertThread"
        self.started = False

    def start(self):
        self.started = True

    def is_alive(self):
        return False

    def join(self, timeout=None):
        return None


class FlagEvent:
    def __init__(self):
        self._f = False

    def is_set(self):
        return self._f

    isSet = is_set

    def set(self):
        self._f = True

    def clear(self):
        self._f = False

    def wait(self, timeout=None):
        if not self._f:
            raise HarnessError("Event.wait() would block in the pre-emptive engine")
        return True


class ThreadingFacade:
    """Stands in for the `threading` module inside patched modules."""

    def __init__(self, sched: "Scheduler"):
        self.Lock = sched.Lock
        self.RLock = sched.RLock
        self.Timer = sched.Timer
        self.Thread = InertThread
        self.Event = FlagEvent
        self.current_thread = threading.current_thread
        self.get_ident = threading.get_ident
        self.main_thread = threading.main_thread


class TimeFacade:
    """Stands in for the `time` module inside patched modules."""

    def __init__(self, sched: "Scheduler"):
        self._s = sched

    def time(self):
        return self._s.time()

    def monotonic(self):
        return self._s.monotonic()

    perf_counter = monotonic

    def sleep(self, s):
        raise HarnessError("time.sleep() would block in the pre-emptive engine")


# ------------------------------------------------------------------------------------------ strategies
def draw_strategy(r: random.Random) -> dict:
    """Swarm: one schedule strategy per run (DESIGN 2.5 a/b/c).  `at: sync` places the PCT change points / the
    single forced pre-emption on lock acquire / release events instead of on instruction counts, `sync_p` adds
    pre-emptions at those events to the uniform random strategy (races live at critical-section boundaries)."""
    c = r.random()
    if c < 0.35:
        s = {"strategy": "random", "p": r.choice([0.005, 0.02, 0.02, 0.10]), "sync_p": r.choice([0, 0, 0.1, 0.3])}
    elif c < 0.72:
        s = {"strategy": "pct", "d": r.choice([1, 2, 2, 3]), "at": r.choice(["step", "sync", "sync"])}
    else:
        s = {"strategy": "one", "at": r.choice(["step", "sync", "sync"])}
    s["u"] = [round(r.random(), 6) for _ in range(4)]     # positions of change points / the forced pre-emption (fractions)
    s["timer_hold"] = r.choice([0, 0, 0, 40, 400])
    s["tick_us"] = r.choice([0, 0, 37, 1000])
    return s


def sync_only_variant(run_seed: int, sched: dict, share: float = 0.22, focus_names=()) -> dict:
    """A share of the runs (own PRNG stream) switches threads ONLY at synchronisation events (lock acquire / release, timer
    arm / expiry): critical-section-boundary interleavings - the ones that matter when a lock scope is too small - are few, so
    a plain coin per boundary reaches combinations of two or three targeted switches that instruction-level coins practically
    never produce."""
    r = random.Random(run_seed ^ 0x5C0DE5)
    if r.random() >= share:
        return sched
    s = dict(sched)
    s.update({"strategy": "random", "p": 0.0, "sync_p": r.choice([0.15, 0.2, 0.35, 0.5]), "sync_only": True})
    if focus_names and r.random() < 0.6:
        # all coins are thrown at the boundaries of ONE lock (substring of its name): two threads parked right before / after the
        # critical sections of the same lock is the shape of most atomicity bugs
        s["focus_lock"] = r.choice(list(focus_names))
        s["sync_p"] = r.choice([0.35, 0.5, 0.5])
    s.pop("d", None)
    s.pop("at", None)
    return s


def store_variant(run_seed: int, sched: dict, share: float = 0.12, names=()) -> dict:
    """A share of the runs (own PRNG stream) uses the race-directed strategy "store": a coin is thrown right after every write to
    shared state (STORE_ATTR to one of `names`, dictionary item stores / deletes) instead of at every instruction; windows of one
    or two instructions between two stores (clear-then-set) or between a store and the matching read are hit with probability
    p_store instead of ~p.  A small uniform background rate and the sync-point coins stay on.  Replay needs nothing new: the switch
    list records the step of every pre-emption."""
    r = random.Random(run_seed ^ 0x5707E5)
    if r.random() >= share or sched.get("sync_only"):
        return sched
    s = dict(sched)
    s.update({"strategy": "store", "p_store": r.choice([0.15, 0.3, 0.3, 0.6]), "p": r.choice([0.0, 0.002, 0.01]),
              "sync_p": r.choice([0, 0, 0.1]), "store_names": sorted(names)})
    s.pop("d", None)
    s.pop("at", None)
    return s


class Scheduler:
    def __init__(self, modules, sched: dict, seed: int, step_cap: int = DEFAULT_STEP_CAP, n_est: int | None = None,
                 t0_us: int = 1_767_225_600_000_000, n_sync_est: int | None = None):
        self.modules = list(modules)
        self.cfg = dict(sched)
        self.seed = seed
        self._rng = random.Random(seed)
        self.step_cap = step_cap
        self.n_est = n_est
        self.t0_us = t0_us
        self.now_us = t0_us
        self.tick_us = int(self.cfg.get("tick_us", 0))
        self.threads: list[SThread] = []
        self.timers: list[SimTimer] = []
        self.n_locks = 0
        self.n_timers = 0
        self.steps = 0
        self.switches: list = []            # (step, to_idx)
        self.switch_log: list = []          # (step, from_idx, to_idx, reason, where)
        self.log: list = []                 # (seq, step, thread idx, kind, data)
        self.errors: list = []              # (thread name, exception)
        self.deadlock = None
        self.cap_hit = False
        self.aborting = False
        self.lock_contended = 0
        self.timers_cancelled_before_start = 0
        self.timers_cancelled_while_running = 0
        self.preemptions = 0
        self.preempt_free = 0
        self.preempt_held = 0
        self.preempt_sync = 0
        self.main_tag = None
        self._cur: SThread | None = None
        self._dirty = True
        self._main_baton = _alloc()
        self._main_baton.acquire()
        self._running = False
        self._installed = False
        self._mode = self.cfg.get("strategy", "random")
        self._p = float(self.cfg.get("p", 0.02))
        self._hold = int(self.cfg.get("timer_hold", 0))
        self._points: dict = {}
        self._one_at = None
        self._one_pending = False
        self._explicit = [(x[0], x[1], x[2] if len(x) > 2 else "preempt", x[3] if len(x) > 3 else 0) for x in self.cfg.get("switches", [])]
        self._xi = 0
        self.sync_events = 0
        self._sync_p = float(self.cfg.get("sync_p", 0))
        self._focus_lock = self.cfg.get("focus_lock")
        # "phases": [k1, k2, ...] - deterministic hand-offs between actor threads: the running actor is parked at its k1-th
        # synchronisation event, the next one at its k2-th, ... then everything runs to completion (two targeted switches cost one
        # draw of (k1, k2) instead of two lucky coins among all events)
        self._phases = list(self.cfg["phases"]) if self.cfg.get("phases") else None
        self._phase_i = 0
        self._phase_count = 0
        self._p_store = float(self.cfg.get("p_store", 0))
        self._store_pts: dict = {}
        self.preempt_store = 0
        if self._mode == "store":
            for m in self.modules:
                self._store_pts.update(store_points(m, self.cfg.get("store_names", ())))
        self._sync_points: dict = {}
        self._one_sync_at = None
        self.n_sync_est = None
        sched_self = self

        class _Timer(SimTimer):
            _s = sched_self
        self.Timer = _Timer
        self.Lock = lambda: SimLock(sched_self)
        self.RLock = lambda: SimRLock(sched_self)
        u = list(self.cfg.get("u", [0.5, 0.25, 0.75, 0.1]))
        n = max(1, int(n_est or 1))
        self.n_sync_est = n_sync_est
        at_sync = self.cfg.get("at") == "sync" and n_sync_est
        if at_sync:
            n = max(1, int(n_sync_est))
        if self._mode == "pct":
            d = int(self.cfg.get("d", 2))
            pts = self._sync_points if at_sync else self._points
            for i in range(d):
                k = 1 + int(u[i % len(u)] * n)
                while k in pts:
                    k += 1
                pts[k] = float(d - i)      # later change points give lower priorities
        elif self._mode == "one":
            if at_sync:
                self._one_sync_at = 1 + int(u[0] * n)
            else:
                self._one_at = 1 + int(u[0] * n)

    # ------------------------------------------------------------------ clock
    def time(self) -> float:
        return self.now_us / 1_000_000.0

    def monotonic(self) -> float:
        return (self.now_us - self.t0_us) / 1_000_000.0 + 1000.0

    def advance(self, dt_us: int) -> None:
        self.now_us += int(dt_us)

    # ------------------------------------------------------------------ bookkeeping
    def current(self) -> SThread | None:
        cur = self._cur
        if cur is not None and cur.tid == _get_ident():
            return cur
        return None

    def note(self, kind: str, *data) -> int:
        cur = self.current()
        self.log.append((len(self.log), self.steps, cur.idx if cur is not None else -1, kind, data))
        return len(self.log) - 1

    def _new_thread(self, name, kind, fn, args, kwargs) -> SThread:
        t = SThread(len(self.threads), name, kind, fn, args, kwargs)
        t.created_step = self.steps
        if self._mode == "pct":
            d = float(self.cfg.get("d", 2))
            t.prio = d + 1.0 + self._rng.random()
        self.threads.append(t)
        return t

    def spawn(self, name, fn, *args, **kwargs) -> SThread:
        """Create an actor thread (before run())."""
        if self._running:
            raise HarnessError("spawn() during run()")
        return self._new_thread(name, "actor", fn, args, kwargs)

    # ------------------------------------------------------------------ instrumentation
    def _install(self):
        if MON.get_tool(TOOL_ID) is not None:
            # a previous run in this process died before cleaning up
            try:
                MON.register_callback(TOOL_ID, MON.events.INSTRUCTION, None)
                MON.free_tool_id(TOOL_ID)
            except Exception:            # noqa: BLE001
                pass
        MON.use_tool_id(TOOL_ID, TOOL_NAME)
        self._installed = True
        MON.register_callback(TOOL_ID, MON.events.INSTRUCTION, self._on_instr)
        for m in self.modules:
            for c in code_objects(m):
                MON.set_local_events(TOOL_ID, c, MON.events.INSTRUCTION)

    def _uninstall(self):
        if not self._installed:
            return
        self._installed = False
        try:
            for m in self.modules:
                for c in code_objects(m):
                    MON.set_local_events(TOOL_ID, c, 0)
        finally:
            MON.register_callback(TOOL_ID, MON.events.INSTRUCTION, None)
            MON.free_tool_id(TOOL_ID)

    # ------------------------------------------------------------------ the pre-emption point
    def _on_instr(self, code, offset):
        cur = self._cur
        if cur is None or cur.tid != _get_ident():
            return None
        if self.aborting:
            return None
        s = self.steps + 1
        self.steps = s
        if s > self.step_cap:
            self.cap_hit = True
            self.aborting = True
            self._cur = None
            raise SchedAbort()
        mode = self._mode
        if mode == "random":
            if self._rng.random() < self._p:
                cand = self._eligible(cur)
                if cand:
                    self.preemptions += 1
                    self._switch(cur, cand[int(self._rng.random() * len(cand))], "preempt", code, offset)
        elif mode == "store":
            pts = self._store_pts.get(code)
            if pts is not None and offset in pts:
                if self._rng.random() < self._p_store:
                    cand = self._eligible(cur)
                    if cand:
                        self.preemptions += 1
                        self.preempt_store += 1
                        self._switch(cur, cand[int(self._rng.random() * len(cand))], "preempt", code, offset)
            elif self._p and self._rng.random() < self._p:
                cand = self._eligible(cur)
                if cand:
                    self.preemptions += 1
                    self._switch(cur, cand[int(self._rng.random() * len(cand))], "preempt", code, offset)
        elif mode == "pct":
            pr = self._points.get(s)
            if pr is not None:
                cur.prio = pr
                self._dirty = True
            if self._dirty:
                self._dirty = False
                top = cur
                for t in self.threads:
                    if (t.state == RUNNABLE or t.state == PENDING) and t.prio > top.prio:
                        top = t
                if top is not cur:
                    self.preemptions += 1
                    self._switch(cur, top, "preempt", code, offset)
        elif mode == "one":
            if s == self._one_at:
                self._one_pending = True
            if self._one_pending:
                cand = self._eligible(cur)
                if cand:
                    self._one_pending = False
                    self._one_at = None
                    self.preemptions += 1
                    self._switch(cur, cand[int(self._rng.random() * len(cand))], "preempt", code, offset)
        elif mode == "explicit":
            e = self._x_next(s)
            if e is not None and e[0] == s and e[2] == "preempt" and e[3] == 0:
                self._xi += 1
                if e[1] < len(self.threads):
                    t = self.threads[e[1]]
                    if t is not cur and t.state in (RUNNABLE, PENDING):
                        self.preemptions += 1
                        self._switch(cur, t, "preempt", code, offset)
        return None

    def _sync_point(self, me: SThread, what: str, lock) -> None:
        """A lock acquire / release by a simulated thread: an additional, targeted pre-emption point."""
        if self.aborting or self._cur is not me:
            return
        n = self.sync_events + 1
        self.sync_events = n
        mode = self._mode
        to = None
        if mode == "random" and self._phases is not None:
            if me.kind == "actor" and self._phase_i < len(self._phases) and \
                    (self._focus_lock is None or (self._focus_lock in lock.name and what.startswith("after"))):
                self._phase_count += 1
                if self._phase_count >= self._phases[self._phase_i]:
                    cand = [t for t in self._eligible(me) if t.kind == "actor"]
                    if cand:
                        self._phase_i += 1
                        self._phase_count = 0
                        to = cand[int(self._rng.random() * len(cand))]
        elif mode == "random" or mode == "store":
            if self._sync_p and (self._focus_lock is None or self._focus_lock in lock.name) and self._rng.random() < self._sync_p:
                cand = self._eligible(me)
                if cand:
                    to = cand[int(self._rng.random() * len(cand))]
        elif mode == "pct":
            pr = self._sync_points.get(n)
            if pr is not None:
                me.prio = pr
                top = me
                for t in self.threads:
                    if (t.state == RUNNABLE or t.state == PENDING) and t.prio > top.prio:
                        top = t
                if top is not me:
                    to = top
        elif mode == "one":
            if self._one_sync_at is not None and n >= self._one_sync_at:
                cand = self._eligible(me)
                if cand:
                    self._one_sync_at = None
                    to = cand[int(self._rng.random() * len(cand))]
        elif mode == "explicit":
            e = self._x_next(self.steps)
            if e is not None and e[2] == "preempt" and e[3] == n:
                self._xi += 1
                if e[1] < len(self.threads):
                    t = self.threads[e[1]]
                    if t is not me and t.state in (RUNNABLE, PENDING):
                        to = t
        if to is not None:
            self.preemptions += 1
            if me.nheld > 0:
                self.preempt_held += 1
            else:
                self.preempt_free += 1
            self.preempt_sync += 1
            self._handoff(me, to, "preempt", what + lock.name, n)
            me.baton.acquire()
            if self.aborting:
                raise SchedAbort()

    def _x_next(self, step: int):
        """Explicit mode: the next recorded switch that is not yet overtaken by the execution."""
        ex = self._explicit
        i = self._xi
        while i < len(ex) and (ex[i][0] < step or (ex[i][3] and ex[i][3] < self.sync_events)):
            i += 1
        self._xi = i
        return ex[i] if i < len(ex) else None

    def _eligible(self, exclude) -> list:
        hold = self._hold
        s = self.steps
        out = []
        for t in self.threads:
            if t is exclude:
                continue
            if t.state == RUNNABLE or (t.state == PENDING and (hold == 0 or t.kind != "timer" or s >= t.armed_step + hold)):
                out.append(t)
        return out

    def _pick_forced(self, exclude) -> SThread | None:
        """The running thread blocks or ends: who runs next?"""
        cand = [t for t in self.threads if t is not exclude and t.state in (RUNNABLE, PENDING)]
        if not cand:
            # a timed acquire times out rather than deadlocking
            timed = [t for t in self.threads if t is not exclude and t.state == BLOCKED and t.timed]
            if timed:
                t = timed[0]
                t.state = RUNNABLE
                t.wake_result = False
                if t.blocked_on is not None and t in t.blocked_on._waiters:
                    t.blocked_on._waiters.remove(t)
                t.blocked_on = None
                return t
            return None
        mode = self._mode
        if mode == "pct":
            top = cand[0]
            for t in cand[1:]:
                if t.prio > top.prio:
                    top = t
            return top
        if mode == "serial":
            return cand[0]
        if mode == "explicit":
            e = self._x_next(self.steps)
            if e is not None and e[0] == self.steps and e[2] != "preempt":
                self._xi += 1
                for t in cand:
                    if t.idx == e[1]:
                        return t
            return cand[0]
        return cand[int(self._rng.random() * len(cand))]

    def _start_os_thread(self, t: SThread):
        t.os_thread = _RealThread(target=self._boot, args=(t,), daemon=True, name=f"fsim-sched-{t.idx}")
        t.os_thread.start()

    def _handoff(self, frm, to: SThread, reason: str, where: str, sync_n: int = 0):
        self.switches.append((self.steps, to.idx))
        self.switch_log.append((self.steps, frm.idx if frm is not None else -1, to.idx, reason, where, sync_n))
        self.now_us += self.tick_us
        if to.state == PENDING:
            to.state = RUNNABLE
            self._start_os_thread(to)
        self._cur = to
        to.baton.release()

    def _switch(self, cur: SThread, to: SThread, reason: str, code=None, offset=0):
        where = f"{code.co_qualname}:{line_of(code, offset)}" if code is not None else reason
        if reason == "preempt":
            if cur.nheld > 0:
                self.preempt_held += 1
            else:
                self.preempt_free += 1
        self._handoff(cur, to, reason, where)
        cur.baton.acquire()
        if self.aborting:
            raise SchedAbort()

    def _block(self, me: SThread, lock: SimLock, timed: bool) -> bool:
        me.state = BLOCKED
        me.blocked_on = lock
        me.timed = timed
        me.wake_result = True
        lock._waiters.append(me)
        nxt = self._pick_forced(me)
        if nxt is None:
            self._declare_deadlock()
            raise SchedAbort()
        self._switch(me, nxt, "block")
        me.timed = False
        return me.wake_result

    def _declare_deadlock(self):
        rows = []
        for t in self.threads:
            if t.state == BLOCKED:
                lk = t.blocked_on
                o = lk._owner if lk is not None else None
                rows.append({"thread": t.idx, "name": t.name, "tag": t.tag, "lock": lk.name if lk is not None else "?",
                             "owner": o.idx if isinstance(o, SThread) else None,
                             "owner_name": o.name if isinstance(o, SThread) else str(o),
                             "owner_state": STATE_NAME[o.state] if isinstance(o, SThread) else "-"})
        self.deadlock = rows
        self.aborting = True
        self._cur = None

    def deadlock_key(self) -> str:
        """Names of the locks on the wait-for cycle (or the lock left held by a finished thread)."""
        rows = self.deadlock or []
        by_thread = {r["thread"]: r for r in rows}
        for r in rows:
            if r["owner"] is None or r["owner"] not in by_thread:
                return f"{r['lock']} never released (held by {r['owner_state']} thread)"
        # every blocked thread waits for a blocked thread: follow the chain from the first one until it repeats
        seen, cur = [], rows[0]["thread"] if rows else None
        while cur is not None and cur not in seen:
            seen.append(cur)
            cur = by_thread[cur]["owner"]
        cyc = seen[seen.index(cur):] if cur in seen else seen
        return "‖".join(sorted({by_thread[t]["lock"] for t in cyc}))

    def deadlock_text(self) -> str:
        return "; ".join(f"{r['name']} waits for {r['lock']} held by {r['owner_name']}" for r in (self.deadlock or []))

    # ------------------------------------------------------------------ thread body
    def _boot(self, t: SThread):
        t.baton.acquire()
        t.tid = _get_ident()
        try:
            if not self.aborting:
                t.start_step = self.steps
                t.start_seq = self.note("thread-start", t.idx)
                t.fn(*t.args, **t.kwargs)
        except SchedAbort:
            pass
        except BaseException as e:          # noqa: BLE001 - recorded, judged by the property module
            t.error = e
            self.errors.append((t.name, e))
        finally:
            t.state = DONE
            t.end_step = self.steps
            if t.start_seq is not None and not self.aborting:
                t.end_seq = self.note("thread-end", t.idx)
            self._finished(t)

    def _finished(self, t: SThread):
        if self.aborting:
            self._cur = None
            self._main_baton.release()
            return
        self._dirty = True
        nxt = self._pick_forced(t)
        if nxt is not None:
            self._handoff(t, nxt, "end", "end")
            return
        if any(x.state == BLOCKED for x in self.threads):
            self._declare_deadlock()
        self._cur = None
        self._main_baton.release()

    # ------------------------------------------------------------------ run
    def run(self) -> None:
        """Run all spawned threads (and the timers they arm) to quiescence, deadlock or the step cap."""
        if self._running:
            raise HarnessError("Scheduler.run() re-entered")
        self._running = True
        started = False
        _pin_once()
        try:
            self._install()
            first = self._pick_first()
            if first is not None:
                started = True
                self._handoff(None, first, "start", "start")
                self._main_baton.acquire()
        finally:
            try:
                if started:
                    self._unwind()
            finally:
                self._cur = None
                self._uninstall()
                self._running = False

    def _pick_first(self) -> SThread | None:
        cand = [t for t in self.threads if t.state in (RUNNABLE, PENDING)]
        if not cand:
            return None
        if self._mode == "pct":
            top = cand[0]
            for t in cand[1:]:
                if t.prio > top.prio:
                    top = t
            return top
        if self._mode in ("serial",):
            return cand[0]
        if self._mode == "explicit":
            ex = self._explicit
            if ex and ex[0][2] == "start":
                self._xi = 1
                for t in cand:
                    if t.idx == ex[0][1]:
                        return t
            return cand[0]
        return cand[int(self._rng.random() * len(cand))]

    def _unwind(self):
        """After the run: wake every parked thread with SchedAbort, join all OS threads."""
        if not self.aborting:
            # normal end: every thread is DONE or CANCELLED
            for t in self.threads:
                if t.state == PENDING:
                    t.state = CANCELLED
        else:
            for t in self.threads:
                if t.state == PENDING:
                    t.state = CANCELLED
            for t in self.threads:
                if t.os_thread is not None and t.state in (RUNNABLE, BLOCKED):
                    t.baton.release()
                    self._main_baton.acquire()
        for t in self.threads:
            if t.os_thread is not None:
                t.os_thread.join(timeout=10)
                if t.os_thread.is_alive():
                    raise HarnessError(f"simulated thread {t.name} did not unwind")

    # ------------------------------------------------------------------ results
    def schedule_hash(self) -> str:
        h = hashlib.sha256()
        for st, to in self.switches:
            h.update(b"%d:%d," % (st, to))
        return h.hexdigest()[:16]

    def thread_name(self, idx: int) -> str:
        return "main" if idx < 0 else self.threads[idx].name

    def schedule(self) -> list:
        """[[step, thread index, reason], ...] - replayable with strategy "explicit"."""
        return [[st, to, reason, sn] for (st, _frm, to, reason, _where, sn) in self.switch_log]

    def describe_switches(self, limit: int = 200) -> list:
        out = []
        for (st, frm, to, reason, where, _sn) in self.switch_log[:limit]:
            out.append(f"step {st}: {self.thread_name(frm)} -> {self.thread_name(to)} ({reason} at {where})")
        if len(self.switch_log) > limit:
            out.append(f"... {len(self.switch_log) - limit} more switches")
        return out


# ------------------------------------------------------------------------------------------ schedule minimisation
def shrink_schedule(plan: dict, execute, budget: int = 60):
    """SHRINKERS entry for `sched` plans: re-express the schedule taken as an explicit switch list and remove
    pre-emptions (ddmin) while every violation signature of the plan keeps firing.  Yields at most one candidate."""
    try:
        res = execute(plan)
    except Exception:                      # noqa: BLE001
        return
    want = {(v["rule"], v["key"]) for v in res["violations"]}
    if not want or "schedule" not in res:
        return
    sched = res["schedule"]

    def mk(switches):
        cand = dict(plan)
        cand["sched"] = {"strategy": "explicit", "switches": switches, "tick_us": plan["sched"].get("tick_us", 0), "timer_hold": 0,
                         "from": plan["sched"].get("strategy")}
        return cand

    def fires(switches):
        nonlocal budget
        budget -= 1
        try:
            r = execute(mk(switches))
        except Exception:                  # noqa: BLE001
            return False
        return want <= {(v["rule"], v["key"]) for v in r["violations"]}

    if not fires(sched):
        return
    cur = list(sched)
    n = 2
    while budget > 0:
        idx = [i for i, x in enumerate(cur) if x[2] == "preempt"]
        if not idx:
            break
        chunk = max(1, len(idx) // n)
        removed = False
        i = 0
        while i < len(idx) and budget > 0:
            drop = set(idx[i:i + chunk])
            cand = [x for j, x in enumerate(cur) if j not in drop]
            if fires(cand):
                cur = cand
                removed = True
                idx = [k for k, x in enumerate(cur) if x[2] == "preempt"]
            else:
                i += chunk
        if not removed:
            if chunk == 1:
                break
            n = min(len(idx), n * 2)
        else:
            n = max(2, n - 1)
    yield mk(cur)
