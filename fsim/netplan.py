"""Shared plan-generation helpers for the `net` engine (positions, stations, MIB swarm, payloads)."""
from __future__ import annotations

import random

from . import refcodec as rc

HEMIS = ["NE", "NE", "SW", "SE", "NW", "EQ", "PM"]  # EQ: straddling the equator, PM: straddling the prime meridian


def base_point(r: random.Random, hemi: str) -> tuple[int, int]:
    lat = r.uniform(1.0, 70.0)
    lon = r.uniform(1.0, 170.0)
    if hemi in ("SW", "SE"):
        lat = -lat
    if hemi in ("SW", "NW"):
        lon = -lon
    if hemi == "EQ":
        lat = r.uniform(-0.0005, 0.0005)
        lon = r.choice([-1, 1]) * lon
    if hemi == "PM":
        lon = r.uniform(-0.0005, 0.0005)
        lat = r.choice([-1, 1]) * lat
    return int(lat * 1e7), int(lon * 1e7)


def hemi_class(*coords) -> str:
    """'NE' if every coordinate is non-negative else 'SW*' (some coordinate negative)."""
    return "NE" if all(c >= 0 for c in coords) else "neg"


def rand_mac(r: random.Random) -> str:
    b = bytearray(r.getrandbits(8) for _ in range(6))
    b[0] = (b[0] & 0xFE) | 0x02
    return bytes(b).hex()


def unique_macs(r: random.Random, n: int) -> list[str]:
    out: list[str] = []
    while len(out) < n:
        m = rand_mac(r)
        if m not in out:
            out.append(m)
    return out


def rand_payload(r: random.Random, tag: int, max_len: int = 1400) -> str:
    """Payload with boundary-biased length; when >= 4 bytes it starts with a unique tag."""
    c = r.random()
    if c < 0.08:
        n = 0
    elif c < 0.2:
        n = r.randint(1, 3)
    elif c < 0.8 or max_len <= 65:
        n = r.randint(4, min(64, max_len))
    elif c < 0.93:
        n = r.randint(65, max_len)
    else:
        n = r.choice([max_len, max_len - 1, 255, 256, 257, 1023, 1024])
        n = min(n, max_len)
    if n >= 4:
        body = tag.to_bytes(4, "big") + bytes(r.getrandbits(8) for _ in range(n - 4))
    else:
        body = bytes(r.getrandbits(8) for _ in range(n))
    return body.hex()


def rand_ports(r: random.Random) -> list[int]:
    base = set()
    for _ in range(r.randint(1, 4)):
        c = r.random()
        if c < 0.3:
            p = r.choice([2001, 2002, 2018, 0, 1, 65535, 65534, 255, 256])
        else:
            p = r.randrange(0, 65536)
        base.add(p)
    return sorted(base)


def neighbours_of_ports(ports: list[int]) -> list[int]:
    out = set()
    for p in ports:
        for q in (p - 1, p + 1, p ^ 0x100, ((p << 8) | (p >> 8)) & 0xFFFF):
            if 0 <= q <= 65535 and q not in ports:
                out.add(q)
    return sorted(out)


def rand_tc(r: random.Random, allow_scf: bool = True) -> int:
    tc = r.randrange(0, 64)
    if r.random() < 0.3:
        tc |= 0x40
    if allow_scf and r.random() < 0.15:
        tc |= 0x80
    return tc


def rand_lifetime(r: random.Random):
    """Requested max packet lifetime in seconds (float) or None; boundary biased (C20 workload)."""
    c = r.random()
    if c < 0.25:
        return None
    if c < 0.45:
        v = r.choice(rc.REPRESENTABLE_LT) + r.choice([-2, -1, 0, 1, 2])
        return max(0, v) / 1000.0
    if c < 0.6:
        return r.randint(0, 7_000_000) / 1000.0
    if c < 0.8:
        return int(10 ** r.uniform(0, 6.85)) / 1000.0
    if c < 0.9:
        return float(r.randint(0, 700))
    return r.choice([0.049, 0.05, 0.051, 0.099, 0.1, 0.499, 0.5, 0.999, 1.0, 600.0, 600.001, 630.0, 1000.0, 6300.0])


def rand_hop_limit(r: random.Random) -> int:
    c = r.random()
    if c < 0.4:
        return r.choice([0, 1, 2, 3, 5, 10])
    if c < 0.6:
        return r.choice([254, 255, 128, 127])
    return r.randint(0, 255)


def rand_mib(r: random.Random, *, beacon=True, dpl=(1, 2, 8, 16)) -> dict:
    mib: dict = {}
    if r.random() < 0.7:
        mib["itsGnAreaForwardingAlgorithm"] = r.choice(["SIMPLE", "CBF", "UNSPECIFIED"])
    if r.random() < 0.5:
        mib["itsGnDPLLength"] = r.choice(dpl)
    if r.random() < 0.5:
        mib["itsGnDefaultHopLimit"] = r.choice([1, 2, 5, 10])
    if r.random() < 0.5:
        mib["itsGnLifetimeLocTE"] = r.choice([2, 5, 20])
    mib["itsGnLocationServiceRetransmitTimer"], mib["itsGnLocationServiceMaxRetrans"] = r.choice(
        [(100, 0), (100, 1), (100, 3), (100, 10), (1000, 0), (1000, 1), (1000, 2), (2000, 1), (300, 3)])
    if r.random() < 0.3:
        mib["itsGnCbfMinTime"], mib["itsGnCbfMaxTime"] = r.choice([(1, 100), (10, 50)])
    if r.random() < 0.3:
        mib["itsGnIsMobile"] = r.choice(["STATIONARY", "MOBILE"])
    if r.random() < 0.3:
        mib["itsGnDefaultPacketLifetime"] = r.choice([1, 5, 60, 63, 100, 600, 630])
    if beacon and r.random() < 0.4:
        mib["itsGnBeaconServiceRetransmitTimer"] = r.choice([300, 3000])
    return mib


def circle_area(lat: int, lon: int, radius: int) -> dict:
    return {"shape": 0, "lat": lat, "lon": lon, "a": radius, "b": radius, "angle": 0}
