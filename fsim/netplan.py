"""Shared plan-generation helpers for the `net` engine (positions, stations, MIB swarm, payloads)."""
from __future__ import annotations

import random

from . import refcodec as rc

HEMIS = ["NE", "NE", "SW", "SE", "NW", "EQ", "PM"]  # EQ: straddling the equator, PM: straddling the prime meridian


def base_point(r: random.Random, hemi: str) -> tuple[int, int]:
    lat = r.uniform(1.0, 70.0)
    lon = r.uniform(1.0, 170.0)
    if hemi in ("SW", "SE"):
        lat = -lat
    if hemi in ("SW", "NW"):
        lon = -lon
    if hemi == "EQ":
        lat = r.uniform(-0.0005, 0.0005)
        lon = r.choice([-1, 1]) * lon
    if hemi == "PM":
        lon = r.uniform(-0.0005, 0.0005)
        lat = r.choice([-1, 1]) * lat
    return int(lat * 1e7), int(lon * 1e7)


def hemi_class(*coords) -> str:
    """'NE' if every coordinate is non-negative else 'SW*' (some coordinate negative)."""
    return "NE" if all(c >= 0 for c in coords) else "neg"


def rand_mac(r: random.Random) -> str:
    b = bytearray(r.getrandbits(8) for _ in range(6))
    b[0] = (b[0] & 0xFE) | 0x02
    return bytes(b).hex()


def unique_macs(r: random.Random, n: int) -> list[str]:
    out: list[str] = []
    while len(out) < n:
        m = rand_mac(r)
        if m not in out:
            out.append(m)
    return out


def rand_payload(r: random.Random, tag: int, max_len: int = 1400) -> str:
    """Payload with boundary-biased length; when >= 4 bytes it starts with a unique tag."""
    c = r.random()
    if c < 0.08:
        n = 0
    elif c < 0.2:
        n = r.randint(1, 3)
    elif c < 0.8 or max_len <= 65:
        n = r.randint(4, min(64, max_len))
    elif c < 0.93:
        n = r.randint(65, max_len)
    else:
        n = r.choice([max_len, max_len - 1, 255, 256, 257, 1023, 1024])
        n = min(n, max_len)
    if n >= 4:
        body = tag.to_bytes(4, "big") + bytes(r.getrandbits(8) for _ in range(n - 4))
    else:
        body = bytes(r.getrandbits(8) for _ in range(n))
    return body.hex()


def rand_ports(r: random.Random) -> list[int]:
    base = set()
    for _ in range(r.randint(1, 4)):
        c = r.random()
        if c < 0.3:
            p = r.choice([2001, 2002, 2018, 0, 1, 65535, 65534, 255, 256])
        else:
            p = r.randrange(0, 65536)
        base.add(p)
    return sorted(base)


def neighbours_of_ports(ports: list[int]) -> list[int]:
    out = set()
    for p in ports:
        for q in (p - 1, p + 1, p ^ 0x100, ((p << 8) | (p >> 8)) & 0xFFFF):
            if 0 <= q <= 65535 and q not in ports:
                out.add(q)
    return sorted(out)


def rand_tc(r: random.Random, allow_scf: bool = True) -> int:
    tc = r.randrange(0, 64)
    if r.random() < 0.3:
        tc |= 0x40
    if allow_scf and r.random() < 0.15:
        tc |= 0x80
    return tc


def rand_lifetime(r: random.Random):
    """Requested max packet lifetime in seconds (float) or None; boundary biased (C20 workload)."""
    c = r.random()
    if c < 0.25:
        return None
    if c < 0.45:
        v = r.choice(rc.REPRESENTABLE_LT) + r.choice([-2, -1, 0, 1, 2])
        return max(0, v) / 1000.0
    if c < 0.6:
        return r.randint(0, 7_000_000) / 1000.0
    if c < 0.8:
        return int(10 ** r.uniform(0, 6.85)) / 1000.0
    if c < 0.9:
        return float(r.randint(0, 700))
    return r.choice([0.049, 0.05, 0.051, 0.099, 0.1, 0.499, 0.5, 0.999, 1.0, 600.0, 600.001, 630.0, 1000.0, 6300.0])


def rand_hop_limit(r: random.Random) -> int:
    c = r.random()
    if c < 0.4:
        return r.choice([0, 1, 2, 3, 5, 10])
    if c < 0.6:
        return r.choice([254, 255, 128, 127])
    return r.randint(0, 255)


def rand_mib(r: random.Random, *, beacon=True, dpl=(1, 2, 8, 16)) -> dict:
    mib: dict = {}
    if r.random() < 0.7:
        mib["itsGnAreaForwardingAlgorithm"] = r.choice(["SIMPLE", "CBF", "UNSPECIFIED"])
    if r.random() < 0.5:
        mib["itsGnDPLLength"] = r.choice(dpl)
    if r.random() < 0.5:
        mib["itsGnDefaultHopLimit"] = r.choice([1, 2, 5, 10])
    if r.random() < 0.5:
        mib["itsGnLifetimeLocTE"] = r.choice([2, 5, 20])
    mib["itsGnLocationServiceRetransmitTimer"], mib["itsGnLocationServiceMaxRetrans"] = r.choice(
        [(100, 0), (100, 1), (100, 3), (100, 10), (1000, 0), (1000, 1), (1000, 2), (2000, 1), (300, 3)])
    if r.random() < 0.3:
        mib["itsGnCbfMinTime"], mib["itsGnCbfMaxTime"] = r.choice([(1, 100), (10, 50)])
    if r.random() < 0.3:
        mib["itsGnIsMobile"] = r.choice(["STATIONARY", "MOBILE"])
    if r.random() < 0.3:
        mib["itsGnDefaultPacketLifetime"] = r.choice([1, 5, 60, 63, 100, 600, 630])
    if beacon and r.random() < 0.4:
        mib["itsGnBeaconServiceRetransmitTimer"] = r.choice([300, 3000])
    return mib


def circle_area(lat: int, lon: int, radius: int) -> dict:
    return {"shape": 0, "lat": lat, "lon": lon, "a": radius, "b": radius, "angle": 0}


# --------------------------------------------------------------------------- reference-peer packets
PKT_TYPES = ["BEACON", "SHB", "TSB", "GBC", "GAC", "GUC", "LSREQ", "LSREP"]
_HT = {"BEACON": (1, 0), "SHB": (5, 0), "TSB": (5, 1), "GBC": (4, None), "GAC": (3, None), "GUC": (2, 0), "LSREQ": (6, 0), "LSREP": (6, 1)}


def biased(r: random.Random, lo: int, hi: int) -> int:
    c = r.random()
    if c < 0.3:
        return r.choice([lo, hi, lo + 1, hi - 1, 0 if lo <= 0 <= hi else lo, (lo + hi) // 2])
    if c < 0.4 and lo < 0:
        return r.choice([-1, 1])
    return r.randint(lo, hi)


def rand_addr(r: random.Random, mac: str, st_max: int = 11) -> str:
    return rc.enc_addr(r.randint(0, 1) if r.random() < 0.3 else 0, r.randint(0, st_max), bytes.fromhex(mac)).hex()


def rand_lpv(r: random.Random, addr_hex: str, *, pos=None, tst_off=None, full_range=True) -> dict:
    if pos is None:
        lat, lon = biased(r, -900_000_000, 900_000_000), biased(r, -1_800_000_000, 1_800_000_000)
    else:
        lat, lon = pos
    return {"addr": addr_hex, "tst_off_ms": tst_off if tst_off is not None else -r.randint(0, 1500),
            "lat": lat, "lon": lon, "pai": r.randint(0, 1),
            "speed": biased(r, -16384, 16383) if full_range else r.randint(0, 5000),
            "heading": biased(r, 0, 3601) if r.random() < 0.9 else r.randint(0, 65535)}


def rand_pkt(r: random.Random, typ: str, src_mac: str, *, so=None, dest_addr=None, dest_pv=None, area=None,
             rhl=None, mhl=None, sn=None, lt=None, payload=None, dport=None, nh=None) -> dict:
    ht, hst = _HT[typ]
    if hst is None:
        hst = r.randint(0, 2)
    if mhl is None:
        mhl = 1 if typ in ("BEACON", "SHB") else biased(r, 1, 255)
    if rhl is None:
        rhl = 1 if typ in ("BEACON", "SHB") else (mhl if r.random() < 0.5 else r.randint(0, mhl))
    if lt is None:
        lt = r.randint(0, 255)
    if nh is None:
        nh = 0 if typ in ("BEACON", "LSREQ", "LSREP") else r.choice([1, 2])
    if payload is None:
        if typ in ("BEACON", "LSREQ", "LSREP"):
            payload = ""
        else:
            n = r.choice([0, 1, 8, 40, r.randint(0, 300)])
            body = bytes(r.getrandbits(8) for _ in range(n))
            payload = (rc.enc_btp(dport if dport is not None else r.randrange(65536), r.randrange(65536)) + body).hex()
    pkt = {"basic": {"nh": 1, "lt": lt, "rhl": rhl},
           "common": {"nh": nh, "ht": ht, "hst": hst, "tc": r.randrange(256) if typ not in ("BEACON",) else 0,
                      "flags": r.choice([0, 128]), "mhl": mhl},
           "so": so if so is not None else rand_lpv(r, rand_addr(r, src_mac)),
           "payload": payload}
    if typ not in ("BEACON", "SHB"):
        pkt["sn"] = sn if sn is not None else biased(r, 0, 65535)
    if typ in ("GBC", "GAC"):
        pkt["area"] = area if area is not None else {
            "lat": biased(r, -900_000_000, 900_000_000), "lon": biased(r, -1_800_000_000, 1_800_000_000),
            "a": biased(r, 1, 65535), "b": biased(r, 1, 65535), "angle": biased(r, 0, 359)}
    if typ in ("GUC", "LSREP"):
        if dest_pv is not None:
            pkt["de"] = dest_pv
        else:
            pkt["de"] = {"addr": dest_addr if dest_addr is not None else rand_addr(r, rand_mac(r)),
                         "tst_off_ms": -r.randint(0, 3000), "lat": biased(r, -900_000_000, 900_000_000),
                         "lon": biased(r, -1_800_000_000, 1_800_000_000)}
    if typ == "LSREQ":
        pkt["req_addr"] = dest_addr if dest_addr is not None else rand_addr(r, rand_mac(r))
    return pkt
