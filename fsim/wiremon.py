"""Ether monitors for wire-format conformance (C02), lifetime / hop budget (C20) and
forwarding equality / hop-limit rules (C06).  All expectations come from refcodec."""
from __future__ import annotations

import math
from fractions import Fraction

from . import refcodec as rc
from .netsim import Monitor

TYPE_HT = {"shb": (rc.HT_TSB, rc.HST_SHB), "gbc": (rc.HT_GBC, None), "gac": (rc.HT_GAC, None), "guc": (rc.HT_GUC, 0)}


def root_cause(cause):
    while cause and cause[0] == "timer":
        cause = cause[1]
    return cause


def lt_interval(ms) -> str:
    if ms is None:
        return "default"
    if ms < 50:
        return "[0,50)"
    if ms < 500:
        return "[50,500)"
    if ms < 1000:
        return "[500,1000)"
    if ms <= 63000:
        return "[1000,63000]"
    if ms < 1_000_000:
        return "(63000,1000000)"
    if ms <= 6_300_000:
        return "[1000000,6300000]"
    return ">6300000"


def requested_ms(op_lt, mib) -> tuple:
    """(requested milliseconds as exact integer floor, interval key)"""
    if op_lt is None:
        ms = mib.itsGnDefaultPacketLifetime * 1000
        return ms, "default:" + lt_interval(ms)
    ms = math.floor(float(op_lt) * 1000 + 1e-6)   # a request of 2.65 s means 2650 ms (binary float noise is not judged)
    return ms, lt_interval(ms)


def ego_fields(pv) -> dict:
    a = pv.gn_addr
    return {"addr": rc.enc_addr(a.m.value, a.st.value, a.mid.mid), "tst": pv.tst.msec, "lat": pv.latitude,
            "lon": pv.longitude, "pai": int(bool(pv.pai)), "speed": pv.s, "heading": pv.h}


def speed_class(s: int) -> str:
    if s < 0:
        return "negative"
    if s >= (1 << 15):
        return ">=2^15"
    if s >= (1 << 14):
        return ">=2^14"
    return "in-range"


class WireMonitor(Monitor):
    """Checks every frame handed to LinkLayer.send()."""

    def __init__(self, props=("C02", "C20", "C06")):
        self.props = set(props)
        self.last_sn: dict[int, int] = {}
        self.reqs_since: dict[int, int] = {}
        self.reqs_total: dict[int, int] = {}
        self.seen_pv: dict[tuple, set] = {}     # (station, mid) -> {(tst, lat, lon)}
        self.rx_frames: dict[tuple, list] = {}  # (station, gen, type, mid, sn) -> [rx rec]
        self.fwd_count: dict[tuple, int] = {}
        self.pending_guc: dict[int, list] = {}  # station -> [op rec] GUC requests buffered for LS

    def v(self, sim, prop, rule, key, detail):
        if prop in self.props:
            sim.violate(prop, rule, key, detail)

    # -- bookkeeping from receptions
    def before_rx(self, sim, rec):
        p = rec.get("parsed")
        if p is None and "malformed" not in rec:
            try:
                p = rc.parse_packet(rec["frame"])
                rec["parsed"] = p
                rec["ptype"] = rc.ptype(p) if "secured" not in p else "SECURED"
            except rc.Malformed as e:
                rec["malformed"] = e.klass
                return
        if p is None or "secured" in p:
            return
        st = sim.stations[rec["st"]]
        so = p["so"]
        self.seen_pv.setdefault((st.idx, so["addr"]["mid"]), set()).add((so["tst"], so["lat"], so["lon"]))
        if "sn" in p:
            lst = self.rx_frames.setdefault((st.idx, st.gen, rec["ptype"], so["addr"]["mid"], p["sn"]), [])
            if len(lst) < 24:
                lst.append(rec)

    def after_op(self, sim, rec):
        op = rec["op"]
        if op["op"] == "req" and not rec["skipped"]:
            self.reqs_since[op["st"]] = self.reqs_since.get(op["st"], 0) + 1
            self.reqs_total[op["st"]] = self.reqs_total.get(op["st"], 0) + 1
            if op["type"] == "guc" and rec["exc"] is None:
                self.pending_guc.setdefault(op["st"], []).append(rec)

    # -- every transmission
    def on_tx(self, sim, rec):
        st = sim.stations[rec["st"]]
        frame = rec["frame"]
        try:
            p = rc.parse_packet(frame)
        except rc.Malformed as e:
            if e.klass != "rhl>mhl":
                self.v(sim, "C02", "frame-differs", f"unparsable/{e.klass}", f"station {st.idx} emitted a frame the reference parser rejects: {e}")
                return
            p = rc.parse_common_on(frame[4:])
            p["basic"] = {"version": frame[0] >> 4, "nh": frame[0] & 0xF, "reserved": frame[1], "lt": frame[2], "rhl": frame[3]}
            self.v(sim, "C02", "frame-differs", f"{rc.ptype(p)}/rhl>mhl", f"station {st.idx} emitted a {rc.ptype(p)} with RHL {frame[3]} > MHL {p['common']['mhl']}")
        rec["parsed"] = p
        if "secured" in p:
            rec["ptype"] = "SECURED"
            sim.probe("tx:SECURED")
            return
        typ = rc.ptype(p)
        rec["ptype"] = typ
        sim.probe("tx:" + typ)
        cause = root_cause(rec["cause"])
        own = p["so"]["addr"]["mid"] == st.mac
        if own and cause and cause[0] == "rx":
            trig = sim.hist.rx[cause[1]]
            tp = trig.get("parsed")
            if tp and "secured" not in tp and tp["so"]["addr"]["mid"] == st.mac:
                self.v(sim, "C06", "forwarded-own", f"{typ}/{sim.cfg.get('fwd_alg', '?')}",
                       f"station {st.idx} re-transmitted a {typ} bearing its own source address")
                return
        if own:
            self.check_originated(sim, st, rec, p, typ, cause)
        else:
            self.check_forwarded(sim, st, rec, p, typ, cause)

    # ------------------------------------------------------------------ originated packets
    def check_originated(self, sim, st, rec, p, typ, cause):
        mib = st.mib
        ego = ego_fields(st.ego())
        exp_lt_ms = None
        lt_key = "default"
        op = None
        if typ == "BEACON":
            exp = {"basic": {"nh": 1, "lt": p["basic"]["lt"], "rhl": 1},
                   "common": {"nh": 0, "ht": rc.HT_BEACON, "hst": 0, "tc": 0, "flags": mib.itsGnIsMobile.value << 7, "mhl": 1},
                   "so": ego}
            req_ms, lt_key = requested_ms(None, mib)
        elif typ in ("LSREQ", "LSREP"):
            exp = {"basic": {"nh": 1, "lt": p["basic"]["lt"], "rhl": mib.itsGnDefaultHopLimit},
                   "common": {"nh": 0, "ht": rc.HT_LS, "hst": 0 if typ == "LSREQ" else 1, "tc": 0,
                              "flags": mib.itsGnIsMobile.value << 7, "mhl": mib.itsGnDefaultHopLimit},
                   "so": ego, "sn": p["sn"]}
            if typ == "LSREQ":
                exp["req_addr"] = p["req_addr"]
                if p["req_addr"][2:] == st.mac:
                    self.v(sim, "C02", "frame-differs", "LSREQ/req_addr/own", "LS request for the station's own address")
            else:
                trig = sim.hist.rx[cause[1]].get("parsed") if cause and cause[0] == "rx" else None
                if trig is None or rc.ptype(trig) != "LSREQ":
                    self.v(sim, "C02", "frame-differs", "LSREP/unsolicited", f"station {st.idx} sent an LS reply not caused by an LS request")
                    return
                so = trig["so"]
                exp["de"] = {"addr": p["de"]["addr_raw"], "tst": p["de"]["tst"], "lat": p["de"]["lat"], "lon": p["de"]["lon"]}
                if p["de"]["addr"]["mid"] != so["addr"]["mid"]:
                    self.v(sim, "C02", "frame-differs", "LSREP/de.addr", "LS reply addressed to somebody else than the requester")
                elif (p["de"]["tst"], p["de"]["lat"], p["de"]["lon"]) not in self.seen_pv.get((st.idx, so["addr"]["mid"]), set()):
                    self.v(sim, "C02", "frame-differs", "LSREP/de_pv", "LS reply DE PV is not a position vector received from the requester")
            req_ms, lt_key = requested_ms(None, mib)
            self.check_sn(sim, st, p, typ)
        else:
            op_rec = None
            if cause and cause[0] == "op":
                cand = sim.hist.ops[cause[1]] if cause[1] < len(sim.hist.ops) else None
                if cand and cand["op"]["op"] == "req":
                    op_rec = cand
            body = p["payload"]

            def body_of(o):
                oo = o["op"]
                return rc.enc_btp(oo["dport"], oo.get("sport", 0) if oo["btp"] == "a" else oo.get("dpinfo", 0)) + bytes.fromhex(oo["payload"])
            if op_rec is not None and (body_of(op_rec) != body or op_rec.get("wire_seen")):
                op_rec = None
            if op_rec is None:
                # GUC flushed from the LS buffer (cause = reception of the LS reply)
                cands = [o for o in self.pending_guc.get(st.idx, []) if not o.get("wire_seen") and body_of(o) == body]
                variants = {(o["op"].get("lt"), o["op"].get("hl"), o["op"].get("tc"), str(o["op"].get("dest"))) for o in cands}
                if len(variants) > 1:
                    sim.probe("ambiguous-request-skipped")
                    cands[0]["wire_seen"] = True
                    return
                if cands:
                    op_rec = cands[0]
            if op_rec is None:
                self.v(sim, "C02", "frame-differs", f"{typ}/unrequested", f"station {st.idx} originated a {typ} that no request explains")
                return
            op_rec["wire_seen"] = True
            op = op_rec["op"]
            if TYPE_HT[op["type"]][0] != p["common"]["ht"]:
                self.v(sim, "C02", "frame-differs", f"{typ}/common.ht", f"request type {op['type']} emitted as {typ}")
                return
            hl = op.get("hl", 1)
            rhl = 1 if op["type"] == "shb" else (hl if hl > 1 else mib.itsGnDefaultHopLimit)
            hst = 0 if op["type"] in ("shb", "guc") else op["area"]["shape"]
            exp = {"basic": {"nh": 1, "lt": p["basic"]["lt"], "rhl": rhl},
                   "common": {"nh": 1 if op["btp"] == "a" else 2, "ht": p["common"]["ht"], "hst": hst, "tc": op.get("tc", 0),
                              "flags": mib.itsGnIsMobile.value << 7, "mhl": rhl},
                   "so": ego,
                   "payload": rc.enc_btp(op["dport"], op.get("sport", 0) if op["btp"] == "a" else op.get("dpinfo", 0))
                   + bytes.fromhex(op["payload"])}
            if op["type"] in ("gbc", "gac"):
                a = op["area"]
                exp["area"] = {"lat": a["lat"], "lon": a["lon"], "a": a["a"], "b": a["b"], "angle": a["angle"]}
            if op["type"] != "shb":
                exp["sn"] = p["sn"]
                self.check_sn(sim, st, p, typ)
            if op["type"] == "guc":
                de = p["de"]
                dest_mac = sim.stations[op["dest"]].mac if isinstance(op["dest"], int) else bytes.fromhex(op["dest"]["mac"])
                exp["de"] = {"addr": de["addr_raw"], "tst": de["tst"], "lat": de["lat"], "lon": de["lon"]}
                if de["addr"]["mid"] != dest_mac:
                    self.v(sim, "C02", "frame-differs", "GUC/de.addr", f"GUC of op {op_rec['idx']} addressed to {de['addr']['mid'].hex()} instead of {dest_mac.hex()}")
                elif (de["tst"], de["lat"], de["lon"]) not in self.seen_pv.get((st.idx, dest_mac), set()):
                    self.v(sim, "C02", "frame-differs", "GUC/de_pv", f"GUC of op {op_rec['idx']}: DE PV is not a position vector received from the destination")
            req_ms, lt_key = requested_ms(op.get("lt"), mib)
            # C20 hop budget
            if op["type"] == "shb":
                if p["basic"]["rhl"] != 1 or p["common"]["mhl"] != 1:
                    self.v(sim, "C20", "rhl-shb", "shb", f"SHB with RHL/MHL {p['basic']['rhl']}/{p['common']['mhl']}")
            elif p["basic"]["rhl"] != rhl or p["common"]["mhl"] != rhl:
                self.v(sim, "C20", "rhl-multihop", f"{op['type']}/requested={'>1' if hl > 1 else '<=1'}",
                       f"{typ} with RHL/MHL {p['basic']['rhl']}/{p['common']['mhl']}, expected {rhl} (requested {hl}, default {mib.itsGnDefaultHopLimit})")
        if typ == "BEACON" and (p["basic"]["rhl"] != 1):
            self.v(sim, "C20", "rhl-shb", "beacon", f"beacon with RHL {p['basic']['rhl']}")
        # speed: 15-bit signed beside PAI; values outside the field's range give no verdict on the field itself
        s = ego["speed"]
        if not (-(1 << 14) <= s < (1 << 14)):
            sim.probe("ego-speed-out-of-field-range")
            exp["so"] = dict(ego, speed=p["so"]["speed_raw"])
        want = rc.build_packet(exp)
        if want != rec["frame"]:
            field = rc.describe_diff(rec["frame"], want)
            cls = ""
            if field.endswith("speed") or field.endswith("pai"):
                cls = "/" + speed_class(s)
            if field.endswith("lat") or field.endswith("lon"):
                cls = "/negative" if min(ego["lat"], ego["lon"]) < 0 else "/non-negative"
            self.v(sim, "C02", "frame-differs", f"{typ}/{field}{cls}",
                   f"station {st.idx} {typ}: emitted {rec['frame'][:60].hex()} expected {want[:60].hex()} (first differing field {field})")
        # C20 lifetime of originated packets
        got_ms = rc.lt_ms(p["basic"]["lt"])
        sim.probe("lt-code-emitted:%d" % p["basic"]["lt"])
        tkey = typ.lower() + "/" + lt_key
        if got_ms > req_ms:
            self.v(sim, "C20", "lt-exceeds-request", tkey, f"{typ}: lifetime on the wire {got_ms} ms > requested {req_ms} ms")
        elif got_ms != rc.lt_floor_ms(req_ms):
            if got_ms == 0 and req_ms >= 50:
                self.v(sim, "C20", "lt-zero", tkey, f"{typ}: lifetime 0 on the wire although {req_ms} ms were requested")
            else:
                self.v(sim, "C20", "lt-not-largest", tkey, f"{typ}: lifetime on the wire {got_ms} ms, largest representable <= {req_ms} ms is {rc.lt_floor_ms(req_ms)} ms")

    def check_sn(self, sim, st, p, typ):
        sn = p["sn"]
        last = self.last_sn.get((st.idx, st.gen))
        if last is not None:
            k = (sn - last) % 65535
            # a request may consume a sequence number without emitting (SCF without neighbour, send error, LS buffer flush):
            # the number must advance, by no more than the station could have consumed so far
            if k == 0 or k > self.reqs_total.get(st.idx, 0) + 4:
                self.v(sim, "C02", "frame-differs", f"{typ}/sn", f"station {st.idx}: sequence number {sn} after {last}")
            if sn < last:
                sim.probe("sn-wrapped")
        if sn >= 65535:
            self.v(sim, "C02", "frame-differs", f"{typ}/sn/range", f"sequence number {sn}")
        self.last_sn[(st.idx, st.gen)] = sn
        self.reqs_since[st.idx] = 0

    # ------------------------------------------------------------------ forwarded packets
    def check_forwarded(self, sim, st, rec, p, typ, cause):
        alg = st.mib.itsGnAreaForwardingAlgorithm.name
        if "sn" not in p:
            self.v(sim, "C06", "forward-differs", f"{typ}/no-sn", f"station {st.idx} re-transmitted a {typ} of another station")
            return
        key = (st.idx, st.gen, typ, p["so"]["addr"]["mid"], p["sn"])
        got = self.rx_frames.get(key, [])
        if cause and cause[0] == "rx" and cause[1] < len(sim.hist.rx):
            trig = sim.hist.rx[cause[1]]
            tp = trig.get("parsed")
            if trig["st"] == st.idx and tp and "secured" not in tp and tp.get("sn") == p["sn"] and \
                    tp["so"]["addr"]["mid"] == p["so"]["addr"]["mid"] and trig.get("ptype") == typ:
                got = [trig]      # the reception that triggered this transmission
        if not got:
            self.v(sim, "C06", "forward-differs", f"{typ}/never-received", f"station {st.idx} forwarded {typ} sn={p['sn']} it never received")
            return
        frame = rec["frame"]
        ok = False
        exhausted = True
        why = "?"
        for r in got:
            rf = r["frame"]
            rp = r["parsed"]
            rrhl = rp["basic"]["rhl"]
            if rrhl >= 2:
                exhausted = False
            cand = bytes([rf[0], rf[1], rf[2], (rrhl - 1) & 0xFF]) + rf[4:]
            if cand == frame:
                ok = rrhl >= 2
                if not ok:
                    why = f"received RHL {rrhl}"
                break
            if typ in ("GUC", "LSREP") and len(cand) == len(frame):
                # DE PV may be refreshed by a strictly newer PV of the destination known to the forwarder
                off = 4 + 8 + 4 + 24
                if cand[:off + 8] == frame[:off + 8] and cand[off + 20:] == frame[off + 20:]:
                    nde = p["de"]
                    if rc.tst_newer(nde["tst"], rp["de"]["tst"]) and \
                            (nde["tst"], nde["lat"], nde["lon"]) in self.seen_pv.get((st.idx, nde["addr"]["mid"]), set()):
                        ok = rrhl >= 2
                        sim.probe("de-pv-refreshed")
                        break
                    why = "de_pv"
        if ok:
            sim.probe("forwarded:" + typ)
            return
        if exhausted or why.startswith("received RHL"):
            rr = sorted({r["parsed"]["basic"]["rhl"] for r in got})
            self.v(sim, "C06", "forwarded-exhausted-rhl", f"{typ}/rhl={rr[0]}/{alg}",
                   f"station {st.idx} forwarded {typ} sn={p['sn']} received with RHL {rr} as RHL {p['basic']['rhl']}")
            return
        field = rc.describe_diff(frame, bytes([got[0]["frame"][0], got[0]["frame"][1], got[0]["frame"][2],
                                               (got[0]["parsed"]["basic"]["rhl"] - 1) & 0xFF]) + got[0]["frame"][4:])
        self.v(sim, "C06", "forward-differs", f"{typ}/{field}/{alg}", f"station {st.idx}: forwarded copy of {typ} sn={p['sn']} differs from the received packet in {field}")
        self.v(sim, "C02", "forwarded-frame-differs", f"{typ}/{field}", f"station {st.idx}: forwarded copy of {typ} sn={p['sn']} differs in {field}")


class DecodeMonitor(Monitor):
    """Decoder side of C02 / receiver side of C20: on every delivered frame compare what the repo's
    decode class methods return with the reference parse of the same bytes; after processing compare the
    indication and check the RHL > MHL rule."""

    def __init__(self, props=("C02", "C20")):
        self.props = set(props)

    def v(self, sim, prop, rule, key, detail):
        if prop in self.props:
            sim.violate(prop, rule, key, detail)

    def before_rx(self, sim, rec):
        st = sim.stations[rec["st"]]
        rec["gnind_before"] = len(sim.hist.gnind)
        rec["tx_before"] = len(sim.hist.tx)
        frame = rec["frame"]
        p = rec.get("parsed")
        if p is None and "malformed" not in rec:
            try:
                p = rc.parse_packet(frame)
                rec["parsed"] = p
            except rc.Malformed as e:
                rec["malformed"] = e.klass
        if rec.get("malformed") == "rhl>mhl":
            from flexstack.geonet.gn_address import GNAddress, MID, M, ST
            try:
                inner = rc.parse_common_on(frame[4:])
                a = inner["so"]["addr"]
                if a["st"] <= 12:
                    ga = GNAddress(m=M(a["m"]), st=ST(a["st"]), mid=MID(a["mid"]))
                    rec["rhl_gt_mhl_known_before"] = st.gn.location_table.get_entry(ga) is not None
                    rec["rhl_gt_mhl_mid"] = ga
            except rc.Malformed:
                pass
        if p is None or "secured" in p:
            return
        self.compare_decoders(sim, rec, p)

    def compare_decoders(self, sim, rec, p):
        from flexstack.geonet.basic_header import BasicHeader
        from flexstack.geonet.common_header import CommonHeader
        from flexstack.geonet.position_vector import LongPositionVector, ShortPositionVector
        from flexstack.geonet.gbc_extended_header import GBCExtendedHeader
        from flexstack.geonet.tsb_extended_header import TSBExtendedHeader
        from flexstack.geonet.guc_extended_header import GUCExtendedHeader
        from flexstack.geonet.ls_extended_header import LSRequestExtendedHeader, LSReplyExtendedHeader
        from flexstack.btp.btp_header import BTPAHeader, BTPBHeader
        frame = rec["frame"]
        typ = rc.ptype(p)
        diffs = []

        def cmp(path, got, want):
            if got != want:
                diffs.append((path, got, want))
        try:
            bh = BasicHeader.decode_from_bytes(frame[0:4])
            cmp("basic.version", bh.version, p["basic"]["version"])
            cmp("basic.nh", bh.nh.value, p["basic"]["nh"])
            cmp("basic.reserved", bh.reserved, p["basic"]["reserved"])
            cmp("basic.rhl", bh.rhl, p["basic"]["rhl"])
            code = p["basic"]["lt"]
            sim.probe("lt-code-decoded:%d" % code)
            if bh.lt.get_value_in_millis() != rc.lt_ms(code):
                self.v(sim, "C20", "lt-decode", f"code-base={code & 3}", f"LT code {code} decoded as {bh.lt.get_value_in_millis()} ms, encodes {rc.lt_ms(code)} ms")
            ch = CommonHeader.decode_from_bytes(frame[4:12])
            c = p["common"]
            cmp("common.nh", ch.nh.value, c["nh"])
            cmp("common.ht", ch.ht.value, c["ht"])
            cmp("common.hst", ch.hst.value, c["hst"])
            cmp("common.tc", ch.tc.encode_to_int(), c["tc"])
            if c["flags"] in (0, 128):     # only what a conformant encoder puts on the wire is judged
                cmp("common.flags", ch.flags, c["flags"])
            cmp("common.pl", ch.pl, c["pl"])
            cmp("common.mhl", ch.mhl, c["mhl"])
            ext = frame[12:]

            def cmp_lpv(pre, pv, want):
                cmp(pre + ".addr.m", pv.gn_addr.m.value, want["addr"]["m"])
                cmp(pre + ".addr.st", pv.gn_addr.st.value, want["addr"]["st"])
                cmp(pre + ".addr.mid", pv.gn_addr.mid.mid, want["addr"]["mid"])
                cmp(pre + ".tst", pv.tst.msec, want["tst"])
                cmp(pre + ".lat", pv.latitude, want["lat"])
                cmp(pre + ".lon", pv.longitude, want["lon"])
                if hasattr(pv, "s"):
                    cmp(pre + ".pai", int(bool(pv.pai)), want["pai"])
                    cmp(pre + ".speed", pv.s, want["speed"])
                    cmp(pre + ".heading", pv.h, want["heading"])
            if typ in ("BEACON", "SHB"):
                cmp_lpv("so", LongPositionVector.decode(ext[0:24]), p["so"])
            elif typ == "TSB":
                h = TSBExtendedHeader.decode(ext[0:28])
                cmp("sn", h.sn, p["sn"])
                cmp_lpv("so", h.so_pv, p["so"])
            elif typ in ("GBC", "GAC"):
                h = GBCExtendedHeader.decode(ext[0:44])
                cmp("sn", h.sn, p["sn"])
                cmp_lpv("so", h.so_pv, p["so"])
                a = p["area"]
                cmp("area.lat", h.latitude, a["lat"])
                cmp("area.lon", h.longitude, a["lon"])
                cmp("area.a", h.a, a["a"])
                cmp("area.b", h.b, a["b"])
                cmp("area.angle", h.angle, a["angle"])
            elif typ == "GUC":
                h = GUCExtendedHeader.decode(ext[0:48])
                cmp("sn", h.sn, p["sn"])
                cmp_lpv("so", h.so_pv, p["so"])
                cmp_lpv("de", h.de_pv, p["de"])
            elif typ == "LSREQ":
                h = LSRequestExtendedHeader.decode(ext[0:36])
                cmp("sn", h.sn, p["sn"])
                cmp_lpv("so", h.so_pv, p["so"])
                cmp("req_addr.mid", h.request_gn_addr.mid.mid, p["req_addr"][2:])
            elif typ == "LSREP":
                h = LSReplyExtendedHeader.decode(ext[0:48])
                cmp("sn", h.sn, p["sn"])
                cmp_lpv("so", h.so_pv, p["so"])
                cmp_lpv("de", h.de_pv, p["de"])
            if c["nh"] in (1, 2) and len(p["payload"]) >= 4:
                p1, p2 = int.from_bytes(p["payload"][0:2], "big"), int.from_bytes(p["payload"][2:4], "big")
                if c["nh"] == 1:
                    b = BTPAHeader.decode(p["payload"][0:4])
                    cmp("btp.destination_port", b.destination_port, p1)
                    cmp("btp.source_port", b.source_port, p2)
                else:
                    b = BTPBHeader.decode(p["payload"][0:4])
                    cmp("btp.destination_port", b.destination_port, p1)
                    cmp("btp.port_info", b.destination_port_info, p2)
        except Exception as e:
            self.v(sim, "C02", "decode-differs", f"{typ}/decoder-raised/{type(e).__name__}",
                   f"decoding a conformant {typ} raised {e!r}")
            return
        sim.probe("decoded:" + typ)
        for path, got, want in diffs[:3]:
            cls = ""
            if isinstance(want, int) and want < 0:
                cls = "/negative"
            self.v(sim, "C02", "decode-differs", f"{typ}/{path}{cls}", f"{typ} field {path}: decoder returned {got!r}, wire value is {want!r}")

    def after_rx(self, sim, rec):
        st = sim.stations[rec["st"]]
        new_inds = sim.hist.gnind[rec.get("gnind_before", len(sim.hist.gnind)):]
        if rec.get("malformed") == "rhl>mhl":
            sim.probe("rhl>mhl-received")
            new_tx = [t for t in sim.hist.tx[rec.get("tx_before", 0):] if t["st"] == st.idx and root_cause(t["cause"]) == ("rx", rec["i"])]
            bad = []
            if new_inds:
                bad.append("indication")
            if new_tx:
                bad.append("forward")
            if rec.get("rhl_gt_mhl_mid") is not None and not rec.get("rhl_gt_mhl_known_before"):
                if st.gn.location_table.get_entry(rec["rhl_gt_mhl_mid"]) is not None:
                    bad.append("table-update")
            if bad:
                self.v(sim, "C20", "rhl-gt-mhl-accepted", "+".join(bad), f"station {st.idx}: packet with RHL > MHL caused {bad}")
            return
        p = rec.get("parsed")
        if p is None or "secured" in p:
            return
        for e in new_inds:
            ind = e["ind"]
            enc_ms = rc.lt_ms(p["basic"]["lt"])
            rem = ind.remaining_packet_lifetime
            if rem is not None and rem * 1000 > enc_ms + 1e-6:
                self.v(sim, "C20", "remaining-lt-exceeds", rc.ptype(p).lower(), f"remaining lifetime {rem} s reported for a packet whose lifetime field encodes {enc_ms} ms")
            if ind.remaining_hop_limit is not None and ind.remaining_hop_limit > p["basic"]["rhl"]:
                self.v(sim, "C20", "remaining-lt-exceeds", "rhl/" + rc.ptype(p).lower(), f"remaining hop limit {ind.remaining_hop_limit} > received {p['basic']['rhl']}")
            # decoder side of C02 at the SAP
            so = p["so"]
            pv = ind.source_position_vector
            got = (pv.gn_addr.mid.mid, pv.tst.msec, pv.latitude, pv.longitude, int(bool(getattr(pv, "pai", 0))), getattr(pv, "s", 0), getattr(pv, "h", 0))
            want = (so["addr"]["mid"], so["tst"], so["lat"], so["lon"], so["pai"], so["speed"], so["heading"])
            if got != want:
                names = ["addr", "tst", "lat", "lon", "pai", "speed", "heading"]
                f = next(names[i] for i in range(7) if got[i] != want[i])
                self.v(sim, "C02", "decode-differs", f"{rc.ptype(p)}/indication.so.{f}", f"indication source PV {got[1:]} != wire {want[1:]}")
            if ind.traffic_class.encode_to_int() != p["common"]["tc"]:
                self.v(sim, "C02", "decode-differs", f"{rc.ptype(p)}/indication.tc", f"indication TC {ind.traffic_class.encode_to_int()} != wire {p['common']['tc']}")
            if bytes(ind.data) != p["payload"]:
                self.v(sim, "C02", "decode-differs", f"{rc.ptype(p)}/indication.data", "indication payload differs from the wire payload")
