"""Deterministic security toolkit shared by the security checks (C03, C05, C09).

Four parts, none of which depends on netsim.py:

(a) SeededECDSABackend  - subclass of the repo's PythonECDSABackend whose key generation and signature nonces
                          come from a seeded SHA-256 stream (``ecdsa`` accepts ``entropy=`` callables).  ``sign``,
                          ``verify`` and ``verify_with_pk`` remain the repo's own code.
(b) make_pki(...)       - root -> authorization authority -> authorization tickets built through the repo's *issuing
                          API* (OwnCertificate.initialize_certificate); per-station (SignService, VerifyService).
(c) ChainVerifier, verify_signed_message, check_permissions - an INDEPENDENT verifier: raw ``ecdsa`` + the OER coder
                          (only for (de)serialisation).  Nothing here calls Certificate.verify / verify_with_pk.
(d) Forger + mutators   - attacker chains, re-signed / escalated / wrongly-issued / expired / edited certificates,
                          forged messages, byte and bit mutators.  Built with raw ``ecdsa`` + the OER coder.

Determinism: every key is a pure function of (seed, label); every signature nonce is a pure function of
(private key, data).  No wall clock, no os.urandom (see ``entropy_tripwire``), no ``random`` module state.

Conventions: certificate validity uses ITS seconds (TAI seconds since 2004-01-01, ``Time32``); message generation
time uses ITS microseconds (``Time64``).  ``its_s(unix_s)`` / ``its_us(unix_us)`` convert like the repo's TimeService
(ITS epoch 1072915200, +5 leap seconds).
"""
from __future__ import annotations

import copy
import functools
import hashlib
from dataclasses import dataclass, field
from typing import Any, Iterable, Optional, Sequence

import ecdsa
from ecdsa import NIST256p
from ecdsa.util import sigencode_string

ITS_EPOCH = 1072915200
LEAP_S = 5                                   # TAI-UTC since 2004 as used by flexstack.utils.time_service
DEFAULT_NOW_UNIX = 1_767_225_600             # 2026-01-01T00:00:00Z (the kernel's default t0)
DEFAULT_PSIDS = (36, 37, 638)
CRACA = b"\x00\x00\x00"
ORDER = NIST256p.order
EE_APP = (b"\x80", 8)                        # EndEntityType {app}
INF = 1 << 30

_YEAR_S = 31556952
_DUR_S = {"microseconds": 1e-6, "milliseconds": 1e-3, "seconds": 1, "minutes": 60, "hours": 3600,
          "sixtyHours": 216000, "years": _YEAR_S}


def its_s(unix_s: float) -> int:
    """Unix seconds -> ITS (TAI) seconds, the unit of ValidityPeriod.start."""
    return int(unix_s - ITS_EPOCH + LEAP_S)


def its_us(unix_us: int) -> int:
    """Unix microseconds -> ITS (TAI) microseconds, the unit of HeaderInfo.generationTime."""
    return int(unix_us) - ITS_EPOCH * 1_000_000 + LEAP_S * 1_000_000


# ------------------------------------------------------------------------------------------------ coder
_CODER = None


def coder():
    """The repo's compiled OER coder (asn1tools object), used for (de)serialisation only."""
    global _CODER
    if _CODER is None:
        from flexstack.security.certificate import SECURITY_CODER
        _CODER = SECURITY_CODER.asn_coder
    return _CODER


class Undecodable(ValueError):
    """Bytes that the OER coder does not accept as the expected type."""


def decode_cert(b: bytes) -> dict:
    try:
        return coder().decode("EtsiTs103097Certificate", bytes(b))
    except Exception as e:  # asn1tools raises several exception types
        raise Undecodable(f"certificate: {type(e).__name__}") from None


def encode_cert(d: dict) -> bytes:
    return coder().encode("EtsiTs103097Certificate", d)


def encode_tbs_cert(tbs: dict) -> bytes:
    return coder().encode("ToBeSignedCertificate", tbs)


def decode_data(b: bytes) -> dict:
    try:
        return coder().decode("EtsiTs103097Data", bytes(b))
    except Exception as e:
        raise Undecodable(f"data: {type(e).__name__}") from None


def encode_data(d: dict) -> bytes:
    return coder().encode("EtsiTs103097Data", d)


def encode_tbs_data(tbs: dict) -> bytes:
    return coder().encode("ToBeSignedData", tbs)


def as_cert(x) -> tuple[dict, bytes]:
    """Normalise bytes | dict | repo Certificate object | Forged | (dict, bytes) to (decoded dict, encoded bytes)."""
    if isinstance(x, tuple) and len(x) == 2 and isinstance(x[0], dict) and isinstance(x[1], bytes):
        return x
    if isinstance(x, (bytes, bytearray)):
        return decode_cert(bytes(x)), bytes(x)
    if isinstance(x, dict):
        try:
            return x, encode_cert(x)
        except Exception as e:          # a dict the lenient decoder produced from mutated bytes may not be re-encodable
            raise Undecodable(f"certificate not encodable: {type(e).__name__}") from None
    if isinstance(x, Forged):
        return decode_cert(x.cert), x.cert
    d = getattr(x, "certificate", None)
    if isinstance(d, dict):
        return as_cert(d)
    raise TypeError(f"not a certificate: {type(x).__name__}")


def hashed_id8(x) -> bytes:
    """HashedId8 = low-order 8 octets of SHA-256 over the encoded certificate."""
    if isinstance(x, (bytes, bytearray)):
        return hashlib.sha256(bytes(x)).digest()[-8:]
    return hashlib.sha256(as_cert(x)[1]).digest()[-8:]


# ------------------------------------------------------------------------------------------------ (a) seeded ECDSA
def _h(*parts) -> bytes:
    m = hashlib.sha256()
    for p in parts:
        if isinstance(p, (bytes, bytearray)):
            b = b"b" + bytes(p)
        elif isinstance(p, (tuple, list)):
            b = b"t" + _h(*p)
        else:
            b = b"s" + repr(p).encode()
        m.update(len(b).to_bytes(4, "big") + b)
    return m.digest()


class SeededEntropy:
    """os.urandom-like callable: SHA-256 counter-mode stream keyed by the given material."""

    def __init__(self, *material):
        self._key = _h("fsim-entropy", *material)
        self._ctr = 0

    def __call__(self, n: int) -> bytes:
        out = b""
        while len(out) < n:
            out += hashlib.sha256(self._key + self._ctr.to_bytes(8, "big")).digest()
            self._ctr += 1
        return out[:n]


class SeededSigningKey(ecdsa.SigningKey):
    """SigningKey whose nonce, when the caller passes no entropy, is a pure function of (key, data)."""

    def sign(self, data, entropy=None, hashfunc=None, sigencode=sigencode_string, k=None, allow_truncate=True):
        if entropy is None and k is None:
            entropy = SeededEntropy("nonce", self.to_string(), bytes(data))
        return super().sign(data, entropy=entropy, hashfunc=hashfunc, sigencode=sigencode, k=k,
                            allow_truncate=allow_truncate)

    def sign_digest(self, digest, entropy=None, sigencode=sigencode_string, k=None, allow_truncate=False):
        if entropy is None and k is None:
            entropy = SeededEntropy("nonce-digest", self.to_string(), bytes(digest))
        return super().sign_digest(digest, entropy=entropy, sigencode=sigencode, k=k, allow_truncate=allow_truncate)


def seeded_key(seed, *label) -> SeededSigningKey:
    """NIST P-256 private key that is a pure function of (seed, label)."""
    return SeededSigningKey.generate(curve=NIST256p, entropy=SeededEntropy("key", seed, label), hashfunc=hashlib.sha256)


def _seeded_from(sk: ecdsa.SigningKey) -> SeededSigningKey:
    if isinstance(sk, SeededSigningKey):
        return sk
    return SeededSigningKey.from_secret_exponent(sk.privkey.secret_multiplier, curve=NIST256p, hashfunc=hashlib.sha256)


def _backend_base():
    from flexstack.security.ecdsa_backend import PythonECDSABackend
    return PythonECDSABackend


_BACKEND_CLS = None


def SeededECDSABackend(seed, label: Any = ""):
    """Factory for the seeded backend (class built lazily so that importing seccrypto does not import flexstack).

    Returned object: subclass of PythonECDSABackend with
      create_key()            key = f(seed, label, index)              (repo: os.urandom)
      import_signing_key(pem) as the repo's, but signatures stay seeded
      add_key(sk) -> id       adopt an existing ecdsa.SigningKey
      signing_key(id)         the raw ecdsa key
      sign / verify / verify_with_pk / get_public_key / export_signing_key: the repo's own code, untouched.
    """
    global _BACKEND_CLS
    if _BACKEND_CLS is None:
        base = _backend_base()

        class _SeededECDSABackend(base):  # type: ignore[misc, valid-type]
            def __init__(self, seed, label: Any = "") -> None:
                super().__init__()
                self.seed = seed
                self.label = label

            def create_key(self) -> int:
                identifier = len(self.keys)
                self.keys[identifier] = seeded_key(self.seed, "backend", self.label, identifier)
                return identifier

            def import_signing_key(self, key_pem: bytes) -> int:
                return self.add_key(ecdsa.SigningKey.from_pem(key_pem))

            def add_key(self, sk: ecdsa.SigningKey) -> int:
                identifier = len(self.keys)
                self.keys[identifier] = _seeded_from(sk)
                return identifier

            def signing_key(self, identifier: int) -> SeededSigningKey:
                return self.keys[identifier]

        _SeededECDSABackend.__name__ = "SeededECDSABackend"
        _BACKEND_CLS = _SeededECDSABackend
    return _BACKEND_CLS(seed, label)


class _NoUrandomOs:
    """Stands in for the ``os`` module inside ecdsa.util / ecdsa.keys: any unseeded entropy request raises."""

    def __init__(self, real):
        self._real = real

    def urandom(self, n):
        from .kernel import HarnessError
        raise HarnessError("unseeded entropy requested from os.urandom inside the ecdsa package "
                           "(a key or signature was made outside the seeded backend)")

    def __getattr__(self, name):
        return getattr(self._real, name)


def entropy_tripwire(patches) -> None:
    """With a fsim.patching.Patches object: make every os.urandom use inside ``ecdsa`` a harness error."""
    import ecdsa.util as eu
    import ecdsa.keys as ek
    import os as _os
    proxy = _NoUrandomOs(_os)
    patches.set(eu, "os", proxy)
    if "os" in ek.__dict__:
        patches.set(ek, "os", proxy)


# ------------------------------------------------------------------------------------------------ tbs builders
def group(psids="all", min_chain: int = 1, chain_range: int = 0, ee=EE_APP) -> dict:
    """One PsidGroupPermissions.  psids: "all" or an iterable of ints."""
    sp = ("all", None) if psids == "all" else ("explicit", [{"psid": int(p)} for p in psids])
    return {"subjectPermissions": sp, "minChainLength": int(min_chain), "chainLengthRange": int(chain_range),
            "eeType": ee}


def make_tbs(cert_id, start: int, duration, app_psids=None, issue_groups=None, extra: Optional[dict] = None) -> dict:
    """ToBeSignedCertificate dict.  cert_id: "name-string" (-> name) or None (-> none).  duration: ("hours", 5) ..."""
    tbs = {"id": ("none", None) if cert_id is None else ("name", str(cert_id)), "cracaId": CRACA, "crlSeries": 0,
           "validityPeriod": {"start": int(start), "duration": (duration[0], int(duration[1]))}}
    if app_psids is not None:
        tbs["appPermissions"] = [{"psid": int(p)} for p in app_psids]
    if issue_groups is not None:
        tbs["certIssuePermissions"] = [copy.deepcopy(g) for g in issue_groups]
    tbs["verifyKeyIndicator"] = ("verificationKey", ("ecdsaNistP256", ("fill", None)))
    if extra:
        tbs.update(copy.deepcopy(extra))
    return tbs


def public_key_value(sk_or_vk) -> tuple:
    """PublicVerificationKey value (uncompressed P-256) for an ecdsa key."""
    vk = sk_or_vk.verifying_key if hasattr(sk_or_vk, "verifying_key") else sk_or_vk
    pt = vk.pubkey.point
    return ("ecdsaNistP256", ("uncompressedP256", {"x": int(pt.x()).to_bytes(32, "big"), "y": int(pt.y()).to_bytes(32, "big")}))


def _norm_validity(v, now: int, default_duration=("years", 10)) -> tuple[int, tuple]:
    """Duration tuple | (start_offset_s, Duration) | {"start": abs, "duration": Duration} -> (start, Duration)."""
    if v is None:
        return now, default_duration
    if isinstance(v, dict):
        return int(v.get("start", now)), tuple(v.get("duration", default_duration))
    v = tuple(v) if isinstance(v, list) else v
    if len(v) == 2 and isinstance(v[0], str):
        return now, (v[0], int(v[1]))
    if len(v) == 2 and isinstance(v[0], (int, float)):
        return now + int(v[0]), (v[1][0], int(v[1][1]))
    raise ValueError(f"bad validity spec {v!r}")


# ------------------------------------------------------------------------------------------------ (b) PKI factory
class PKI:
    """Genuine hierarchy root -> AA -> tickets made by the repo's issuing API.  Treat as immutable (cached)."""

    def __init__(self, seed, now: int):
        self.seed = seed
        self.now = now                       # ITS seconds used as default validity start
        self.backend = None                  # authority backend holding every private key
        self.root = None                     # OwnCertificate (repo object) - do not hand to code that mutates
        self.aa = None
        self.tickets: list = []
        self.root_bytes = b""
        self.aa_bytes = b""
        self.ticket_bytes: list[bytes] = []
        self.root_key: Optional[SeededSigningKey] = None
        self.aa_key: Optional[SeededSigningKey] = None
        self.ticket_keys: list[SeededSigningKey] = []
        self.psid_sets: list[tuple] = []
        self.aa_psids: Any = ()
        self.fallbacks: list[str] = []       # roles whose certificate the issuing API failed to produce (rebuilt raw)

    # --- fresh repo objects (decoded again from bytes, so cached dicts are never shared with code under test)
    def cert(self, role: str, i: Optional[int] = None, with_issuer: bool = True):
        """Fresh repo ``Certificate``: role in root|aa|at; issuer chain attached when with_issuer."""
        from flexstack.security.certificate import Certificate
        if role == "root":
            return Certificate().decode(self.root_bytes, issuer=None)
        if role == "aa":
            return Certificate().decode(self.aa_bytes, issuer=self.cert("root") if with_issuer else None)
        if role == "at":
            return Certificate().decode(self.ticket_bytes[i], issuer=self.cert("aa") if with_issuer else None)
        raise ValueError(role)

    def bytes_of(self, role: str, i: Optional[int] = None) -> bytes:
        return {"root": self.root_bytes, "aa": self.aa_bytes}[role] if role != "at" else self.ticket_bytes[i]

    def key_of(self, role: str, i: Optional[int] = None) -> SeededSigningKey:
        return {"root": self.root_key, "aa": self.aa_key}[role] if role != "at" else self.ticket_keys[i]

    def station_backend(self, i: int):
        """(backend, key_id): a fresh seeded backend owning only ticket i's private key."""
        be = SeededECDSABackend(self.seed, ("station", i))
        return be, be.add_key(self.ticket_keys[i])

    def own_ticket(self, i: int, backend, key_id: int):
        from flexstack.security.certificate import OwnCertificate
        base = self.cert("at", i)
        return OwnCertificate(certificate=base.certificate, issuer=base.issuer, key_id=key_id)

    def library_for(self, i: Optional[int] = None, preload: Iterable[int] = (), backend=None, key_id=None,
                    with_root: bool = True, with_aa: bool = True):
        """CertificateLibrary trusting root (+AA), peers ``preload`` known, ticket i installed as own (i may be None)."""
        from flexstack.security.certificate_library import CertificateLibrary
        if backend is None:
            if i is not None:
                backend, key_id = self.station_backend(i)
            else:
                backend = SeededECDSABackend(self.seed, ("verifier",))
        lib = CertificateLibrary(ecdsa_backend=backend,
                                 root_certificates=[self.cert("root")] if with_root else [],
                                 aa_certificates=[self.cert("aa")] if with_aa else [],
                                 at_certificates=[self.cert("at", j) for j in preload])
        if i is not None:
            lib.add_own_certificate(self.own_ticket(i, backend, key_id))
        return lib

    def services_for(self, i: int, preload: Iterable[int] = ()):
        """(SignService, VerifyService) of station i sharing one library and one backend."""
        from flexstack.security.sign_service import SignService
        from flexstack.security.verify_service import VerifyService
        backend, key_id = self.station_backend(i)
        lib = self.library_for(i, preload, backend=backend, key_id=key_id)
        sign = SignService(backend=backend, certificate_library=lib)
        verify = VerifyService(backend=backend, certificate_library=lib, sign_service=sign)
        return sign, verify

    def verifier(self, **kw) -> "ChainVerifier":
        """Independent chain verifier trusting this PKI's root, AA known as intermediate."""
        return ChainVerifier([self.root_bytes], [self.aa_bytes], **kw)


def _hashable(x):
    if isinstance(x, dict):
        return tuple(sorted((k, _hashable(v)) for k, v in x.items()))
    if isinstance(x, (list, tuple)):
        return tuple(_hashable(v) for v in x)
    return x


def _is_single_validity(v) -> bool:
    if v is None or isinstance(v, dict):
        return True
    return isinstance(v, (tuple, list)) and len(v) == 2 and isinstance(v[0], (str, int, float)) and not isinstance(v[0], bool)


def make_pki(seed, n_tickets: int = 2, psid_sets=None, validity=None, now: Optional[int] = None, *,
             aa_psids=None, root_min_chain: int = 2, root_chain_range: int = 0, aa_min_chain: int = 1,
             cache: bool = True) -> PKI:
    """Root -> AA -> n tickets through OwnCertificate.initialize_certificate (the repo's issuing API).

    seed        anything repr-able; equal seeds (and arguments) give byte-identical certificates and keys
    psid_sets   per-ticket list of ITS-AIDs (default (36, 37, 638) each)
    validity    V for everything, or dict {"root": V, "aa": V, "tickets": V | [V, ...]} with
                V = Duration tuple e.g. ("hours", 2) | (start_offset_s, Duration) | {"start": its_s, "duration": Duration}
    now         ITS seconds used as validity start (default: 2026-01-01 in ITS time); never a wall clock
    aa_psids    explicit issuing PSIDs of the AA (default: union of ticket sets and (36, 37, 638)); "all" allowed
    Results are cached per process by argument value (pure function); the returned PKI must be treated as immutable.
    """
    if now is None:
        now = its_s(DEFAULT_NOW_UNIX)
    now = int(now)
    if psid_sets is None:
        psid_sets = [DEFAULT_PSIDS] * n_tickets
    psid_sets = tuple(tuple(int(p) for p in s) for s in psid_sets)
    if len(psid_sets) != n_tickets:
        raise ValueError("psid_sets must have n_tickets entries")
    if aa_psids is None:
        aa_psids = tuple(sorted(set(DEFAULT_PSIDS).union(*psid_sets)))
    elif aa_psids != "all":
        aa_psids = tuple(int(p) for p in aa_psids)
    if isinstance(validity, dict) and any(k in validity for k in ("root", "aa", "tickets")):
        v_root, v_aa, v_t = validity.get("root"), validity.get("aa"), validity.get("tickets")
    else:
        v_root = v_aa = v_t = validity
    v_tickets = [v_t] * n_tickets if _is_single_validity(v_t) else list(v_t)
    if len(v_tickets) != n_tickets:
        raise ValueError("validity['tickets'] must have n_tickets entries")
    vkey = (_norm_validity(v_root, now), _norm_validity(v_aa, now), tuple(_norm_validity(v, now) for v in v_tickets))
    key = (_hashable(seed), n_tickets, psid_sets, vkey, now, aa_psids, root_min_chain, root_chain_range, aa_min_chain)
    if cache:
        return _make_pki_cached(key)
    return _make_pki(key)


@functools.lru_cache(maxsize=256)
def _make_pki_cached(key) -> PKI:
    return _make_pki(key)


def _make_pki(key) -> PKI:
    from flexstack.security.certificate import OwnCertificate
    seed, n_tickets, psid_sets, vkey, now, aa_psids, root_min_chain, root_chain_range, aa_min_chain = key
    pki = PKI(seed, now)
    pki.psid_sets = list(psid_sets)
    pki.aa_psids = aa_psids
    be = pki.backend = SeededECDSABackend(seed, "authority")

    def issue(role, tbs, issuer, fallback_tbs):
        """Through the repo's issuing API; when that API raises or returns something that does not verify under the issuer
        (possible on a broken tree: the API is itself under test in C09) the certificate is rebuilt with raw ecdsa from the
        same key, and the fact is recorded in pki.fallbacks so that checks can count it."""
        n_keys = len(be.keys)
        cert = None
        try:
            cert = OwnCertificate.initialize_certificate(be, tbs, issuer)
            ib = None if issuer is None else encode_cert(issuer.certificate)
            if cert_signature_mode(cert.certificate, None if issuer is None else (issuer.certificate, ib)) is None or \
                    (issuer is not None and cert.certificate["issuer"] != ("sha256AndDigest", hashlib.sha256(ib).digest()[-8:])) or \
                    (issuer is not None and check_permissions(cert.certificate, issuer.certificate)):
                cert = None
        except Exception:
            cert = None
        if cert is None:
            pki.fallbacks.append(role)
            kid = n_keys if len(be.keys) > n_keys else be.create_key()
            sk = be.signing_key(kid)
            isk = sk if issuer is None else be.signing_key(issuer.key_id)
            raw = build_cert(fallback_tbs, isk, None if issuer is None else issuer.certificate, subject_key=sk)
            cert = OwnCertificate(certificate=decode_cert(raw), issuer=issuer, key_id=kid)
        return cert

    s, d = vkey[0]
    tbs = make_tbs("fsim-root", s, d, issue_groups=[group("all", root_min_chain, root_chain_range)])
    pki.root = issue("root", tbs, None, tbs)
    s, d = vkey[1]
    pki.aa = issue("aa", make_tbs("fsim-aa", s, d, issue_groups=[group(aa_psids, aa_min_chain, 0)]), pki.root,
                   make_tbs("fsim-aa", s, d, issue_groups=[group(aa_psids, max(1, root_min_chain - 1), 0)]))
    for i in range(n_tickets):
        s, d = vkey[2][i]
        tbs = make_tbs(None, s, d, app_psids=psid_sets[i])
        pki.tickets.append(issue("at", tbs, pki.aa, tbs))
    pki.root_bytes, pki.aa_bytes = encode_cert(pki.root.certificate), encode_cert(pki.aa.certificate)
    pki.ticket_bytes = [encode_cert(t.certificate) for t in pki.tickets]
    pki.root_key, pki.aa_key = be.signing_key(pki.root.key_id), be.signing_key(pki.aa.key_id)
    pki.ticket_keys = [be.signing_key(t.key_id) for t in pki.tickets]
    # the factory's product must be sound by the independent verifier, otherwise every later verdict is void
    cv = ChainVerifier([pki.root_bytes], [pki.aa_bytes])
    for b in [pki.aa_bytes] + pki.ticket_bytes:
        res = cv.verify(b)
        if not res.ok:
            from .kernel import HarnessError
            raise HarnessError(f"make_pki: genuine certificate rejected by the independent verifier: {res.reasons} "
                               f"(ticket PSIDs must lie within aa_psids)")
    return pki


# ------------------------------------------------------------------------------------------------ (c) independent verifier
@dataclass(frozen=True)
class Group:
    all: bool
    psids: frozenset
    min: int
    range: int

    @property
    def max_below(self) -> int:
        """Longest chain permitted below the holder through this group (0 = cannot issue)."""
        if self.min < 1:
            return 0                          # 0 is "not permitted" in 1609.2 and "exhausted" in the repo's reading
        if self.range == -1:
            return INF
        return self.min + max(self.range, 0)


def app_psids(cert: dict) -> Optional[list[int]]:
    ap = cert["toBeSigned"].get("appPermissions")
    return None if ap is None else [e["psid"] for e in ap]


def issue_groups(cert: dict) -> list[Group]:
    out = []
    for g in cert["toBeSigned"].get("certIssuePermissions") or []:
        sp = g["subjectPermissions"]
        if sp[0] == "all":
            out.append(Group(True, frozenset(), g.get("minChainLength", 1), g.get("chainLengthRange", 0)))
        elif sp[0] == "explicit":
            out.append(Group(False, frozenset(e["psid"] for e in sp[1]), g.get("minChainLength", 1), g.get("chainLengthRange", 0)))
    return out


def validity_of(cert: dict) -> tuple[float, float]:
    """(start, end) in ITS seconds."""
    vp = cert["toBeSigned"]["validityPeriod"]
    unit, n = vp["duration"]
    return float(vp["start"]), float(vp["start"]) + n * _DUR_S[unit]


def check_permissions(subject: dict, issuer: dict) -> list[str]:
    """Reasons why `subject`'s permissions are NOT contained in `issuer`'s issuing permissions (empty = contained).

    PSID level (IEEE 1609.2 consistency of appPermissions / certIssuePermissions with the issuing certificate, SSPs not
    judged): every appPermissions PSID and every PSID of the subject's own certIssuePermissions must be covered by an
    issuer PsidGroupPermissions (explicitly, or by an `all` group); a subject `all` group needs an issuer `all` group.
    Chain length, counted as the standard does (number of certificates below the holder): an end-entity needs a covering
    group that still permits 1; a CA subject whose group permits m below itself needs a covering group permitting 1+m.
    Reason prefixes: "perm:" (PSID containment) and "chain:" (budget; "chain:range" when only min+range exceeds).
    The most favourable covering issuer group is used; eeType and the lower bound (>= minChainLength) are not judged.
    """
    ig = issue_groups(issuer)
    reasons: list[str] = []
    needs: list[tuple[str, Any, int, int]] = []      # (what, psid|"all", depth by min only, depth with range)
    for p in app_psids(subject) or []:
        needs.append(("app", p, 1, 1))
    for sg in issue_groups(subject):
        below_min = sg.min if sg.min >= 1 else 0
        d_min, d_full = min(INF, 1 + below_min), min(INF, 1 + sg.max_below)     # unbounded below an unbounded issuer is fine
        if sg.all:
            needs.append(("issue", "all", d_min, d_full))
        for p in sorted(sg.psids):
            needs.append(("issue", p, d_min, d_full))
    if needs and not ig:
        return ["perm:issuer-has-no-issuing-permissions"]
    for what, p, d_min, d_full in needs:
        cover = [g for g in ig if g.all or (p != "all" and p in g.psids)]
        if not cover:
            reasons.append(f"perm:{what}-psid-not-covered:{p}")
            continue
        best = max(g.max_below for g in cover)
        if best < d_min:
            reasons.append(f"chain:{what}-depth:{p}:needs{min(d_min, 99)}:has{min(best, 99)}")
        elif best < d_full:
            reasons.append(f"chain:range:{what}:{p}:needs{'inf' if d_full >= INF else d_full}:has{best}")
    return reasons


def verifying_key_of(cert: dict) -> Optional[ecdsa.VerifyingKey]:
    """The NIST P-256 verification key of an explicit certificate, or None when absent / unsupported / off-curve."""
    try:
        vki = cert["toBeSigned"]["verifyKeyIndicator"]
        if vki[0] != "verificationKey" or vki[1][0] != "ecdsaNistP256":
            return None
        form, val = vki[1][1]
        if form == "uncompressedP256":
            raw = b"\x04" + val["x"] + val["y"]
        elif form == "compressed-y-0":
            raw = b"\x02" + val
        elif form == "compressed-y-1":
            raw = b"\x03" + val
        else:
            return None
        return ecdsa.VerifyingKey.from_string(raw, curve=NIST256p, hashfunc=hashlib.sha256)
    except Exception:
        return None


def _sig_rs(signature) -> Optional[tuple[int, int]]:
    try:
        if signature[0] != "ecdsaNistP256Signature":
            return None
        form, val = signature[1]["rSig"]
        if form in ("x-only", "compressed-y-0", "compressed-y-1"):
            r = val
        elif form == "uncompressedP256":
            r = val["x"]
        else:
            return None
        return int.from_bytes(r, "big"), int.from_bytes(signature[1]["sSig"], "big")
    except Exception:
        return None


def _ecdsa_ok(vk: ecdsa.VerifyingKey, rs: tuple[int, int], digest: bytes) -> bool:
    r, s = rs
    if not (0 < r < ORDER and 0 < s < ORDER):
        return False
    try:
        return bool(vk.verify_digest(sigencode_string(r, s, ORDER), digest))
    except Exception:
        return False


SIG_MODES = ("plain", "ieee1609")
_SIG_CACHE: dict = {}


def signature_mode(data: bytes, signature, vk: Optional[ecdsa.VerifyingKey], signer_cert: Optional[bytes],
                   modes: Sequence[str] = SIG_MODES) -> Optional[str]:
    """Which signature input convention makes (data, signature) verify under vk; None if none does.

    "plain"    ECDSA over SHA-256(data)                                          (what the repo signs)
    "ieee1609" ECDSA over SHA-256(SHA-256(data) || SHA-256(signer_cert or b""))  (IEEE 1609.2 5.3.1.2.2)
    """
    rs = _sig_rs(signature)
    if vk is None or rs is None:
        return None
    ck = (data, rs, vk.to_string(), signer_cert, tuple(modes))
    if ck in _SIG_CACHE:
        return _SIG_CACHE[ck]
    h = hashlib.sha256(data).digest()
    res = None
    for m in modes:
        if m == "plain":
            dg = h
        elif m == "ieee1609":
            dg = hashlib.sha256(h + hashlib.sha256(signer_cert or b"").digest()).digest()
        else:
            raise ValueError(m)
        if _ecdsa_ok(vk, rs, dg):
            res = m
            break
    if len(_SIG_CACHE) > 200_000:
        _SIG_CACHE.clear()
    _SIG_CACHE[ck] = res
    return res


def cert_signature_mode(cert, issuer=None, modes: Sequence[str] = SIG_MODES) -> Optional[str]:
    """Signature of `cert` under `issuer`'s key (or its own key when issuer is None: self-signed)."""
    c, _ = as_cert(cert)
    if issuer is None:
        return signature_mode(encode_tbs_cert(c["toBeSigned"]), c.get("signature"), verifying_key_of(c), None, modes)
    i, ib = as_cert(issuer)
    return signature_mode(encode_tbs_cert(c["toBeSigned"]), c.get("signature"), verifying_key_of(i), ib, modes)


@dataclass
class ChainResult:
    ok: bool
    reasons: list[str] = field(default_factory=list)    # "sig:...", "link:...", "perm:...", "chain:...", "validity:...", "root:..."
    path: list[str] = field(default_factory=list)       # HashedId8 hex from the certificate up to the root reached
    sig_modes: list[str] = field(default_factory=list)
    notes: list[str] = field(default_factory=list)      # not failures: "vacuous-permissions", "noncanonical-version", ...
    levels: list[int] = field(default_factory=list)     # per reason: 0 = the certificate itself / its link to its issuer,
                                                        # 1 = its issuer's own link, ...

    def at_level(self, level: int) -> list[str]:
        return [r for r, lv in zip(self.reasons, self.levels) if lv == level]

    def cats(self) -> set[str]:
        return {r.split(":", 1)[0] for r in self.reasons}

    def failed(self, cats: Iterable[str]) -> list[str]:
        cs = set(cats)
        return [r for r in self.reasons if r.split(":", 1)[0] in cs]


class ChainVerifier:
    """Independent chain verification up to a configured root.

    trusted_roots   certificates (bytes | dict | repo objects) that are trust anchors (must be self-signed and verify)
    intermediates   candidate issuers (looked up by HashedId8 of their encoding)
    max_chain       maximum number of certificates below the root
    check_chain_length / check_validity   include "chain:" / "validity:" reasons in `ok`
    verify(cert, now=None) -> ChainResult; `now` in ITS seconds (only used for validity).
    """

    def __init__(self, trusted_roots: Iterable = (), intermediates: Iterable = (), *, max_chain: int = 8,
                 sig_modes: Sequence[str] = SIG_MODES, check_chain_length: bool = True, check_validity: bool = False):
        self.roots: dict[bytes, tuple[dict, bytes]] = {}
        self.inter: dict[bytes, list[tuple[dict, bytes]]] = {}
        self.max_chain = max_chain
        self.sig_modes = tuple(sig_modes)
        self.check_chain_length = check_chain_length
        self.check_validity = check_validity
        for r in trusted_roots:
            self.add_root(r)
        for c in intermediates:
            self.add_intermediate(c)

    def add_root(self, cert) -> None:
        d, b = as_cert(cert)
        self.roots[b] = (d, b)

    def add_intermediate(self, cert) -> None:
        d, b = as_cert(cert)
        lst = self.inter.setdefault(hashlib.sha256(b).digest()[-8:], [])
        if all(b != x[1] for x in lst):
            lst.append((d, b))

    def _candidates(self, digest: bytes) -> list[tuple[dict, bytes, bool]]:
        out = [(d, b, True) for (d, b) in self.roots.values() if hashlib.sha256(b).digest()[-8:] == digest]
        out += [(d, b, False) for (d, b) in self.inter.get(digest, []) if b not in self.roots]
        return out

    def verify(self, cert, now: Optional[float] = None) -> ChainResult:
        try:
            d, b = as_cert(cert)
        except Undecodable as e:
            return ChainResult(False, [f"decode:{e}"], levels=[0])
        best: Optional[ChainResult] = None
        for res in self._walk(d, b, now, 0, frozenset()):
            res.ok = not [r for r in res.reasons if self._hard(r)]
            if res.ok:
                return res
            if best is None or len(res.reasons) < len(best.reasons):
                best = res
        return best if best is not None else ChainResult(False, ["link:issuer-unknown"], levels=[0])

    def _hard(self, reason: str) -> bool:
        cat = reason.split(":", 1)[0]
        if cat == "chain":
            return self.check_chain_length
        if cat == "validity":
            return self.check_validity
        return True

    def _local(self, d: dict, now) -> tuple[list[str], list[str]]:
        reasons, notes = [], []
        if d.get("version") != 3:
            notes.append("noncanonical-version")
        if d.get("type") != "explicit":
            reasons.append("sig:not-explicit")
        if now is not None:
            s, e = validity_of(d)
            if now < s:
                reasons.append("validity:not-yet-valid")
            elif now > e:
                reasons.append("validity:expired")
        return reasons, notes

    def _walk(self, d: dict, b: bytes, now, depth: int, seen: frozenset):
        """Yield one ChainResult per explored path from (d, b) towards a root."""
        h8 = hashlib.sha256(b).digest()[-8:]
        reasons, notes = self._local(d, now)
        issuer = d.get("issuer", ("?", None))

        def leaf(extra, modes=()):
            rs = reasons + extra
            return ChainResult(False, rs, [h8.hex()], list(modes), notes, [depth] * len(rs))

        if issuer[0] == "self":
            mode = signature_mode(encode_tbs_cert(d["toBeSigned"]), d.get("signature"), verifying_key_of(d), None, self.sig_modes)
            extra = []
            if mode is None:
                extra.append("sig:self-signature")
            if b not in self.roots:
                extra.append("root:self-signed-not-configured")
            yield leaf(extra, [mode] if mode else [])
            return
        if issuer[0] != "sha256AndDigest":
            yield leaf([f"link:unsupported-issuer-choice:{issuer[0]}"])
            return
        if depth >= self.max_chain or b in seen:
            yield leaf(["link:chain-too-long-or-cyclic"])
            return
        cands = self._candidates(issuer[1])
        if not cands:
            yield leaf(["link:issuer-unknown"])
            return
        tbs = encode_tbs_cert(d["toBeSigned"])
        for (idict, ibytes, _is_root) in cands:
            r2, n2 = list(reasons), list(notes)
            mode = signature_mode(tbs, d.get("signature"), verifying_key_of(idict), ibytes, self.sig_modes)
            if mode is None:
                r2.append("sig:issuer-signature")
            pr = check_permissions(d, idict)
            r2.extend(pr)
            if not pr and not (app_psids(d) or issue_groups(d)):
                n2.append("vacuous-permissions")
            for up in self._walk(idict, ibytes, now, depth + 1, seen | {b}):
                yield ChainResult(False, r2 + up.reasons, [h8.hex()] + up.path, ([mode] if mode else []) + up.sig_modes,
                                  n2 + up.notes, [depth] * len(r2) + up.levels)


@dataclass
class MsgResult:
    ok: bool
    mode: Optional[str] = None
    reasons: list[str] = field(default_factory=list)
    psid: Optional[int] = None
    generation_time: Optional[int] = None          # ITS microseconds
    payload: Optional[bytes] = None
    signer_kind: Optional[str] = None               # digest | certificate | self
    signer_digest: Optional[bytes] = None           # digest carried, or HashedId8 of the first carried certificate
    signer_cert: Optional[dict] = None              # first carried certificate (decoded) when signer_kind == certificate
    header: Optional[dict] = None
    decoded: Optional[dict] = None


def parse_signed_message(encoded: bytes) -> MsgResult:
    """Decode an EtsiTs103097Data and extract what the oracles need; ok=False with reasons when it is not signedData."""
    try:
        dec = decode_data(encoded)
    except Undecodable as e:
        return MsgResult(False, reasons=[f"decode:{e}"])
    if dec["content"][0] != "signedData":
        return MsgResult(False, reasons=[f"content:{dec['content'][0]}"], decoded=dec)
    sd = dec["content"][1]
    hi = sd["tbsData"]["headerInfo"]
    res = MsgResult(True, psid=hi.get("psid"), generation_time=hi.get("generationTime"), header=hi, decoded=dec)
    pl = sd["tbsData"]["payload"].get("data")
    if pl is not None and pl["content"][0] == "unsecuredData":
        res.payload = pl["content"][1]
    signer = sd["signer"]
    res.signer_kind = signer[0]
    if signer[0] == "digest":
        res.signer_digest = signer[1]
    elif signer[0] == "certificate" and signer[1]:
        res.signer_cert = signer[1][0]
        try:
            res.signer_digest = hashed_id8(signer[1][0])
        except Undecodable:
            return MsgResult(False, reasons=["signer:certificate-not-re-encodable"], decoded=dec)
    return res


def verify_signed_message(encoded: bytes, ticket_cert, modes: Sequence[str] = SIG_MODES) -> MsgResult:
    """Check the message signature over ToBeSignedData under `ticket_cert`'s key (IEEE 1609.2: hash of tbsData || hash of
    the signer certificate, or of the empty string for self-signed; the repo's plain SHA-256(tbsData) convention is
    accepted as mode "plain" when listed in `modes`).  Also reports whether the signer identifier names `ticket_cert`."""
    res = parse_signed_message(encoded)
    if not res.ok:
        return res
    tdict, tbytes = as_cert(ticket_cert)
    sd = res.decoded["content"][1]
    if res.signer_kind == "self":
        signer_bytes = None
    else:
        signer_bytes = tbytes
        if res.signer_digest != hashlib.sha256(tbytes).digest()[-8:]:
            res.reasons.append("signer:does-not-name-this-ticket")
    res.mode = signature_mode(encode_tbs_data(sd["tbsData"]), sd["signature"], verifying_key_of(tdict), signer_bytes, modes)
    if res.mode is None:
        res.reasons.append("sig:message-signature")
    res.ok = not res.reasons
    return res


# ------------------------------------------------------------------------------------------------ (d) forgery toolkit
@dataclass
class Forged:
    kind: str                                       # forgery kind (used in finding keys)
    cert: bytes                                     # encoded certificate
    role: str = "at"                                # root | aa | at  (what it pretends to be)
    key: Optional[ecdsa.SigningKey] = None          # private key of the subject, when the forger owns it
    issuer: Optional[bytes] = None                  # encoded certificate the forgery names / pretends as issuer
    genuine_issuer_key: bool = False                # signed with the genuine issuer's private key (mis-issuance, not forgery)
    note: str = ""
    _canon: Any = None

    @property
    def h8(self) -> bytes:
        return hashlib.sha256(self.cert).digest()[-8:]

    @property
    def canon(self) -> Optional[bytes]:
        """Encoding of the decoded certificate (what a library that hashes its re-encoding sees); None if undecodable."""
        if self._canon is None:
            try:
                self._canon = encode_cert(decode_cert(self.cert))
            except Exception:
                self._canon = b""
        return self._canon or None


def sign_ieee(sk: ecdsa.SigningKey, data: bytes, signer_cert: Optional[bytes], mode: str = "plain") -> tuple:
    """IEEE 1609.2 Signature value (ecdsaNistP256Signature, x-only r) over `data` in the given convention."""
    sk = _seeded_from(sk)
    if mode == "plain":
        raw = sk.sign(data, hashfunc=hashlib.sha256)
    elif mode == "ieee1609":
        dg = hashlib.sha256(hashlib.sha256(data).digest() + hashlib.sha256(signer_cert or b"").digest()).digest()
        raw = sk.sign_digest(dg)
    else:
        raise ValueError(mode)
    return ("ecdsaNistP256Signature", {"rSig": ("x-only", raw[:32]), "sSig": raw[32:]})


def build_cert(tbs: dict, signer_key: ecdsa.SigningKey, issuer=None, *, subject_key=None, mode: str = "plain",
               issuer_digest: Optional[bytes] = None, version: int = 3, cert_type: str = "explicit") -> bytes:
    """Raw certificate: tbs (verifyKeyIndicator filled from subject_key when given) signed by signer_key.

    issuer None -> issuer choice self (self-signed); else sha256AndDigest(HashedId8(issuer)) unless issuer_digest is given.
    """
    tbs = copy.deepcopy(tbs)
    if subject_key is not None:
        tbs["verifyKeyIndicator"] = ("verificationKey", public_key_value(subject_key))
    ibytes = None if issuer is None else as_cert(issuer)[1]
    if issuer_digest is not None:
        iss = ("sha256AndDigest", issuer_digest)
    elif ibytes is None:
        iss = ("self", "sha256")
    else:
        iss = ("sha256AndDigest", hashlib.sha256(ibytes).digest()[-8:])
    sig = sign_ieee(signer_key, encode_tbs_cert(tbs), ibytes, mode)
    return encode_cert({"version": version, "type": cert_type, "issuer": iss, "toBeSigned": tbs, "signature": sig})


# --- unusual (but decodable) encodings of signatures and public keys: what a verifier must not accept unchecked
SIG_ALGS = ("ecdsaNistP256Signature", "ecdsaBrainpoolP256r1Signature", "ecdsaBrainpoolP384r1Signature", "ecdsaNistP384Signature",
            "sm2Signature")
R_FORMS = ("x-only", "fill", "compressed-y-0", "compressed-y-1", "uncompressed")
KEY_FORMS = ("uncompressedP256", "compressed")


def _stretch(b: bytes, n: int) -> bytes:
    """Exactly n octets derived from b (cut, or extended by a hash chain)."""
    out = bytes(b)
    while len(out) < n:
        out += hashlib.sha256(out + b"stretch").digest()
    return out[:n]


def crafted_signature(alg: str, r_form: str, r: bytes, s: bytes) -> tuple:
    """IEEE 1609.2 Signature value of CHOICE `alg` whose r is given in point form `r_form`, built from raw octets.
    Nothing is signed here: r, s are whatever the caller hands in (random, or copied from a genuine signature)."""
    if alg == "sm2Signature":
        return (alg, {"rSig": _stretch(r, 32), "sSig": _stretch(s, 32)})
    n = 48 if alg.endswith("384r1Signature") or alg == "ecdsaNistP384Signature" else 32
    r, s = _stretch(r, n), _stretch(s, n)
    if r_form == "fill":
        pt = ("fill", None)
    elif r_form == "uncompressed":
        pt = ("uncompressedP%d" % (n * 8), {"x": r, "y": _stretch(s + r, n)})
    else:
        pt = (r_form, r)
    return (alg, {"rSig": pt, "sSig": s})


def public_key_value_form(sk_or_vk, form: str = "uncompressedP256") -> tuple:
    """PublicVerificationKey value of an ecdsa P-256 key, uncompressed or compressed (compressed-y-0/1 by the parity of y)."""
    if form == "uncompressedP256":
        return public_key_value(sk_or_vk)
    vk = sk_or_vk.verifying_key if hasattr(sk_or_vk, "verifying_key") else sk_or_vk
    pt = vk.pubkey.point
    return ("ecdsaNistP256", ("compressed-y-%d" % (int(pt.y()) & 1), int(pt.x()).to_bytes(32, "big")))


def reencode_signature(signature, alg: Optional[str] = None, r_form: Optional[str] = None) -> Optional[tuple]:
    """The same r, s octets under another Signature CHOICE / point form (None when the value has no r octets)."""
    try:
        val = signature[1]
        rs = val["rSig"]
        if isinstance(rs, (bytes, bytearray)):
            r = bytes(rs)
        elif rs[0] == "fill":
            return None
        elif isinstance(rs[1], dict):
            r = rs[1]["x"]
        else:
            r = rs[1]
        cur_form = "x-only" if isinstance(rs, (bytes, bytearray)) else ("uncompressed" if isinstance(rs[1], dict) else rs[0])
        return crafted_signature(alg or signature[0], r_form or cur_form, r, val["sSig"])
    except Exception:
        return None


def _set_path(obj, path: Sequence, value):
    """Functional update through dicts, lists and CHOICE tuples (index 1 = chosen value)."""
    if not path:
        return value
    k = path[0]
    if isinstance(obj, dict):
        new = dict(obj)
        new[k] = _set_path(obj.get(k), path[1:], value)
        return new
    if isinstance(obj, tuple):
        lst = list(obj)
        lst[k] = _set_path(obj[k], path[1:], value)
        return tuple(lst)
    if isinstance(obj, list):
        lst = list(obj)
        lst[k] = _set_path(obj[k], path[1:], value)
        return lst
    raise KeyError(path)


def get_path(obj, path: Sequence):
    for k in path:
        obj = obj[k]
    return obj


def edit_cert(cert, path: Sequence, value) -> bytes:
    """Decode, replace the field at `path` (e.g. ["toBeSigned", "appPermissions", 0, "psid"]), re-encode; NOT re-signed."""
    d, _ = as_cert(cert)
    return encode_cert(_set_path(copy.deepcopy(d), list(path), value))


def edit_message(encoded: bytes, path: Sequence, value) -> bytes:
    """Decode an EtsiTs103097Data, replace the field at `path`, re-encode; NOT re-signed."""
    return encode_data(_set_path(decode_data(encoded), list(path), value))


def build_signed_message(payload: bytes, psid: int, generation_time: Optional[int], signer_key: ecdsa.SigningKey, signer,
                         *, generation_location: Optional[dict] = None, extra_header: Optional[dict] = None,
                         mode: str = "plain", hash_cert=None, corrupt_signature: bool = False) -> bytes:
    """Encoded EtsiTs103097Data-Signed made without the repo's SignService.

    signer: ("digest", 8 bytes) | ("certificate", [cert bytes|dict, ...]) | ("self", None).
    generation_time: ITS microseconds or None (field omitted).  hash_cert: certificate used as signer-identifier input
    in mode "ieee1609" (default: the first carried certificate).
    """
    hi: dict = {"psid": int(psid)}
    if generation_time is not None:
        hi["generationTime"] = int(generation_time)
    if generation_location is not None:
        hi["generationLocation"] = generation_location
    if extra_header:
        hi.update(extra_header)
    tbs = {"payload": {"data": {"protocolVersion": 3, "content": ("unsecuredData", bytes(payload))}}, "headerInfo": hi}
    if signer[0] == "certificate":
        certs = [as_cert(c)[0] for c in signer[1]]
        sgn = ("certificate", certs)
        if hash_cert is None and certs:
            hash_cert = certs[0]
    else:
        sgn = (signer[0], signer[1])
    hb = None if hash_cert is None else as_cert(hash_cert)[1]
    try:
        tbs_bytes = encode_tbs_data(tbs)
    except Exception as e:
        raise Undecodable(f"tbsData not encodable: {type(e).__name__}") from None
    sig = sign_ieee(signer_key, tbs_bytes, hb, mode)
    if corrupt_signature:
        s = bytearray(sig[1]["sSig"])
        s[-1] ^= 1
        sig = (sig[0], {"rSig": sig[1]["rSig"], "sSig": bytes(s)})
    try:
        return encode_data({"protocolVersion": 3, "content": ("signedData", {"hashId": "sha256", "tbsData": tbs, "signer": sgn,
                                                                              "signature": sig})})
    except Exception as e:
        raise Undecodable(f"message not encodable: {type(e).__name__}") from None


# --- generic byte / bit mutators (pure functions)
def flip_bit(b: bytes, bit: int) -> bytes:
    a = bytearray(b)
    if a:
        bit %= len(a) * 8
        a[bit // 8] ^= 0x80 >> (bit % 8)
    return bytes(a)


def set_byte(b: bytes, index: int, value: int) -> bytes:
    a = bytearray(b)
    if a:
        a[index % len(a)] = value & 0xFF
    return bytes(a)


def truncate(b: bytes, n: int) -> bytes:
    return bytes(b[:max(0, min(len(b), n))])


def extend(b: bytes, extra: bytes) -> bytes:
    return bytes(b) + bytes(extra)


def mutate(b: bytes, kind: str, a: int = 0, v: int = 0) -> bytes:
    """kind in bitflip|byte|truncate|extend|swap|zero-run; a, v are plan-chosen integers (reduced modulo the length)."""
    n = len(b)
    if kind == "bitflip":
        return flip_bit(b, a)
    if kind == "byte":
        return set_byte(b, a, v)
    if kind == "truncate":
        return truncate(b, a % (n + 1) if n else 0)
    if kind == "extend":
        return extend(b, bytes([(v + i) & 0xFF for i in range(1 + a % 16)]))
    if kind == "swap" and n >= 2:
        x = bytearray(b)
        i, j = a % n, v % n
        x[i], x[j] = x[j], x[i]
        return bytes(x)
    if kind == "zero-run" and n:
        x = bytearray(b)
        i = a % n
        for k in range(i, min(n, i + 1 + v % 8)):
            x[k] = 0
        return bytes(x)
    return bytes(b)


MUTATION_KINDS = ("bitflip", "byte", "truncate", "extend", "swap", "zero-run")


class Forger:
    """Named forgery recipes against a genuine PKI.  Every product is a pure function of (seed, pki, arguments)."""

    def __init__(self, seed, pki: Optional[PKI] = None):
        self.seed = seed
        self.pki = pki

    def key(self, *label) -> SeededSigningKey:
        return seeded_key(self.seed, "forger", *label)

    # ---- attacker-built hierarchy (self-made root / AA / AT; internally consistent, chains to nothing genuine)
    def attacker_chain(self, psids=DEFAULT_PSIDS, now: Optional[int] = None, duration=("years", 10), tag: Any = 0,
                       root_name: str = "fsim-root", aa_name: str = "fsim-aa", mode: str = "plain") -> dict:
        """{"root": Forged, "aa": Forged, "at": Forged}; names default to the genuine ones (look-alike)."""
        now = self.pki.now if (now is None and self.pki) else (now if now is not None else its_s(DEFAULT_NOW_UNIX))
        kr, ka, kt = self.key("atk-root", tag), self.key("atk-aa", tag), self.key("atk-at", tag)
        root = build_cert(make_tbs(root_name, now, duration, issue_groups=[group("all", 2, 0)]), kr, None, subject_key=kr, mode=mode)
        aa = build_cert(make_tbs(aa_name, now, duration, issue_groups=[group(psids, 1, 0)]), kr, root, subject_key=ka, mode=mode)
        at = build_cert(make_tbs(None, now, duration, app_psids=psids), ka, aa, subject_key=kt, mode=mode)
        return {"root": Forged("attacker-chain", root, "root", kr, None), "aa": Forged("attacker-chain", aa, "aa", ka, root),
                "at": Forged("attacker-chain", at, "at", kt, aa)}

    # ---- re-signed: genuine toBeSigned (optionally with the attacker's key inside), signed by a key that is not the issuer's
    def resigned(self, role: str = "at", i: int = 0, swap_key: bool = True, tag: Any = 0) -> Forged:
        """Genuine certificate re-signed by an attacker key while still naming the genuine issuer."""
        p = self.pki
        d, _ = as_cert(p.bytes_of(role, i))
        issuer = None if role == "root" else (p.root_bytes if role == "aa" else p.aa_bytes)
        sk = self.key("resign-subject", role, i, tag) if swap_key else None
        signer = self.key("resign-signer", role, i, tag)
        if role == "root":
            signer = sk if sk is not None else signer
        b = build_cert(d["toBeSigned"], signer, issuer, subject_key=sk)
        return Forged("resigned", b, role, sk, issuer)

    def resigned_under_attacker(self, role: str = "at", i: int = 0, tag: Any = 0) -> Forged:
        """Genuine toBeSigned with the attacker's key, validly signed by the attacker's AA / root (issuer unknown to victims)."""
        ch = self.attacker_chain(tag=("rua", tag))
        d, _ = as_cert(self.pki.bytes_of(role, i))
        sk = self.key("rua-subject", role, i, tag)
        iss = ch["aa"] if role == "at" else ch["root"]
        b = build_cert(d["toBeSigned"], iss.key, iss.cert, subject_key=sk)
        return Forged("resigned-under-attacker", b, role, sk, iss.cert)

    # ---- mis-issued with the GENUINE issuer's key (a CA signing beyond what it may)
    def escalated_at(self, psids: Sequence[int], issuer_role: str = "aa", tag: Any = 0, validity=None) -> Forged:
        """AT whose appPermissions (psids) need not be within the issuer's explicit issuing PSIDs; genuine issuer key."""
        p = self.pki
        s, d = _norm_validity(validity, p.now)
        sk = self.key("esc-at", tuple(psids), issuer_role, tag)
        ib = p.bytes_of(issuer_role)
        b = build_cert(make_tbs(None, s, d, app_psids=psids), p.key_of(issuer_role), ib, subject_key=sk)
        return Forged("escalated-at" if issuer_role == "aa" else "at-by-root", b, "at", sk, ib, True)

    def sub_ca(self, psids="all", min_chain: int = 1, chain_range: int = 0, issuer_role: str = "aa", tag: Any = 0,
               name: str = "fsim-sub-aa", kind: str = "sub-ca", app_psids=None) -> Forged:
        """CA certificate under the genuine AA / root with arbitrary issuing (and optional app) permissions; genuine issuer key."""
        p = self.pki
        sk = self.key("sub-ca", repr(psids), min_chain, chain_range, issuer_role, tag, repr(app_psids))
        ib = p.bytes_of(issuer_role)
        b = build_cert(make_tbs(name, p.now, ("years", 10), app_psids=app_psids, issue_groups=[group(psids, min_chain, chain_range)]),
                       p.key_of(issuer_role), ib, subject_key=sk)
        return Forged(kind, b, "aa", sk, ib, True)

    def child_of(self, parent: Forged, psids=DEFAULT_PSIDS, tag: Any = 0, kind: Optional[str] = None, validity=None,
                 as_ca: bool = False, min_chain: int = 1) -> Forged:
        """Certificate validly signed by a forged/mis-issued parent whose private key the forger owns."""
        now = self.pki.now if self.pki else its_s(DEFAULT_NOW_UNIX)
        s, d = _norm_validity(validity, now)
        sk = self.key("child", parent.cert, tuple(psids), tag)
        tbs = make_tbs("fsim-child-ca", s, d, issue_groups=[group(psids, min_chain, 0)]) if as_ca else make_tbs(None, s, d, app_psids=psids)
        b = build_cert(tbs, parent.key, parent.cert, subject_key=sk)
        return Forged(kind or (parent.kind + "-child"), b, "aa" if as_ca else "at", sk, parent.cert, parent.genuine_issuer_key)

    def issued_by_ticket(self, i: int = 0, psids=DEFAULT_PSIDS, tag: Any = 0) -> Forged:
        """Certificate signed by the holder of genuine ticket i using the ticket as if it were a CA (AT used as AA)."""
        p = self.pki
        sk = self.key("by-ticket", i, tuple(psids), tag)
        b = build_cert(make_tbs(None, p.now, ("years", 10), app_psids=psids), p.ticket_keys[i], p.ticket_bytes[i], subject_key=sk)
        return Forged("issued-by-ticket", b, "at", sk, p.ticket_bytes[i], False)

    def with_validity(self, start: int, duration, psids=DEFAULT_PSIDS, tag: Any = 0, kind: str = "validity") -> Forged:
        """AT properly issued by the genuine AA but with the given validity (expired / not yet valid at the caller's choice)."""
        p = self.pki
        sk = self.key("validity", start, tuple(duration), tuple(psids), tag)
        b = build_cert(make_tbs(None, start, duration, app_psids=psids), p.aa_key, p.aa_bytes, subject_key=sk)
        return Forged(kind, b, "at", sk, p.aa_bytes, True)

    def edited(self, role: str, i: int, path: Sequence, value, kind: str = "edited") -> Forged:
        """Genuine certificate with one field replaced and NOT re-signed (the forger owns no matching key unless it
        replaced verifyKeyIndicator by its own: use key_swapped)."""
        p = self.pki
        issuer = None if role == "root" else (p.root_bytes if role == "aa" else p.aa_bytes)
        return Forged(kind, edit_cert(p.bytes_of(role, i), path, value), role, None, issuer)

    def key_swapped(self, role: str = "at", i: int = 0, tag: Any = 0) -> Forged:
        """Genuine certificate whose public key was replaced by the attacker's, genuine signature kept."""
        sk = self.key("key-swap", role, i, tag)
        f = self.edited(role, i, ["toBeSigned", "verifyKeyIndicator"], ("verificationKey", public_key_value(sk)), "key-swapped")
        f.key = sk
        return f

    # ---- crafted encodings: attacker key, the genuine issuer merely NAMED, signature octets in an unusual CHOICE / point form
    def crafted(self, role: str = "at", i: int = 0, alg: str = "ecdsaNistP256Signature", r_form: str = "compressed-y-0",
                rs: str = "random", key_form: str = "uncompressedP256", tag: Any = 0, own_tbs: bool = False,
                psids=DEFAULT_PSIDS) -> Forged:
        """Certificate with the attacker's public key that names the genuine issuer (AA for at, root for aa) and carries
        signature octets that were never produced by the issuer: random ones, or those of the genuine certificate (`rs` =
        "copied"), encoded as Signature CHOICE `alg` with r in point form `r_form`.  toBeSigned: the genuine certificate's
        (role, i) with the key replaced, or (own_tbs) a fresh ticket for `psids`."""
        p = self.pki
        gd, _ = as_cert(p.bytes_of(role, i))
        issuer = p.root_bytes if role == "aa" else p.aa_bytes
        sk = self.key("crafted", role, i, alg, r_form, rs, key_form, tag, own_tbs)
        if own_tbs and role == "at":
            tbs = make_tbs(None, p.now, ("years", 10), app_psids=psids)
        else:
            tbs = copy.deepcopy(gd["toBeSigned"])
        tbs["verifyKeyIndicator"] = ("verificationKey", public_key_value_form(sk, "uncompressedP256" if key_form == "uncompressedP256" else "compressed"))
        if rs == "copied":
            gs = gd["signature"][1]
            r, s = gs["rSig"][1], gs["sSig"]
        else:
            r, s = _h(self.seed, "crafted-r", role, i, tag), _h(self.seed, "crafted-s", role, i, tag)
        sig = crafted_signature(alg, r_form, r, s)
        b = encode_cert({"version": 3, "type": "explicit", "issuer": ("sha256AndDigest", hashed_id8(issuer)), "toBeSigned": tbs,
                         "signature": sig})
        return Forged("crafted-encoding", b, role, sk, issuer, False, note="%s/%s/%s/%s" % (alg, r_form, rs, key_form))

    def message_crafted_signature(self, payload: bytes, psid: int, generation_time: Optional[int], i: int = 0,
                                  signer_form: str = "certificate", alg: str = "ecdsaNistP256Signature", r_form: str = "compressed-y-0",
                                  tag: Any = 0, **kw) -> bytes:
        """Message naming / carrying genuine ticket i whose signature octets are random, encoded as CHOICE `alg` with r in
        point form `r_form` (the attacker does not own the ticket's key)."""
        enc = self.message(payload, psid, generation_time, self.key("crafted-msg", tag), self.pki.ticket_bytes[i], signer_form, **kw)
        sig = crafted_signature(alg, r_form, _h(self.seed, "crafted-msg-r", i, tag), _h(self.seed, "crafted-msg-s", i, tag))
        return edit_message(enc, ["content", 1, "signature"], sig)

    # ---- messages
    def message(self, payload: bytes, psid: int, generation_time: Optional[int], key: ecdsa.SigningKey, cert=None,
                signer_form: str = "certificate", **kw) -> bytes:
        """Signed message under `key`, naming `cert` by digest or carrying it (signer_form digest|certificate|self)."""
        if signer_form == "digest":
            signer = ("digest", hashed_id8(cert))
            kw.setdefault("hash_cert", cert)
        elif signer_form == "certificate":
            signer = ("certificate", [cert])
        else:
            signer = ("self", None)
        return build_signed_message(payload, psid, generation_time, key, signer, **kw)

    def message_key_mismatch(self, payload: bytes, psid: int, generation_time: int, i: int = 0, signer_form: str = "certificate",
                             tag: Any = 0) -> bytes:
        """Signed with attacker key K but carrying / naming genuine ticket i (key K')."""
        return self.message(payload, psid, generation_time, self.key("mismatch", tag), self.pki.ticket_bytes[i], signer_form)

    def message_unknown_digest(self, payload: bytes, psid: int, generation_time: int, tag: Any = 0) -> bytes:
        """Digest-signed message naming a ticket nobody has seen (attacker-made AT)."""
        at = self.attacker_chain(tag=("unk", tag))["at"]
        return self.message(payload, psid, generation_time, at.key, at.cert, "digest")
