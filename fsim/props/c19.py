"""C19 - DCC algorithms respect TS 102 687 state, rate and duty-cycle limits (engine `dcc`).

One run = one seeded plan: a timed op list on the virtual clock of a fsim Kernel that feeds CBR samples to real
`DccReactive` instances (both Annex A tables, every constructor form) and to a real `DccAdaptive`, offers packets
to a real `GateKeeper`, updates its delta and probes the gate around the instants the reference model predicts.
Every return value is compared, step by step, with the independent reference in `fsim/refdcc.py`.

The code under test reads no clock of its own (neither module imports `time`; `GateKeeper` takes the current
time as the argument `t`): the only time source is the argument, and the harness always passes the kernel's
virtual time (refined below one microsecond for edge probes, never decreasing).
"""
from __future__ import annotations

import math
import random

from ..kernel import Kernel
from ..patching import Patches, patch_module_time_threading
from ..result import finish
from .. import refdcc as ref

from flexstack.management import dcc_reactive as DR
from flexstack.management import dcc_adaptive as DA

ID = "C19"
ENGINE = "dcc"
RUNS = {"quick": 100_000, "thorough": 3_000_000}
DOUBLE = {"quick": 256, "thorough": 4000}
RULE_TEXT = ("one run = one seeded plan of 15-90 timed ops on a virtual clock (start 0, <1000 s, or a 2026 Unix time): CBR samples "
             "(random walk snapped to Annex A band boundaries +-1 ulp, plateaus of 4-9 equal samples, spikes, boundary tours, "
             "values outside [0,1] / NaN / inf in half of the runs) fed to 1-3 DccReactive instances (default / keyword / positional "
             "constructor, T_on 1..1000 us -> both tables) and one DccAdaptive (Table 3 defaults, partial or random parameters with "
             "delta_min <= delta_max, optional global CBR); packets with periodic / Poisson / saturating / sparse / bursty arrivals and "
             "air-times 1 us .. 40 ms offered to one GateKeeper, delta updates (from the adaptive algorithm, multiplicative jumps, "
             "absolute) at arbitrary instants, is_open/admit/update probes placed -5 ms .. +1 ms (down to 2 ns) around the predicted "
             "opening instant; non-trivial = at least one evaluation or gate decision was judged; distinct = distinct abstract traces "
             "(per op: kind, CBR band, reactive states, adaptive offset/clamp class, gate decision and B.1/B.2 situation)")
COMPONENTS = {"real": ["management.dcc_reactive.DccReactive", "management.dcc_adaptive.DccAdaptive",
                       "management.dcc_adaptive.DccAdaptiveParameters", "management.dcc_adaptive.GateKeeper"],
              "stub": ["virtual clock (Kernel)", "channel-load process", "packet source", "delta update schedule"]}
ASSUMPTIONS = [
    "ETSI TS 102 687 V1.2.1 was not available as a file; the reference was written from memory of the standard, the citations in "
    "the docstrings and the property statement",
    "Annex A CBR bands are read as printed in per cent (<30, 30-39, 40-49, 50-X, >Y): values in the unassigned open intervals "
    "(0.39,0.40) and (0.49,0.50) and the exact value 0.65 are accepted in either neighbouring state",
    "Table A.1 upper bound of Active 3: the code uses 0.60 (pinned by tests/flexstack/management/test_dcc_reactive.py), my memory of "
    "the standard says 65 % for both tables; unverifiable here, so for Table A.1 every CBR in (0.59, 0.65] is accepted as Active 3 or "
    "Restrictive (probe reactive:relax:a1-upper-boundary-uncertain counts how often)",
    "convergence is judged only on exactly constant input (>= 4 equal consecutive valid samples), at the 4th and every later sample",
    "packet rate / T_off are compared with the Annex A row of the state the evaluation returns, at every evaluation",
    "T_on_max in (500,1000] us selects Table A.1, <= 500 us Table A.2; larger values are not generated",
    "adaptive: initial delta and CBR_ITS-S are read from the object after construction (the standard does not fix them); the initial "
    "delta must lie in [delta_min, delta_max]; CBR_G replaces the local pair only when both global values are given (only both-or-none "
    "is generated, global values always inside [0,1]); parameters are generated with alpha in [1e-3,0.5], delta_min > 0, G+max > 0 > G-max",
    "adaptive: 'rejects' = update() raises and the rejected sample does not influence later deltas; only local CBR arguments "
    "(cbr_local, cbr_local_previous) are offered out of range, as the statement says 'local'",
    "invalid CBR offered to the reactive machine is only checked for |delta state| <= 1 (the statement demands no rejection there)",
    "gate: B.2 taken as t_pg + min(max(delta_old/delta_new*(t_go-t_pg),0.025),1) from the docstring citation; the reading 'B.1 with "
    "the new delta' is tracked (probe gate:b2-forms-differ) but not accepted: the statement says 'exactly' (seeded breakage C19c)",
    "gate tolerance: 1 ns plus the float rounding of absolute times (8 ulp of t_go, and the ulp error B.2 amplifies by delta_old/delta_new); "
    "at 2026 Unix times one ulp is 238 ns, so nanosecond probes are decisive only in the runs whose clock starts below 1000 s",
    "a delta update falling inside the tolerance zone of the opening instant makes the gate state unknown until the next admission "
    "(only the 25 ms / 1 s bounds are judged meanwhile)",
    "time passed to the gate never decreases; air-times are > 0 and deltas in (0,1]",
]
EXPECTED_PROBES = [
    "reactive:table-A1", "reactive:table-A2", "reactive:boundary-hit", "reactive:plateau-judged", "reactive:plateau-from-far",
    "reactive:relax:a1-upper-boundary-uncertain", "reactive:relax:gap", "reactive:invalid-offered",
    "adaptive:clamp-min", "adaptive:clamp-max", "adaptive:offset-clamp-up", "adaptive:offset-clamp-down", "adaptive:offset-linear",
    "adaptive:global-used", "adaptive:invalid-offered", "adaptive:invalid-rejected", "adaptive:equal-min-max",
    "gate:b1-lin", "gate:b1-min-clamp", "gate:b1-max-clamp", "gate:b2-executed", "gate:b2-min-clamp", "gate:b2-max-clamp",
    "gate:b2-forms-differ", "gate:offered-while-closed", "gate:admitted", "gate:edge-strict-closed", "gate:edge-strict-open",
    "gate:edge-ns-strict", "gate:same-instant-offer", "gate:delta-while-open", "gate:closed-1s-checked",
]

INF = float("inf")
CTORS = [None, 1000, 999, 750, 501, 500, 499, 250, 100, 1]
INVALID = ["nan", "inf", "-inf", -5e-324, -1e-9, -0.25, -1.0, -1e9, math.nextafter(1.0, 2.0), 1.000001, 1.5, 2.0, 1e9]
EDGE_NS = [-5_000_000, -1_000_000, -50_000, -2_000, -1_000, -100, -20, -5, -2, 0, 2, 5, 20, 100, 1_000, 2_000, 50_000, 1_000_000]
MAX_VIOLATIONS = 40


def _enc(v):
    if isinstance(v, str):
        return v
    if v != v:
        return "nan"
    if v == INF:
        return "inf"
    if v == -INF:
        return "-inf"
    return v


def _dec(x):
    return float(x)


def _logu(r, lo, hi):
    return math.exp(r.uniform(math.log(lo), math.log(hi)))


# ============================================================================================ plan
def _snap(r, x=None):
    reps = ref.BOUNDARY_REPRESENTATIVES
    b = min(reps, key=lambda q: abs(q - x)) if (x is not None and r.random() < 0.5) else r.choice(reps)
    k = r.choice([-1, 0, 0, 1])
    v = b
    if k:
        v = math.nextafter(b, INF if k > 0 else -INF)
        if r.random() < 0.15:
            v = math.nextafter(v, INF if k > 0 else -INF)
    return min(1.0, max(0.0, v))


def _cbr_values(r, n, kn):
    """The channel-load process: list of sample values (floats or encoded invalid values)."""
    out = []
    x = r.random()
    mode = kn["cbr_mode"]
    while len(out) < n:
        if kn["p_inv"] and r.random() < kn["p_inv"]:
            out.append(r.choice(INVALID))
            continue
        c = r.random()
        if mode == "tour":
            # plateaus at boundary representatives, often approached from the far end of the table
            if r.random() < 0.4:
                far = r.choice([0.0, 1.0, 0.0, 1.0, r.random()])
                out.extend([far] * r.randint(1, 5))
            v = _snap(r) if r.random() < 0.8 else r.random()
            out.extend([v] * r.randint(4, 7))
            x = v
            continue
        if c < kn["p_plateau"]:
            v = _snap(r, x) if r.random() < kn["p_snap"] else x
            out.extend([v] * r.randint(4, 9))
            x = v
        elif c < kn["p_plateau"] + kn["p_spike"]:
            x = r.choice([0.0, 1.0, r.random(), r.random()])
            out.append(x)
        else:
            x += r.gauss(0.0, kn["sd"])
            while x < 0.0 or x > 1.0:
                x = -x if x < 0.0 else 2.0 - x
            out.append(_snap(r, x) if r.random() < kn["p_snap"] else x)
    return out[:n + 6]


def _cbr_ops(r, n, kn):
    ops = []
    prev_valid = None
    for v in _cbr_values(r, n, kn):
        op = {"op": "cbr", "dt": r.choice(kn["cbr_dt"]), "v": _enc(v)}
        c = r.random()
        if kn["p_inv"] and c < kn["p_inv"] * 0.5:
            op["prev"] = r.choice(INVALID)
        elif prev_valid is None or c > 0.93:
            op["prev"] = r.random() if r.random() < 0.5 else (v if not isinstance(v, str) and 0.0 <= v <= 1.0 else 0.5)
        else:
            op["prev"] = prev_valid
        if r.random() < kn["p_global"]:
            op["g"] = r.choice([r.random(), r.random(), 0.0, 1.0, _snap(r)])
            op["gp"] = r.choice([r.random(), op["g"]])
        if not isinstance(v, str) and 0.0 <= v <= 1.0:
            prev_valid = v
        ops.append(op)
    return ops


def _t_on(r, kn):
    c = r.choice(kn["air"])
    if c == "short":
        return round(_logu(r, 30, 500), 3)
    if c == "typical":
        return round(_logu(r, 200, 2000), 3)
    if c == "long":
        return round(_logu(r, 1000, 6000), 3)
    return r.choice([1.0, 5.0, 12000.0, 40000.0])


def _gate_groups(r, n, kn):
    """Groups of gate ops; a group is never split by CBR ops (edge probes stay next to their packet)."""
    groups = []
    pat = kn["arrival"]
    period = int(_logu(r, 5_000, 1_500_000))
    for _ in range(n):
        p = pat if pat != "mixed" else r.choice(["periodic", "poisson", "saturate", "sparse", "bursty"])
        if p == "periodic":
            dt = max(0, period + r.randint(-period // 20, period // 20))
        elif p == "poisson":
            dt = int(r.expovariate(1.0 / period))
        elif p == "saturate":
            dt = r.randint(200, 8000)
        elif p == "sparse":
            dt = r.randint(900_000, 2_500_000)
        else:
            dt = r.choice([0, 0, r.randint(0, 3000), r.randint(20_000, 1_200_000)])
        c = r.random()
        g = []
        if c < kn["p_delta"]:
            g.append(_delta_op(r, dt))
        elif c < kn["p_delta"] + kn["p_query"]:
            g.append({"op": "query", "dt": dt})
        else:
            g.append({"op": "pkt", "dt": dt, "t_on_us": _t_on(r, kn)})
            if p == "bursty" or r.random() < 0.15:
                for _ in range(r.choice([1, 1, 2, 3])):
                    g.append({"op": "pkt", "dt": r.choice([0, 0, 0, 1, 50]), "t_on_us": _t_on(r, kn)})
            if r.random() < kn["p_delta_closed"]:
                g.append(_delta_op(r, r.choice([0, r.randint(1, 20_000), r.randint(1, 300_000)])))
            if r.random() < kn["p_edge"]:
                offs = sorted(r.choice(EDGE_NS) for _ in range(r.choice([1, 2, 2, 3, 4])))
                for off in offs:
                    k = r.random()
                    if k < 0.65:
                        g.append({"op": "edge", "off_ns": off, "do": "query"})
                    elif k < 0.85:
                        g.append({"op": "edge", "off_ns": off, "do": "pkt", "t_on_us": _t_on(r, kn)})
                    else:
                        d = _delta_op(r, 0)
                        if abs(off) < 50_000:        # keep delta updates out of the tolerance zone of the opening instant
                            off = -50_000 if off <= 0 else 50_000
                        d.update({"op": "edge", "off_ns": off, "do": "delta"})
                        del d["dt"]
                        g.append(d)
            if r.random() < 0.1:
                g.append({"op": "query", "dt": r.choice([1_000_001, 1_000_100, 1_010_000, 999_000])})
        groups.append(g)
    return groups


def _delta_op(r, dt):
    c = r.random()
    if c < 0.45:
        return {"op": "delta", "dt": dt, "src": "adaptive"}
    if c < 0.85:
        return {"op": "delta", "dt": dt, "mul": round(_logu(r, 1 / 40.0, 40.0), 6) if r.random() < 0.7 else round(r.uniform(0.8, 1.25), 6)}
    return {"op": "delta", "dt": dt, "v": round(_logu(r, 2e-4, 0.5), 8)}


def _adaptive_params(r):
    c = r.random()
    if c < 0.25:
        return None, "default"
    if c < 0.35:
        return dict(ref.TABLE3), "table3"
    if c < 0.5:
        full = _random_params(r)
        keys = r.sample(sorted(full), r.randint(1, 3))
        part = {k: full[k] for k in sorted(keys)}
        merged = dict(ref.TABLE3)
        merged.update(part)
        if merged["delta_min"] > merged["delta_max"]:
            part = {k: v for k, v in part.items() if k not in ("delta_min", "delta_max")}
            if not part:
                part = {"cbr_target": full["cbr_target"]}
        return part, "partial"
    return _random_params(r), "custom"


def _random_params(r):
    dmin = _logu(r, 1e-5, 0.05)
    c = r.random()
    if c < 0.15:
        dmax = dmin
    elif c < 0.5:
        dmax = dmin * r.uniform(1.0, 3.0)
    else:
        dmax = dmin * _logu(r, 1.0, 1000.0)
    dmax = min(dmax, 1.0)
    return {"alpha": _logu(r, 1e-3, 0.5), "beta": _logu(r, 1e-4, 0.05), "cbr_target": r.uniform(0.05, 0.95),
            "delta_max": dmax, "delta_min": dmin, "delta_up_max": _logu(r, 1e-6, 1e-2), "delta_down_max": -_logu(r, 1e-6, 1e-2)}


def gen_plan(run_seed: int, tier: str) -> dict:
    r = random.Random(run_seed)
    c = r.random()
    if c < 0.35:
        t0, t0c = 0, "zero"
    elif c < 0.7:
        t0, t0c = r.randrange(0, 1_000_000_000), "small"
    else:
        t0, t0c = 1_767_225_600_000_000 + r.randrange(0, 86_400_000_000), "epoch"
    focus = r.choice(["reactive", "gate", "mixed", "mixed", "adaptive"])
    trig = r.random() < 0.5                      # finding-trigger knob: out-of-range CBR only in half of the runs
    kn = {
        "cbr_mode": r.choice(["walk", "walk", "tour", "tour"]) if focus != "gate" else "walk",
        "p_inv": r.choice([0.03, 0.15]) if trig else 0.0,
        "p_plateau": r.choice([0.05, 0.15, 0.3]), "p_spike": r.choice([0.0, 0.05, 0.2]), "p_snap": r.choice([0.1, 0.4, 0.9]),
        "sd": r.choice([0.005, 0.03, 0.1, 0.3]),
        "cbr_dt": r.choice([[100_000], [200_000], [0, 100, 10_000], [0, 1000, 100_000, 200_000]]),
        "p_global": r.choice([0.0, 0.0, 0.2, 1.0]),
        "arrival": r.choice(["periodic", "poisson", "saturate", "sparse", "bursty", "mixed", "mixed"]),
        "air": r.choice([["short"], ["typical"], ["long"], ["short", "typical", "long"], ["typical", "extreme"], ["short", "extreme", "long"]]),
        "p_delta": r.choice([0.0, 0.1, 0.3]), "p_query": r.choice([0.05, 0.2]), "p_delta_closed": r.choice([0.0, 0.2, 0.6]),
        "p_edge": r.choice([0.1, 0.4, 0.8]),
    }
    n_react = r.choice([1, 2, 2, 3])
    reactive = []
    for i in range(n_react):
        ct = r.choice(CTORS)
        if i == 1 and reactive[0]["ctor"] is not None and ct is not None and (ct <= 500) == (reactive[0]["ctor"] <= 500):
            ct = r.choice([500, 250]) if reactive[0]["ctor"] > 500 else r.choice([1000, 501])
        reactive.append({"ctor": ct, "form": r.choice(["kw", "pos"])})
    prm, pclass = _adaptive_params(r)
    cfg = {"t0_us": t0, "t0_class": t0c, "focus": focus, "knobs": kn, "reactive": reactive,
           "adaptive": prm, "adaptive_class": pclass, "adaptive_form": r.choice(["kw", "pos"]),
           "gate_delta0": "adaptive" if r.random() < 0.5 else round(_logu(r, 2e-4, 0.3), 8), "gate_form": r.choice(["kw", "pos"]),
           "out_of_range_cbr": trig}
    if focus == "reactive":
        n_c, n_g = r.randint(15, 60), r.randint(0, 4)
    elif focus == "adaptive":
        n_c, n_g = r.randint(25, 80), r.randint(0, 6)
    elif focus == "gate":
        n_c, n_g = r.randint(0, 8), r.randint(8, 30)
    else:
        n_c, n_g = r.randint(8, 35), r.randint(4, 18)
    cops = _cbr_ops(r, n_c, kn) if n_c else []
    groups = _gate_groups(r, n_g, kn) if n_g else []
    ops = []
    ci = gi = 0
    while ci < len(cops) or gi < len(groups):
        rem_c, rem_g = len(cops) - ci, len(groups) - gi
        if rem_g == 0 or (rem_c and r.random() < rem_c / (rem_c + rem_g)):
            ops.append(cops[ci])
            ci += 1
        else:
            ops.extend(groups[gi])
            gi += 1
    return {"engine": ENGINE, "property": ID, "config": cfg, "ops": ops}


# ============================================================================================ simulation + oracle
def _sidx(state):
    name = getattr(state, "name", None)
    return ref.STATES.index(name) if name in ref.STATES else None


def _inv_class(v):
    if v != v:
        return "nan"
    if v in (INF, -INF):
        return "inf"
    return "neg" if v < 0.0 else "gt1"


class DccSim:
    def __init__(self, plan):
        self.plan = plan
        cfg = plan["config"]
        self.cfg = cfg
        self.kernel = Kernel(int(cfg["t0_us"]), max_events=100_000)
        self.violations = []
        self.probes = {}
        self.faults = {}
        self.trace = []
        self.judged = 0
        self.last_t = self.kernel.time()
        self.reactive = []
        self.adaptive = None
        self.gate = None

    # ----------------------------------------------------------------- bookkeeping
    def probe(self, name, n=1):
        self.probes[name] = self.probes.get(name, 0) + n

    def violate(self, rule, key, detail):
        if len(self.violations) < MAX_VIOLATIONS:
            self.violations.append({"property": ID, "rule": rule, "key": key, "detail": detail})

    def now(self, refined=None):
        t = self.kernel.time() if refined is None else refined
        if t < self.last_t:
            t = self.last_t
        self.last_t = t
        return t

    # ----------------------------------------------------------------- construction (code under test)
    def build(self):
        cfg = self.cfg
        for i, spec in enumerate(cfg["reactive"]):
            ct = spec["ctor"]
            table = ref.table_for(ct)
            if table is None:
                raise ValueError("plan asks for a T_on outside both Annex A tables")
            try:
                if ct is None:
                    obj = DR.DccReactive()
                elif spec["form"] == "pos":
                    obj = DR.DccReactive(ct)
                else:
                    obj = DR.DccReactive(t_on_max_us=ct)
                st = _sidx(obj.state)
            except Exception as e:  # noqa: BLE001 - code under test
                self.violate("reactive-output", f"{table}/ctor-raised/{type(e).__name__}", f"DccReactive({ct!r}) raised {e!r}")
                continue
            self.probe("reactive:table-" + table)
            self.reactive.append({"obj": obj, "table": table, "state": st, "last_v": None, "run": 0, "start": st, "i": i})
        prm = cfg["adaptive"]
        pclass = cfg["adaptive_class"]
        full = dict(ref.TABLE3)
        if prm:
            full.update(prm)
        if full["delta_min"] > full["delta_max"]:
            raise ValueError("plan violates delta_min <= delta_max")
        try:
            if prm is None:
                alg = DA.DccAdaptive()
            else:
                pobj = DA.DccAdaptiveParameters(**prm)
                alg = DA.DccAdaptive(pobj) if cfg["adaptive_form"] == "pos" else DA.DccAdaptive(parameters=pobj)
            d0, c0 = float(alg.delta), float(alg.cbr_its_s)
        except Exception as e:  # noqa: BLE001
            self.violate("adaptive-delta", f"{pclass}/ctor-raised/{type(e).__name__}", f"DccAdaptive construction raised {e!r}")
            alg = None
        if alg is not None:
            if not (full["delta_min"] <= d0 <= full["delta_max"]):
                self.violate("adaptive-range", f"{pclass}/initial", f"initial delta {d0!r} outside [{full['delta_min']!r}, {full['delta_max']!r}]")
            if full["delta_min"] == full["delta_max"]:
                self.probe("adaptive:equal-min-max")
            self.adaptive = {"obj": alg, "ref": ref.RefLimeric(full, d0, c0), "full": full, "pclass": pclass, "last": d0}
        g0 = cfg["gate_delta0"]
        if g0 == "adaptive":
            g0 = self.adaptive["last"] if self.adaptive and 0.0 < self.adaptive["last"] <= 1.0 else ref.TABLE3["delta_min"]
        g0 = float(g0)
        try:
            gk = DA.GateKeeper(g0) if cfg["gate_form"] == "pos" else DA.GateKeeper(delta=g0)
        except Exception as e:  # noqa: BLE001
            self.violate("gate-late", f"ctor-raised/{type(e).__name__}", f"GateKeeper({g0!r}) raised {e!r}")
            gk = None
        if gk is not None:
            self.gate = {"obj": gk, "ref": ref.RefGate(g0), "last_admit": None}

    # ----------------------------------------------------------------- run
    def run(self):
        k = self.kernel
        with Patches() as p:
            p.mute_stdout()
            mods = [m for m in (DR, DA) if any(n in m.__dict__ for n in ("time", "threading", "random"))]
            if mods:      # no clock / PRNG is imported by these modules today; owned if that ever changes
                patch_module_time_threading(p, k, mods, seed=0)
            self.build()
            for i, op in enumerate(self.plan["ops"]):
                kind = op["op"]
                refined = None
                if kind == "edge":
                    us, refined = self._edge_time(op)
                else:
                    us = k.now_us + int(op.get("dt", 0))
                k.call_at(us, self._exec, i, op, refined, kind="op", cause=("op", i))
                k.run(max(us, k.now_us))
            self._final()

    def _edge_time(self, op):
        k = self.kernel
        g = self.gate
        go = g["ref"].primary_go() if g is not None and not g["ref"].unknown else None
        if go is None:
            self.probe("gate:edge-fallback")
            return k.now_us, None
        target = go + op["off_ns"] * 1e-9
        if target < self.last_t:
            self.probe("gate:edge-fallback")
            return k.now_us, None
        us = int(math.floor(target * 1e6))
        if us < k.now_us:
            us = k.now_us
        if us / 1e6 > target:          # float rounding of the product; keep kernel time <= refined time
            us -= 1
        return max(us, k.now_us), target

    def _exec(self, i, op, refined):
        kind = op["op"]
        if kind == "cbr":
            self._op_cbr(i, op)
        else:
            if self.gate is None:
                return
            t = self.now(refined)
            do = op.get("do", kind)
            if do == "pkt":
                self._op_pkt(i, op, t, edge=(kind == "edge"))
            elif do == "query":
                self._op_query(i, op, t, edge=(kind == "edge"))
            elif do == "delta":
                self._op_delta(i, op, t)
            else:
                raise ValueError(f"unknown op {op!r}")

    # ----------------------------------------------------------------- CBR sample -> reactive + adaptive
    def _op_cbr(self, i, op):
        v = _dec(op["v"])
        valid = ref.valid_cbr(v)
        rstates = []
        for inst in self.reactive:
            rstates.append(self._reactive_eval(i, inst, v, valid))
        atok = self._adaptive_eval(i, op, v) if self.adaptive is not None else "-"
        band = ref.band_states("A2", v)[0] if valid else ("inv",)
        self.trace.append(("c", "".join(map(str, band)), "".join("x" if s is None else str(s) for s in rstates), atok))
        self.kernel.record("cbr", i, op["v"], tuple(rstates), atok)

    def _reactive_eval(self, i, inst, v, valid):
        table = inst["table"]
        prev = inst["state"]
        out = exc = None
        try:
            out = inst["obj"].update(v)
        except Exception as e:  # noqa: BLE001 - code under test, judged below
            exc = e
        try:
            attr_idx = _sidx(inst["obj"].state)
        except Exception:  # noqa: BLE001
            attr_idx = None
        new = _sidx(getattr(out, "state", None)) if out is not None else attr_idx
        if out is not None and new is None:
            self.violate("reactive-output", f"{table}/unknown-state", f"op {i}: update({v!r}) returned state {getattr(out, 'state', None)!r}")
            new = attr_idx
        if out is not None and attr_idx is not None and new != attr_idx:
            self.probe("reactive:state-attr-differs")
        self.judged += 1
        if prev is not None and new is not None and abs(new - prev) > 1:
            self.violate("reactive-jump", f"{table}/{'up' if new > prev else 'down'}",
                         f"op {i}: table {table} CBR {v!r} moved {ref.STATES[prev]} -> {ref.STATES[new]} in one evaluation")
        if new is not None:
            inst["state"] = new
        if not valid:
            self.probe("reactive:invalid-offered")
            if exc is not None:
                self.probe("reactive:invalid-rejected")
            inst["run"], inst["last_v"] = 0, None
            return new
        if exc is not None:
            self.violate("reactive-output", f"{table}/raised/{type(exc).__name__}", f"op {i}: update({v!r}) raised {exc!r}")
            inst["run"], inst["last_v"] = 0, None
            return new
        if any(abs(v - b) <= 2.3e-16 for b in ref.BOUNDARY_REPRESENTATIVES):
            self.probe("reactive:boundary-hit")
        # output row of the returned state
        if new is not None:
            rate, toff = ref.ROWS[table][new]
            try:
                got_rate, got_toff = float(out.packet_rate_hz), float(out.t_off_ms)
            except Exception as e:  # noqa: BLE001
                got_rate = got_toff = float("nan")
            if not abs(got_rate - rate) <= 1e-9:
                self.violate("reactive-output", f"{table}/{ref.STATES[new]}/rate",
                             f"op {i}: table {table} state {ref.STATES[new]} output rate {got_rate!r} Hz, Annex A says {rate!r}")
            if not abs(got_toff - toff) <= 1e-9:
                self.violate("reactive-output", f"{table}/{ref.STATES[new]}/t_off",
                             f"op {i}: table {table} state {ref.STATES[new]} output T_off {got_toff!r} ms, Annex A says {toff!r}")
        # plateau bookkeeping and convergence
        if inst["last_v"] is not None and v == inst["last_v"]:
            inst["run"] += 1
        else:
            inst["run"], inst["last_v"], inst["start"] = 1, v, prev
        if inst["run"] >= 4 and new is not None:
            want, relax = ref.band_states(table, v)
            self.probe("reactive:plateau-judged")
            if relax:
                self.probe("reactive:relax:" + ("gap" if relax.startswith("gap") else relax))
            if inst["run"] == 4 and inst["start"] is not None and min(abs(inst["start"] - w) for w in want) >= 3:
                self.probe("reactive:plateau-from-far")
            if new not in want:
                names = "|".join(ref.STATES[w] for w in want)
                self.violate("reactive-convergence", f"{table}/want={names}/got={ref.STATES[new]}",
                             f"op {i}: table {table} constant CBR {v!r} for {inst['run']} evaluations (from {ref.STATES[inst['start']] if inst['start'] is not None else '?'}) "
                             f"ended in {ref.STATES[new]}, band state is {names}")
        return new

    def _adaptive_eval(self, i, op, v):
        a = self.adaptive
        alg, rl, full, pclass = a["obj"], a["ref"], a["full"], a["pclass"]
        pv = _dec(op["prev"])
        g = op.get("g")
        gp = op.get("gp")
        bad = [(n, x) for n, x in (("cbr_local", v), ("cbr_local_previous", pv)) if not ref.valid_cbr(x)]
        if a.get("dead"):
            # the implementation's state could not be followed after an earlier violation (e.g. NaN absorbed):
            # keep driving it (the gate may take its delta) but judge nothing more - one defect, one signature
            try:
                out = alg.update(cbr_local=v, cbr_local_previous=pv) if g is None else \
                    alg.update(cbr_local=v, cbr_local_previous=pv, cbr_global=g, cbr_global_previous=gp)
                if isinstance(out, float) and 0.0 < out <= 1.0:
                    a["last"] = out
            except Exception:  # noqa: BLE001
                pass
            self.probe("adaptive:not-judged-after-violation")
            return "dead"
        out = exc = None
        try:
            if g is None:
                out = alg.update(v, pv) if (i % 2) else alg.update(cbr_local=v, cbr_local_previous=pv)
            else:
                out = alg.update(cbr_local=v, cbr_local_previous=pv, cbr_global=g, cbr_global_previous=gp)
        except Exception as e:  # noqa: BLE001 - judged below
            exc = e
        self.judged += 1
        if bad:
            self.probe("adaptive:invalid-offered")
            if exc is not None:
                self.probe("adaptive:invalid-rejected")
                return "rej"
            n, x = bad[0]
            self.violate("adaptive-accepts-invalid-cbr", f"{n}/{_inv_class(x)}",
                         f"op {i}: update(cbr_local={v!r}, cbr_local_previous={pv!r}) returned {out!r} instead of rejecting {n}")
            self._adaptive_resync(out)
            return "acc-inv"
        if exc is not None:
            self.violate("adaptive-delta", f"{pclass}/raised/{type(exc).__name__}", f"op {i}: update({v!r}, {pv!r}, {g!r}, {gp!r}) raised {exc!r}")
            return "raised"
        want, oc, cc = rl.step(v, pv, g, gp)
        src = "global" if g is not None else "local"
        if g is not None:
            self.probe("adaptive:global-used")
        self.probe({"lin": "adaptive:offset-linear", "g+": "adaptive:offset-clamp-up", "g-": "adaptive:offset-clamp-down"}[oc])
        if cc != "none":
            self.probe("adaptive:clamp-" + cc)
        try:
            got = float(out)
        except Exception:  # noqa: BLE001
            got = float("nan")
        if not (full["delta_min"] <= got <= full["delta_max"]):
            cls = "nan" if got != got else ("below-min" if got < full["delta_min"] else "above-max")
            self.violate("adaptive-range", f"{'table3' if pclass in ('default', 'table3') else 'custom'}/{cls}", f"op {i}: delta {got!r} outside [{full['delta_min']!r}, {full['delta_max']!r}]")
        tol = 1e-12 + 1e-12 * abs(want)
        if not abs(got - want) <= tol:
            try:
                cbr_ok = abs(float(alg.cbr_its_s) - rl.cbr) <= 1e-12
            except Exception:  # noqa: BLE001
                cbr_ok = True
            step = "step1-cbr-smoothing" if not cbr_ok else "step4-5-delta-clamp" if cc != "none" else \
                "step2-offset-clamp" if oc != "lin" else "step2-3-linear"
            self.violate("adaptive-delta", f"{'table3' if pclass in ('default', 'table3') else 'custom'}/{step}",
                         f"op {i}: delta {got!r}, clause 5.4 gives {want!r} (diff {got - want!r}; CBR_ITS-S ref {rl.cbr!r}, offset class {oc}, clamp {cc})")
            self._adaptive_resync(out)
        if got == got and 0.0 < got <= 1.0:
            a["last"] = got
        return f"{src[0]}{oc}{cc[:2]}"

    def _adaptive_resync(self, out):
        """After a disagreement follow the implementation so that one defect does not flood the run."""
        a = self.adaptive
        try:
            d, c = float(out), float(a["obj"].cbr_its_s)
        except Exception:  # noqa: BLE001
            a["dead"] = True
            return
        if d == d and c == c and abs(d) != INF and abs(c) != INF:
            a["ref"].delta, a["ref"].cbr = d, c
        else:
            a["dead"] = True

    # ----------------------------------------------------------------- gate keeper
    def _judge_gate(self, i, t, what, got_open, verdict):
        """Compare one is_open / admit decision with the reference verdict.  Returns True if a violation was recorded."""
        g = self.gate
        rg = g["ref"]
        self.judged += 1
        la = g["last_admit"]
        if verdict == "closed":
            self.probe("gate:offered-while-closed" if what == "admit" else "gate:queried-while-closed")
            if got_open:
                lo, hi, tol = rg.window()
                if what == "admit" and la is not None and t - la < ref.T_MIN - tol:
                    self.violate("gate-double-admit", "same-instant" if t - la <= 1e-6 else "lt-25ms",
                                 f"op {i}: packet admitted at t={t!r}, {t - la!r} s after the admission at {la!r} (gate opens at {lo!r}, {rg.sit})")
                else:
                    self.violate("gate-early", rg.sit, f"op {i}: {what} at t={t!r} found the gate open {lo - t!r} s before t_go={lo!r} "
                                                       f"(t_pg={rg.t_pg!r}, {rg.sit}, delta={rg.delta!r})")
                return True
        elif verdict == "open":
            if not got_open:
                if rg.t_pg is None:
                    self.violate("gate-late", "initial", f"op {i}: {what} at t={t!r}: gate closed before any admission")
                else:
                    lo, hi, tol = rg.window()
                    key = "closed>1s" if t - rg.t_pg > ref.T_MAX + tol else rg.sit
                    self.violate("gate-late", key, f"op {i}: {what} at t={t!r} found the gate closed {t - hi!r} s after t_go={hi!r} "
                                                   f"(t_pg={rg.t_pg!r}, {rg.sit}, delta={rg.delta!r})")
                return True
        else:
            self.probe("gate:within-tolerance-or-unknown")
            # hard bounds of the statement still apply
            if la is not None:
                slack = 1e-9 + 8.0 * math.ulp(t)
                if got_open and what == "admit" and t - la < ref.T_MIN - slack:
                    self.violate("gate-double-admit", "same-instant" if t - la <= 1e-6 else "lt-25ms",
                                 f"op {i}: packet admitted at t={t!r}, only {t - la!r} s after the admission at {la!r}")
                    return True
                if not got_open and t - la > ref.T_MAX + slack:
                    self.violate("gate-late", "closed>1s", f"op {i}: gate still closed at t={t!r}, {t - la!r} s after the admission at {la!r}")
                    return True
        return False

    def _edge_probe(self, verdict, t, edge):
        if not edge:
            return
        rg = self.gate["ref"]
        if verdict in ("closed", "open"):
            self.probe("gate:edge-strict-" + verdict)
            w = rg.window()
            if w is not None and min(abs(t - w[0]), abs(t - w[1])) < 1e-6:
                self.probe("gate:edge-ns-strict")

    def _op_query(self, i, op, t, edge=False):
        g = self.gate
        rg = g["ref"]
        verdict = rg.verdict(t)
        if g["last_admit"] is not None and t - g["last_admit"] > ref.T_MAX:
            self.probe("gate:closed-1s-checked")
        try:
            got = bool(g["obj"].is_open(t))
        except Exception as e:  # noqa: BLE001
            self.violate("gate-late", f"raised/{type(e).__name__}", f"op {i}: is_open({t!r}) raised {e!r}")
            return
        self._edge_probe(verdict, t, edge)
        self._judge_gate(i, t, "is_open", got, verdict)
        self.trace.append(("q", verdict[0], int(got), rg.sit))
        self.kernel.record("query", i, t, got, verdict)

    def _op_pkt(self, i, op, t, edge=False):
        g = self.gate
        rg = g["ref"]
        t_on = float(op["t_on_us"]) / 1e6
        verdict = rg.verdict(t)
        if g["last_admit"] is not None and t - g["last_admit"] <= 1e-6:
            self.probe("gate:same-instant-offer")
        if g["last_admit"] is not None and t - g["last_admit"] > ref.T_MAX:
            self.probe("gate:closed-1s-checked")
        try:
            q = bool(g["obj"].is_open(t))
            got = bool(g["obj"].admit_packet(t, t_on)) if (i % 2) else bool(g["obj"].admit_packet(t=t, t_on=t_on))
        except Exception as e:  # noqa: BLE001
            self.violate("gate-late", f"raised/{type(e).__name__}", f"op {i}: admit_packet({t!r}, {t_on!r}) raised {e!r}")
            return
        self._edge_probe(verdict, t, edge)
        flagged = self._judge_gate(i, t, "admit", got, verdict)
        if q != got and not flagged:
            # is_open() and admit_packet() at the same instant must agree with the same reference verdict
            self._judge_gate(i, t, "is_open", q, verdict)
        if got:
            cls = rg.admitted(t, t_on)      # follow the implementation (also after a violation: no cascade)
            g["last_admit"] = t
            self.probe("gate:admitted")
            self.probe("gate:b1-" + cls)
        self.trace.append(("p", verdict[0], int(got), rg.sit))
        self.kernel.record("pkt", i, t, t_on, got, verdict)

    def _op_delta(self, i, op, t):
        g = self.gate
        rg = g["ref"]
        if op.get("src") == "adaptive":
            d = self.adaptive["last"] if self.adaptive is not None else rg.delta
        elif "mul" in op:
            d = rg.delta * float(op["mul"])
        else:
            d = float(op["v"])
        d = min(1.0, max(1e-6, d))
        try:
            if i % 2:
                g["obj"].update_delta(t, d)
            else:
                g["obj"].update_delta(t=t, delta_new=d)
        except Exception as e:  # noqa: BLE001
            self.violate("gate-late", f"update-raised/{type(e).__name__}", f"op {i}: update_delta({t!r}, {d!r}) raised {e!r}")
            return
        tag = rg.delta_update(t, d)
        if tag == "open":
            self.probe("gate:delta-while-open")
        elif tag == "unknown":
            self.probe("gate:delta-in-tolerance-zone")
        else:
            self.probe("gate:b2-executed")
            cls = tag.split(":")[1]
            if cls != "lin":
                self.probe("gate:b2-" + cls)
            if rg.iv_r != rg.iv_d and abs(rg.iv_r - rg.iv_d) > 1e-9:
                self.probe("gate:b2-forms-differ")
            if rg.t_pg + max(rg.iv_r, rg.iv_d) <= t:
                self.probe("gate:b2-opens-at-once")
        self.trace.append(("d", tag.split(":")[0], rg.sit))
        self.kernel.record("delta", i, t, d, tag)

    def _final(self):
        """'never stays closed longer than 1 s after an admission': one last look 1 s + 1 ms after the last admission."""
        g = self.gate
        if g is None or g["last_admit"] is None:
            return
        k = self.kernel
        target = g["last_admit"] + ref.T_MAX + 0.001
        us = int(math.ceil(target * 1e6))
        if us <= k.now_us:
            return
        k.run(us)
        t = self.now()
        if t - g["last_admit"] <= ref.T_MAX:
            return
        self.probe("gate:closed-1s-checked")
        try:
            got = bool(g["obj"].is_open(t))
        except Exception as e:  # noqa: BLE001
            self.violate("gate-late", f"raised/{type(e).__name__}", f"final: is_open({t!r}) raised {e!r}")
            return
        self._judge_gate(len(self.plan["ops"]), t, "is_open", got, g["ref"].verdict(t))
        k.record("final", t, got)


def execute(plan: dict) -> dict:
    sim = DccSim(plan)
    try:
        sim.run()
    finally:
        sim.kernel.shutdown()
    return finish(sim, sim.trace, nontrivial=sim.judged > 0)


# ============================================================================================ extra shrinking
# (the runner re-calls every shrinker with the best plan so far; each shrinker offers alternatives for ONE knob)
def _with_cfg(plan, **kw):
    c = dict(plan)
    c["config"] = dict(plan["config"], **kw)
    return c


def _shrink_reactive(plan):
    rs = plan["config"]["reactive"]
    if len(rs) > 1:
        for j in range(len(rs)):
            yield _with_cfg(plan, reactive=[rs[j]])


def _shrink_adaptive(plan):
    if plan["config"]["adaptive"] is not None:
        yield _with_cfg(plan, adaptive=None, adaptive_class="default")


def _shrink_t0(plan):
    if plan["config"]["t0_us"] != 0:
        yield _with_cfg(plan, t0_us=0, t0_class="zero")


def _shrink_gate(plan):
    if plan["config"]["gate_delta0"] != 0.01:
        yield _with_cfg(plan, gate_delta0=0.01)


SHRINKERS = [_shrink_reactive, _shrink_adaptive, _shrink_t0, _shrink_gate]
