"""C13 - LDM queries return exactly the matching objects, identically on both back-ends."""
from __future__ import annotations

from .. import ldmsim

ID = "C13"
ENGINE = "ldm"
RUNS = {"quick": 5000, "thorough": 110000}
RULE_TEXT = ("one run = one seeded history (8-70 ops) executed side by side on two real LDMs (Dictionary and TinyDB back-end, same "
             "maintenance/service variant, same virtual clock): heterogeneous CAM/VAM/DENM/POI/IVIM stores, requests with type "
             "selections, one- and two-statement filters (8 operators, and/or, reference values of matching and non-matching "
             "type, attributes that some objects lack) and order tuples (1-2 attributes, ASC/DESC/mixed); every response is compared "
             "with a brute-force predicate over the reference map and the two back-ends with each other; non-trivial = at least "
             "one filtered request judged; distinct = distinct sequences of (operation kind, outcome class per back-end)")
COMPONENTS = {"real": ["LDMFactory", "InterfaceLDM3", "InterfaceLDM4", "LDMService.query/order_search_results", "DictionaryDataBase.search",
                       "TinyDB.search + tinydb package on a scratch file", "ldm_constants.OPERATOR_MAPPING", "RequestDataObjectsReq type selection"],
              "stub": ["virtual clock", "SimThread/SimEvent", "observing spies"]}
ASSUMPTIONS = ["filter attributes are dotted paths below the message (as in the repo's own subscription filter 'header.stationId')",
               "order attributes are leaf names that are unique inside a stored record (OrderTupleValue docstring)",
               "a comparison between a number and a text is false for ==,<,<=,>,>= and true for !=; like is true only for a text "
               "containing the reference; values that are not plain numbers/texts give no verdict",
               "with 'or', an object lacking one of the two attributes gives no verdict unless both sides fail",
               "order is judged on adjacent returned objects that both carry all order attributes; ties are free",
               "objects between expiry and collection, outside the area of maintenance, or already reported by C12 give no verdict"]
EXPECTED_PROBES = ["tinydb-used", "filtered-query", "filter-on-missing-attribute", "filter-type-mismatch", "two-statement-filter-or",
                   "two-statement-filter-and", "desc-order", "multi-attribute-order", "filter-splits-store", "backends-compared",
                   "type-selection-excludes-stored-object", "query-between-expiry-and-gc"] + ["filter-op:" + o for o in ldmsim.OPS8]
DOUBLE = {"quick": 32, "thorough": 400}


def gen_plan(run_seed: int, tier: str) -> dict:
    return ldmsim.gen_plan(run_seed, tier, ID)


def execute(plan: dict) -> dict:
    return ldmsim.execute(plan, "filtered-query")
