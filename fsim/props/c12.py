"""C12 - the LDM behaves as a store of objects with registration gating and expiry."""
from __future__ import annotations

from .. import ldmsim

ID = "C12"
ENGINE = "ldm"
RUNS = {"quick": 6000, "thorough": 150000}
RULE_TEXT = ("one run = one seeded history (8-100 ops, up to 260 in the thorough tier) over IF.LDM.3/IF.LDM.4 of a real LDM built by "
             "LDMFactory (back-end Dictionary or TinyDB, maintenance Reactive or Thread, service Reactive or Thread): register/"
             "deregister provider and consumer, add (CAM/VAM/DENM/POI/IVIM dictionaries with and without optional containers, "
             "validity 0-300 s, inside / at / outside the area of maintenance), update, delete, request, virtual clock advance, "
             "explicit collect_trash; a reference map is stepped in lock-step and compared after every operation through an "
             "unfiltered request; non-trivial = at least one accepted add was audited; distinct = distinct sequences of "
             "(operation kind, outcome class)")
COMPONENTS = {"real": ["LDMFactory", "InterfaceLDM3", "InterfaceLDM4", "LDMService(Reactive|Threads)", "LDMMaintenance(Reactive|Thread)",
                       "DictionaryDataBase", "TinyDB back-end + tinydb package on a scratch file", "ldm_classes request/response types"],
              "stub": ["virtual clock (TimeService.time, module time facades)", "SimThread/SimEvent for the *_thread(s) variants",
                       "spies around collect_trash / attend_subscriptions (observe only)"]}
ASSUMPTIONS = ["objects are identified in responses by their content (every stored message version carries a unique serial number)",
               "a registration whose permission list contains the application id itself, with an id in 1..21, must be accepted; "
               "other registrations define the model by their outcome",
               "updates/deletes by a registered provider other than the one that added the object define the model by their outcome",
               "between expiry and the first maintenance pass whose one-second clock is past the expiry an object may or may not be returned",
               "objects further than twice the relevance distance from the LDM position may be discarded by maintenance at any time",
               "application id 21 is reserved for the harness's auditing consumer"]
EXPECTED_PROBES = ["tinydb-used", "gc-collected-expired", "query-between-expiry-and-gc", "query-after-gc-collected", "reactive-gc-fired",
                   "update-applied-in-model", "delete-applied-in-model", "gc-within-expiry-second"]
DOUBLE = {"quick": 48, "thorough": 600}


def gen_plan(run_seed: int, tier: str) -> dict:
    return ldmsim.gen_plan(run_seed, tier, ID)


def execute(plan: dict) -> dict:
    return ldmsim.execute(plan, None)
