"""C20 - packet lifetime and hop budget on the wire honour the request."""
from __future__ import annotations

import random

from .. import refcodec as rc
from .. import netplan as npl
from ..wiremon import WireMonitor, DecodeMonitor
from ..result import finish
from . import c01

ID = "C20"
ENGINE = "net"
RUNS = {"quick": 5000, "thorough": 150000}
RULE_TEXT = ("one run = a seeded plan on the multi-station ether: C01-style requests of every transport type whose requested lifetime is drawn "
             "uniformly / log-uniformly over 0..7 000 000 ms and from the +-2 ms neighbourhood of every representable value, requested hop "
             "limits 0..255, MIB default lifetime / hop limit as swarm knobs; or a reference peer injecting packets with all 256 LT codes and "
             "with RHL > MHL; every originated frame's LT/RHL/MHL is judged against the request, every indication against the received frame; "
             "non-trivial = at least one frame judged; distinct = distinct sequences of (type, requested-lifetime class, LT code, RHL class)")
COMPONENTS = c01.COMPONENTS
ASSUMPTIONS = ["the requested-lifetime space is sampled with boundary bias, not swept exhaustively (reach: probes lt-code-emitted:* / lt-code-decoded:*)",
               "requested lifetimes are floats in seconds; k/1000.0 means k ms (binary floating-point representation error below 1 ns is not judged)"]
EXPECTED_PROBES = ["rhl>mhl-received", "lt-code-decoded:0", "lt-code-decoded:255", "lt-code-emitted:4", "tx:GUC", "tx:GBC", "tx:SHB", "tx:BEACON"]


def gen_plan(run_seed: int, tier: str) -> dict:
    r = random.Random(run_seed ^ 0xC20C20)
    if r.random() < 0.6:
        plan = c01.gen_plan(run_seed, tier)
        plan["property"] = ID
        plan["config"]["mode"] = "requests"
        plan["config"]["fault_class"] = plan["config"].get("fault_class", "none")
        dl = r.choice([None, 1, 5, 60, 63, 64, 100, 600, 630, 631, 1000, 6300, 6301, 7])
        dh = r.choice([None, 1, 2, 5, 10, 255])
        for s in plan["stations"]:
            if dl is not None:
                s["mib"]["itsGnDefaultPacketLifetime"] = dl
            if dh is not None:
                s["mib"]["itsGnDefaultHopLimit"] = dh
        for o in plan["ops"]:
            if o["op"] == "req":
                o["lt"] = npl.rand_lifetime(r)
                o["hl"] = npl.rand_hop_limit(r)
        return plan
    n = r.randint(1, 3)
    blat, blon = npl.base_point(r, r.choice(npl.HEMIS))
    macs = npl.unique_macs(r, n + 3)
    mib = npl.rand_mib(r, dpl=(8, 16))
    stations = []
    for i in range(n):
        lat, lon = rc.offset_position(blat, blon, r.uniform(-150, 150), r.uniform(-150, 150))
        stations.append({"mac": macs[i], "st": r.randint(0, 11), "pos": [lat, lon], "mib": dict(mib), "ports": npl.rand_ports(r)})
    stations.append({"mac": macs[n], "role": "peer", "pos": [blat, blon]})
    ops = []
    t = 0
    srcs = macs[n:n + 3]
    codes = list(range(256))
    r.shuffle(codes)
    for k in range(r.randint(10, 48)):
        t += r.choice([0, r.randint(0, 3000), r.randint(0, 30000)])
        typ = r.choice(npl.PKT_TYPES)
        src = r.choice(srcs)
        kw = {"lt": codes[k]}
        if typ in ("GBC", "GAC"):
            kw["area"] = {"lat": blat, "lon": blon, "a": r.choice([50, 500, 3000]), "b": r.choice([50, 500, 3000]), "angle": 0}
        if typ in ("GUC", "LSREP", "LSREQ") and r.random() < 0.5:
            j = r.randrange(n)
            kw["dest_addr"] = rc.enc_addr(0, stations[j]["st"], bytes.fromhex(stations[j]["mac"])).hex()
        if r.random() < 0.3 and typ not in ("BEACON", "SHB"):
            mhl = r.choice([0, 1, 2, 10, 254, r.randint(0, 254)])
            kw["mhl"] = mhl
            kw["rhl"] = r.choice([mhl + 1, 255, r.randint(mhl + 1, 255)])
        elif r.random() < 0.1:
            kw["mhl"] = 1 if r.random() < 0.7 else 0
            kw["rhl"] = r.choice([2, 255])
        so = npl.rand_lpv(r, npl.rand_addr(r, src), pos=list(rc.offset_position(blat, blon, r.uniform(-400, 400), r.uniform(-400, 400))))
        pkt = npl.rand_pkt(r, typ, src, so=so, dport=r.choice(stations[0]["ports"]), **kw)
        ops.append({"op": "inject", "t": t, "frm": n, "pkt": pkt})
    cfg = {"t0_us": 1_767_225_600_000_000 + r.randrange(0, 86_400_000) * 1000, "net_seed": r.getrandbits(32),
           "latency_us": [100, 2000], "fifo": True, "topology": "mesh", "run_limit_us": t + 1_500_000, "fault_class": "none", "mode": "inject"}
    return {"engine": ENGINE, "property": ID, "config": cfg, "stations": stations, "ops": ops}


class Sim(c01.C01Sim):
    def __init__(self, plan):
        super().__init__(plan)
        self.monitors.append(WireMonitor(props=("C20",)))
        self.monitors.append(DecodeMonitor(props=("C20",)))


def make_sim(plan):
    return Sim(plan)


def execute(plan: dict) -> dict:
    sim = Sim(plan)
    sim.run()
    tr = []
    for o in sim.hist.ops:
        op = o["op"]
        if op["op"] == "req":
            from ..wiremon import lt_interval
            import math
            from fractions import Fraction
            ms = None if op.get("lt") is None else math.floor(float(op["lt"]) * 1000 + 1e-6)
            tr.append((op["type"], lt_interval(ms), "hl>1" if op.get("hl", 1) > 1 else "hl<=1"))
        elif op["op"] == "inject" and "pkt" in op:
            tr.append(("inj", op["pkt"]["basic"]["lt"], op["pkt"]["basic"]["rhl"] > op["pkt"]["common"]["mhl"]))
    return finish(sim, tr)
