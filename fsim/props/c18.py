"""C18 - VRU clustering state machine stays consistent and never silences a VRU for good.

Two run classes (config["mode"]):
  "single"  (a) one real VBSClusteringManager, history over the whole alphabet, virtual `time_fn`;
  "loop"    (b) 2-4 real stations in a closed loop through the real VAM coder, BTP, GN and the simulated ether.

Reading of the statement (documented decisions; see ClusterWatch in fsim/clustersim.py)
* All verdicts use the public API: state, should_transmit_vam(), get_cluster_id(), get_cluster_information_container(),
  get_cluster_operation_container(), return values of the commands, and the VAMs the transmission management emits.
* leader <=> a cluster information container is reported, with clusterId 1..255 == get_cluster_id() and cardinality >= 1.
* passive => get_cluster_id() is the cluster of the completed join; not leader and not passive => get_cluster_id() is None;
  the state may become passive only while a join towards that cluster waits for its leader (a join suspended by a
  leader tenure keeps that licence: unspecified, relaxed).
* suppression: should_transmit_vam() False only in VRU_PASSIVE / VRU_IDLE.
* leader lost: passive, no VAM of the leader (= sender of the cluster VAM that completed the join) for
  timeClusterContinuity + 1 ms when update() is called => after that update stand-alone and should_transmit_vam().
  Leaving earlier is not judged (probe).
* break-up: a VAM of the leader with clusterBreakupInfo while passive => stand-alone and transmitting after the next
  update().  Reason receptionOfCpmContainingCluster is relaxed (the member may stay passive; probe).
* notification durations (vam_constants): join 3 s, leave 1 s (also after cancelled / failed join), break-up warning
  3 s.  Judged with a 1 ms guard band on both sides: the information must be in the operation container up to
  (duration - 1 ms) while the manager is in the state that carries it and nothing else is being notified; it must be
  gone once update() was called later than (duration + 1 ms).  A leave notification hidden by a newer join
  notification is relaxed (probe `notification-masked-by-other`).
* (b) a join towards an advertised cluster completes: the application joins the cluster id it saw in a received
  VAM; with update() called at every position report and the leader's cluster VAMs arriving, the member must be
  passive within 3 s + 0.5 s + two report periods.  Cluster VAMs (and every other emitted VAM) must be encodable by
  the real coder: an exception out of location_service_callback is `cluster-vam-not-encodable` (EncodeError, key =
  offending field) or `api-raised`.
"""
from __future__ import annotations

import random

from .. import refcodec as rc
from .. import netplan as npl
from ..clustersim import (SingleSim, ClusterNetSim, ClusterWatch, vam_coder, cluster_fields, bad_delta_time, LEAVE_REASONS,
                          BREAKUP_REASONS, VBSState)
from ..result import finish

ID = "C18"
ENGINE = "fac"
RUNS = {"quick": 5000, "thorough": 130000}
RULE_TEXT = ("one run = one seeded plan; mode single (~80 %): 8-70 events over {role on/off, try-create, initiate-join, cancel-join, "
             "confirm-join-failed, leave(reason), break-up(reason), receive VAM (plain/cluster/join/leave/break-up; leader or others; "
             "decoder output or hand-built dict; with/without bounding box), update} with clock steps 50 ms..5 s on one real "
             "VBSClusteringManager; mode loop (~20 %): 2-4 real stations (GN+BTP+VAM transmission/reception+clustering manager) on the "
             "simulated ether, GNSS reports every 100-500 ms, leader creation, followers joining the advertised cluster, then leader "
             "silence / break-up / leave / role-off; non-trivial = the manager left VRU_ACTIVE_STANDALONE at least once or a "
             "notification was started; distinct = distinct abstract traces (event kind, state, transmit flag, join model, open notifications)")
COMPONENTS = {"real": ["VBSClusteringManager", "VAMTransmissionManagement", "VAMReceptionManagement", "VAMCoder", "vam_constants",
                       "btp.Router", "geonet.Router (loop mode)"],
              "stub": ["virtual clock (time_fn constructor argument, time.time during runs)", "vru_clustering.random (seeded, edge-biased)",
                       "SimLinkLayer (radio)", "GNSS reports / VRU application (harness calls update() once per report)"]}
ASSUMPTIONS = ["verdicts within 1 ms of a specified duration are not taken",
               "a passive member that leaves earlier than timeClusterContinuity is not judged",
               "break-up with reason receptionOfCpmContainingCluster may leave the member passive",
               "in loop mode the harness is the application that calls update() (nothing in the services does); runs with "
               "app_calls_update=false show what happens without it",
               "shim knob (loop mode): none = manager output untouched; strip-bbox / fix-encode / full = the cluster information "
               "container is made encodable by the harness so that the rest of the loop can be explored despite the encoding defects",
               "loop mode, wire level: what a station hears is taken from the BTP indication on port 2018 (decoded by the harness), not from what "
               "the manager is given; every VAM indicated there must reach the manager (with and without an LDM adapter: knob ldm)",
               "loop mode: an emitted VAM must carry the cluster containers the manager reported at the instant of emission (information "
               "container present iff reported, operation container with the same alternative / cluster id / reason, times within one unit)",
               "loop mode: a notification (join / leave / break-up info) that the manager reports at three or more consecutive position reports "
               "of an active station (stand-alone or leader, should_transmit_vam() True, no exception) must be carried by at least one VAM "
               "emitted between the first and the last of them (the stack emits at every report >= T_GenVamMin after the previous VAM; three "
               "reports allow for millisecond rounding at a 100 ms report period)",
               "loop mode: after a leader's accepted break-up command every station that was a passive member of that cluster (led by that "
               "station) must be stand-alone and transmitting at its first report later than t_b + 3 s + both report periods + 0.2 s; not judged "
               "when either station is disturbed by other commands / silence / link faults, or for reason receptionOfCpmContainingCluster",
               "exhaustive exploration to a depth bound is not performed"]
EXPECTED_PROBES = ["join-completed", "leader-lost", "breakup-received-from-leader", "became-leader", "join-failed-timeout",
                   "loop:join-completed", "loop:cluster-vam-received", "loop:leader-silenced", "loop:breakup-commanded",
                   "notification-masked-by-other", "boundary-exact", "decoded-rx", "hand-built-rx", "role-off-while-passive",
                   "cluster-id-edge", "loop:heard-at-btp", "loop:ldm-none", "loop:ldm-stub", "loop:emitted-vam-compared",
                   "loop:notification-on-wire", "loop:breakup-obligation-judged"]

DTS = [50, 50, 100, 100, 150, 200, 250, 300, 450, 500, 550, 900, 1000, 1050, 1950, 2000, 2050, 2950, 3000, 3050, 3100, 3500, 5000]


# --------------------------------------------------------------------------------------------- plans
def _dt(r):
    return r.choice(DTS) if r.random() < 0.85 else r.randint(50, 6000)


def _rx_op(r, cfg, what=None, sender=None, cid=None, dt=None):
    what = what or r.choice(["plain", "plain", "cluster", "cluster", "join", "leave", "breakup"])
    op = {"op": "rx", "dt_ms": _dt(r) if dt is None else dt, "what": what,
          "sender": sender if sender is not None else r.choice(["leader", "leader", 2, 3, 4, 5, 6, 1000]),
          "alt_sender": r.choice([2, 3, 4]),
          "cid": cid if cid is not None else r.choice(["target", "joined", "own", "target", r.choice([0, 1, 7, 255, r.randint(0, 255)])]),
          "alt": r.choice([1, 7, 255, r.randint(0, 255)]),
          "dlat": r.choice([0, 90, 180, r.randint(-400, 400), r.randint(-20000, 20000)]), "dlon": r.choice([0, 100, r.randint(-400, 400)]),
          "decoded": cfg["decoded"] if r.random() < 0.9 else (not cfg["decoded"])}
    if what in ("cluster", "breakup"):
        if cfg["bbox_rx"] and r.random() < 0.8:
            op["radius"] = r.choice([1, 5, 5, 20, 4095])
        if r.random() < 0.5:
            op["profiles"] = r.choice([0x80, 0x40, 0xC0, 0xF0])
        op["card"] = r.choice([1, 2, 3, 20, 255])
        if r.random() < 0.04:
            op["no_id"] = True
    if what in ("join", "leave") and r.random() < 0.3:
        op["with_info"] = True
    if what == "leave":
        op["reason"] = r.choice(LEAVE_REASONS)
    if what == "breakup":
        op["reason"] = r.choice(BREAKUP_REASONS) if r.random() < 0.8 else "NOT_PROVIDED"
        op["time"] = r.choice([1, 12, 255])
    if what == "join":
        op["time"] = r.choice([1, 12, 127])
    return op


def _gen_single(r, cfg) -> list:
    ops = []
    weights = {"role_on": 2, "role_off": 2, "try_create": 5, "join": 8, "cancel_join": 3, "join_failed": 1, "leave": 4, "breakup": 4,
               "rx": 22, "update": 18}
    for k_ in list(weights):           # swarm: per-run emphasis
        weights[k_] = max(0, weights[k_] * r.choice([0, 1, 1, 1, 2, 3])) if k_ not in ("rx", "update") else weights[k_]
    keys = sorted(weights)
    prefix = r.choice(["none", "leader", "passive", "passive", "joining"])
    cfg["prefix"] = prefix
    if prefix == "leader":
        for s in (2, 3, 4):
            ops.append(_rx_op(r, cfg, "plain", s, 1, dt=r.choice([50, 100, 200])))
            ops[-1]["dlat"], ops[-1]["dlon"] = r.randint(-200, 200), r.randint(-200, 200)
        ops.append({"op": "try_create", "dt_ms": 100})
    elif prefix in ("passive", "joining"):
        c = r.choice([1, 7, 255, r.randint(1, 255), 0])
        ops.append({"op": "join", "dt_ms": 100, "cid": c})
        if prefix == "passive":
            ops.append({"op": "update", "dt_ms": r.choice([3050, 3100, 3500, 3000])})
            o = _rx_op(r, cfg, "cluster", r.choice([2, 3]), c, dt=r.choice([50, 100, 300, 450]))
            if r.random() < 0.7:
                o.pop("radius", None)
            ops.append(o)
            tail = r.random()
            if tail < 0.35:         # the leader announces break-up, then the application updates
                for _ in range(r.choice([0, 1, 2])):
                    ops.append(_rx_op(r, cfg, "cluster", "leader", "joined", dt=r.choice([100, 500, 900])))
                ops.append(_rx_op(r, cfg, "breakup", "leader", "joined", dt=r.choice([100, 500, 1500])))
                ops.append({"op": "update", "dt_ms": r.choice([50, 100, 500])})
            elif tail < 0.6:        # the leader falls silent
                for dt in r.choice([[2050], [1000, 1050], [500, 500, 500, 550], [100, 1950, 50], [3000]]):
                    ops.append({"op": "update", "dt_ms": dt})
    n = r.randint(6, 60)
    for _ in range(n):
        kind = r.choices(keys, [weights[k_] for k_ in keys])[0]
        if kind == "rx":
            ops.append(_rx_op(r, cfg))
            continue
        op = {"op": kind, "dt_ms": _dt(r)}
        if kind == "join":
            op["cid"] = r.choice([1, 7, 255, 0, r.randint(0, 255), "target"])
            op["alt"] = 9
        elif kind == "leave":
            op["reason"] = r.choice(LEAVE_REASONS)
        elif kind == "breakup":
            op["reason"] = r.choice(BREAKUP_REASONS)
        elif kind == "try_create" and r.random() < 0.6:
            for s in r.sample([2, 3, 4, 5, 6], 3):
                o = _rx_op(r, cfg, "plain", s, 1, dt=r.choice([50, 100]))
                o["dlat"], o["dlon"] = r.randint(-200, 200), r.randint(-200, 200)
                ops.append(o)
        ops.append(op)
    return ops


def _gen_loop(r, cfg) -> tuple[list, list]:
    n = r.randint(2, 4)
    blat, blon = npl.base_point(r, r.choice(npl.HEMIS))
    macs = npl.unique_macs(r, n)
    sids = r.sample(range(1, 2_000_000_000), n)
    stations = []
    for i in range(n):
        lat, lon = rc.offset_position(blat, blon, r.uniform(-1.5, 1.5), r.uniform(-1.5, 1.5))
        stations.append({"mac": macs[i], "st": 1, "pos": [lat, lon], "speed": 1.0, "track": 90.0, "mib": {}, "ports": [],
                         "station_id": sids[i], "stype": 1, "period_ms": r.choice([100, 200, 200, 250, 300, 300, 500])})
    ops = []
    L = 0
    followers = list(range(1, n))
    t_create = r.randint(900, 1500) * 1000
    # further VRUs in the vicinity so that the leader candidate sees NUM_CREATE_CLUSTER devices
    for j in range(max(0, 3 - (n - 1)) + r.choice([0, 0, 1])):
        ops.append({"op": "phantom_vam", "t": t_create - r.randint(100, 600) * 1000, "st": L, "sid": 9000 + j,
                    "dlat": r.randint(-150, 150), "dlon": r.randint(-150, 150)})
    ops.append({"op": "cluster", "t": t_create, "st": L, "call": "try_create"})
    t_join = {}
    for f in followers:
        if r.random() < 0.85:
            t_join[f] = t_create + r.randint(700, 2500) * 1000
            ops.append({"op": "cluster", "t": t_join[f], "st": f, "call": "join_advertised"})
    if not cfg["app_calls_update"] and r.random() < 0.6:
        # an application that calls update() only around its own commands (never periodically)
        for f, tj in sorted(t_join.items()):
            ops.append({"op": "cluster", "t": tj + 3_000_000 + r.randint(20, 80) * 1000, "st": f, "call": "update"})
    t_joined = max(t_join.values(), default=t_create) + 4_600_000
    branch = r.choice(["silence", "silence", "breakup", "breakup", "leave", "role_off", "none", "cancel", "link"])
    cfg["branch"] = branch
    t_b = t_joined + r.randint(200, 2500) * 1000
    end = t_b + r.randint(4000, 6000) * 1000
    if branch == "silence":
        ops.append({"op": "silence", "t": t_b, "st": L, "on": True})
    elif branch == "breakup":
        ops.append({"op": "cluster", "t": t_b, "st": L, "call": "breakup", "reason": r.choice(BREAKUP_REASONS)})
    elif branch == "leave" and followers:
        ops.append({"op": "cluster", "t": t_b, "st": r.choice(followers), "call": "leave", "reason": r.choice(LEAVE_REASONS)})
    elif branch == "role_off":
        ops.append({"op": "cluster", "t": t_b, "st": L, "call": "role_off"})
        ops.append({"op": "silence", "t": t_b, "st": L, "on": True})
    elif branch == "cancel" and t_join:
        f = r.choice(sorted(t_join))
        ops.append({"op": "cluster", "t": t_join[f] + r.randint(200, 2800) * 1000, "st": f, "call": "cancel_join"})
    elif branch == "link" and followers:
        f = r.choice(followers)
        ops.append({"op": "link", "t": t_b, "a": L, "b": f, "up": False})
    for _ in range(r.choice([0, 0, 0, 1, 2])):
        ops.append({"op": "cluster", "t": r.randint(0, end), "st": r.randrange(n),
                    "call": r.choice(["update", "role_off", "role_on", "try_create", "cancel_join", "join_failed"])})
    for i in range(n):
        per = stations[i]["period_ms"] * 1000
        t = r.randint(10, 90) * 1000
        lat0, lon0 = stations[i]["pos"]
        k_ = 0
        while t < end:
            lat, lon = rc.offset_position(lat0, lon0, 0.02 * k_, r.uniform(-0.05, 0.05))
            ops.append({"op": "gnss", "t": t, "st": i, "lat": lat, "lon": lon, "speed": round(r.uniform(0.9, 1.1), 2), "track": 90.0})
            t += per
            k_ += 1
    ops.sort(key=lambda o: o["t"])
    cfg["run_limit_us"] = end + 500_000
    cfg["leader"] = L
    return stations, ops


def gen_plan(run_seed: int, tier: str) -> dict:
    r = random.Random(run_seed)
    mode = "loop" if r.random() < 0.2 else "single"
    cfg = {"mode": mode, "t0_us": 1_767_225_600_000_000 + r.randrange(0, 86_400_000) * 1000, "prng_seed": r.getrandbits(32),
           "net_seed": r.getrandbits(32)}
    if mode == "single":
        cfg["decoded"] = r.random() < 0.8            # received VAMs are decoder output (else hand-built like the unit tests)
        cfg["bbox_rx"] = r.random() < 0.5            # finding trigger: bounding box in received cluster VAMs
        cfg["own_id"] = r.choice([1000, 1, 4_294_967_295])
        cfg["profile"] = r.choice(["pedestrian", "pedestrian", "bicyclistAndLightVruVehicle", "motorcyclist", "animal"])
        ops = _gen_single(r, cfg)
        return {"engine": ENGINE, "property": ID, "config": cfg, "stations": [], "ops": ops}
    cfg["shim"] = r.choices(["none", "strip-bbox", "fix-encode", "full"], [20, 12, 18, 50])[0]   # finding triggers off in "full"
    # VRUAwarenessService(ldm=...) is optional: reception / transmission management with and without an LDM adapter (own PRNG stream)
    cfg["ldm"] = "stub" if random.Random(run_seed ^ 0xC18AD0).random() < 0.5 else "none"
    cfg["app_calls_update"] = r.random() < 0.88
    cfg["latency_us"] = [100, 2000]
    cfg["max_events"] = 200_000
    cfg["topology"] = "mesh"
    stations, ops = _gen_loop(r, cfg)
    return {"engine": ENGINE, "property": ID, "config": cfg, "stations": stations, "ops": ops}


# --------------------------------------------------------------------------------------------- execution
def execute(plan: dict) -> dict:
    if plan["config"].get("mode") == "loop":
        return _execute_loop(plan)
    sim = SingleSim(plan)
    sim.run()
    w = sim.watch
    tr = list(w.trace)
    for op in plan["ops"]:
        if op["op"] == "rx":
            sim.probe("decoded-rx" if op.get("decoded", True) else "hand-built-rx")
    _state_probes(sim, tr)
    nontrivial = any(t[1] not in ("ACTIVE_STANDALONE", "api-raised") for t in tr if len(t) > 1) or any(t[-1] for t in tr if len(t) == 5)
    return finish(sim, tr, nontrivial=nontrivial)


def _state_probes(sim, tr) -> None:
    prev = None
    for t in tr:
        if len(t) < 5:
            continue
        if t[1] == "ACTIVE_CLUSTER_LEADER" and prev != "ACTIVE_CLUSTER_LEADER":
            sim.probe("became-leader")
        if t[0] == "role_off" and prev == "PASSIVE":
            sim.probe("role-off-while-passive")
        prev = t[1]


def _encode_error_field(e: Exception) -> str:
    msg = str(e)
    path = msg.split(":", 1)[0].strip()
    last = path.split(".")[-1] if path else "?"
    return last if last.isidentifier() else "?"


def _reports_cover(sim, st: int, a: int, b: int, per: int) -> bool:
    """Position reports of station `st` keep arriving over [a, b]: no gap longer than two report periods."""
    ts = [a] + [x["t"] for x in sim.reports if x["st"] == st and a <= x["t"] <= b] + [b]
    return len(ts) > 2 and all(t2 - t1 <= 2 * per + 1_000 for t1, t2 in zip(ts, ts[1:]))


def _op_container(vam: dict):
    try:
        return vam["vam"]["vamParameters"].get("vruClusterOperationContainer")
    except (KeyError, TypeError, AttributeError):
        return None


def _notif_key(opc):
    """(kind, cluster id / reason) of the notification an operation container carries; None when there is none."""
    if not isinstance(opc, dict) or not opc:
        return None
    j, l_, b = opc.get("clusterJoinInfo"), opc.get("clusterLeaveInfo"), opc.get("clusterBreakupInfo")
    if isinstance(j, dict):
        return ("join", j.get("clusterId"))
    if isinstance(l_, dict):
        return ("leave", l_.get("clusterId"), l_.get("clusterLeaveReason"))
    if isinstance(b, dict):
        return ("breakup", b.get("clusterBreakupReason"))
    return None


def _emitted_vs_manager(d: dict, f: dict, v: dict):
    """Compare a decoded emitted VAM with the containers the manager reported at the instant of emission.  None = equal, else
    (key, text)."""
    st = v["mstate"].name[4:] if v.get("mstate") is not None else "?"
    info = v.get("info")
    try:
        vci = info["vruClusterInformation"] if info is not None else None
    except (KeyError, TypeError):
        vci = {}
    if vci is None and f["has_info"]:
        return f"unexpected/info/{st}", "the emitted VAM has a cluster information container, the manager reported none"
    if vci is not None and not f["has_info"]:
        return f"missing/info/{st}", "the manager reported a cluster information container, the emitted VAM has none"
    if vci is not None and (f["cid"] != vci.get("clusterId", 0) or f.get("card") != vci.get("clusterCardinalitySize")):
        return f"differs/info/{st}", (f"emitted cluster id / cardinality {f['cid']} / {f.get('card')}, manager reported "
                                      f"{vci.get('clusterId')} / {vci.get('clusterCardinalitySize')}")
    want = v.get("opc") if isinstance(v.get("opc"), dict) and v.get("opc") else {}
    got = _op_container(d) or {}
    for name, kind in (("clusterJoinInfo", "join"), ("clusterLeaveInfo", "leave"), ("clusterBreakupInfo", "breakup")):
        w_, g_ = want.get(name), got.get(name)
        if w_ is None and g_ is None:
            continue
        if g_ is None:
            return f"missing/{kind}/{st}", f"the manager reported {name} {w_}, the emitted VAM does not carry it"
        if w_ is None:
            return f"unexpected/{kind}/{st}", f"the emitted VAM carries {name} {g_}, the manager reported none"
        for fld in sorted(set(w_) | set(g_)):
            a_, b_ = w_.get(fld), g_.get(fld)
            if fld in ("joinTime", "breakupTime") and isinstance(a_, int) and isinstance(b_, int) and abs(a_ - b_) <= 1:
                continue
            if a_ != b_:
                return f"differs/{kind}/{st}", f"{name}.{fld}: emitted {b_!r}, manager reported {a_!r}"
    return None


def _execute_loop(plan: dict) -> dict:
    sim = ClusterNetSim(plan)
    sim.run()
    cfg = plan["config"]
    k = sim.kernel
    end = k.now_us
    shim = cfg.get("shim", "none")
    trace = []
    # ---- exceptions out of the transmission path
    seen = set()
    for rec in sim.loc_errors:
        e = rec["exc"]
        name = type(e).__name__
        state = rec["state"].name if rec["state"] else "?"
        bad = bad_delta_time(rec["opc"])
        if name == "EncodeError":
            fld = _encode_error_field(e)
            key = f"{fld}/{state[4:]}"
            rule = "cluster-vam-not-encodable"
        elif bad is not None:
            key = bad
            rule = "cluster-vam-not-encodable"
        else:
            key = f"location_service_callback/{name}"
            rule = "api-raised"
        if (rule, key) in seen:
            continue
        seen.add((rule, key))
        sim.violate(ID, rule, key, f"station {rec['st']} at +{(rec['t'] - k.t0_us) / 1e6:.3f} s in state {state}: location_service_callback raised "
                    f"{name}: {str(e)[:200]} (operation container {rec['opc']}, information container {rec['info']}; shim={shim})")
        trace.append(("tx-raised", rule, key))
    # ---- emitted VAMs decode again and carry what the manager reported
    for v in sim.vam_tx:
        try:
            d = vam_coder().decode(v["data"])
        except Exception as e:
            why = bad_delta_time(v["opc"]) or "other"
            if ("undecodable", why) not in seen:
                seen.add(("undecodable", why))
                sim.violate(ID, "cluster-vam-not-encodable", why if why != "other" else "emitted-vam-undecodable", f"station {v['st']} at +{(v['t'] - k.t0_us) / 1e6:.3f} s in "
                            f"state {v['state'].name if v['state'] else '?'} handed {len(v['data'])} B to BTP port 2018 that do not decode as a VAM "
                            f"({type(e).__name__}); operation container at that moment: {v['opc']}")
            continue
        f = cluster_fields(d)
        v["f"] = f
        v["nkey"] = _notif_key(_op_container(d))
        if f["has_info"]:
            sim.probe("loop:cluster-vam-emitted")
        if "info" in v:
            diff = _emitted_vs_manager(d, f, v)
            sim.probe("loop:emitted-vam-compared")
            if diff is not None and ("emitted", diff[0]) not in seen:
                seen.add(("emitted", diff[0]))
                sim.violate(ID, "emitted-vam-differs-from-manager", diff[0], f"station {v['st']} at +{(v['t'] - k.t0_us) / 1e6:.3f} s: {diff[1]} "
                            f"(manager at emission: information container {v['info']}, operation container {v['opc']}; shim={shim})")
                trace.append(("emitted-differs", diff[0]))
    for idx, fac in sorted(sim.fac.items()):
        for r_ in fac["received"]:
            if r_["f"]["has_info"]:
                sim.probe("loop:cluster-vam-received")
                break
    # ---- every VAM indicated on port 2018 reaches the clustering manager
    ldm = cfg.get("ldm", "none")
    sim.probe("loop:ldm-" + ldm)
    for idx, fac in sorted(sim.fac.items()):
        heard_ = fac.get("heard", [])
        if heard_:
            sim.probe("loop:heard-at-btp", len(heard_))
        lost = [h for h in heard_ if not h["delivered"]]
        if lost:
            h = lost[0]
            sim.violate(ID, "cluster-vam-not-delivered-to-manager", f"closed-loop/ldm={ldm}", f"station {idx}: {len(lost)} of {len(heard_)} VAMs indicated "
                        f"on BTP port 2018 never reached VBSClusteringManager.on_received_vam (first at +{(h['t'] - k.t0_us) / 1e6:.3f} s from station "
                        f"id {h['f']['sid']}, cluster information {'present' if h['f']['has_info'] else 'absent'}; LDM adapter: {ldm})")
            trace.append(("not-delivered", idx, ldm))
            break
    # ---- notifications reported by the manager are transmitted
    S_ = VBSState
    for idx in sorted(sim.fac):
        group, gkey = [], None
        mine = [v for v in sim.vam_tx if v["st"] == idx and "nkey" in v]

        def close(group, gkey):
            if len(group) < 3:
                return
            sim.probe("loop:notification-on-wire")
            t1, t2 = group[0]["t"], group[-1]["t"]
            if any(t1 <= v["t"] <= t2 and v["nkey"] == gkey for v in mine):
                return
            st_name = group[0]["after"]["state"].name[4:]
            if ("notif", gkey[0], st_name) in seen:
                return
            seen.add(("notif", gkey[0], st_name))
            n_tx = sum(1 for v in sim.vam_tx if v["st"] == idx and t1 <= v["t"] <= t2)
            sim.violate(ID, "notification-not-transmitted", f"{gkey[0]}/{st_name}", f"station {idx}: the manager reported {gkey} at {len(group)} consecutive position "
                        f"reports (+{(t1 - k.t0_us) / 1e6:.3f} .. +{(t2 - k.t0_us) / 1e6:.3f} s, state {st_name}, should_transmit_vam() True, no exception) but "
                        f"none of the {n_tx} VAMs emitted in that interval carries it")
            trace.append(("notification-not-transmitted", idx, gkey[0]))
        for r_ in (x for x in sim.reports if x["st"] == idx):
            a = r_.get("after")
            key_ = _notif_key(a["opc"]) if (a and not r_["raised"] and a["tx"] and a["state"] in (S_.VRU_ACTIVE_STANDALONE, S_.VRU_ACTIVE_CLUSTER_LEADER)) else None
            if key_ is None or key_ != gkey:
                close(group, gkey)
                group, gkey = [], None
            if key_ is not None:
                group.append(r_)
                gkey = key_
        close(group, gkey)
    # ---- an accepted break-up command obliges the members
    for L, fac in sorted(sim.fac.items()):
        for b in fac.get("breakups", []):
            per_l = plan["stations"][L].get("period_ms", 300) * 1000
            for m in b["members"]:
                per_m = plan["stations"][m].get("period_ms", 300) * 1000
                deadline = b["t"] + 3_000_000 + per_l + per_m + 200_000
                t_rel, dl_rel = b["t"] - k.t0_us, deadline - k.t0_us
                later = [x for x in sim.reports if x["st"] == m and x["t"] > deadline and x.get("after")]
                judged_rel = (later[0]["t"] - k.t0_us) if later else dl_rel          # commands up to the judged report count as disturbance
                disturbed = any(t_rel <= o.get("t", -1) <= judged_rel and i_ != b["idx"] and (
                    (o["op"] == "cluster" and o["st"] in (L, m) and o["call"] != "update") or (o["op"] == "silence" and o["st"] in (L, m))
                    or o["op"] == "link") for i_, o in enumerate(plan["ops"])) or any(o["op"] == "link" and o.get("t", 0) <= dl_rel for o in plan["ops"])
                good_l = [x for x in sim.reports if x["st"] == L and b["t"] <= x["t"] <= b["t"] + 3_000_000 and not x["raised"]]
                bad_l = [x for x in sim.reports if x["st"] == L and b["t"] <= x["t"] <= deadline and x["raised"]]
                if b["reason"] == "receptionOfCpmContainingCluster" or disturbed or sim.fac[m]["silent"] or fac["silent"] or len(good_l) < 3 or bad_l \
                        or not later or sim.faults:
                    sim.probe("loop:breakup-obligation-not-judged")
                    continue
                sim.probe("loop:breakup-obligation-judged")
                a = later[0]["after"]
                if not (a["state"] is S_.VRU_ACTIVE_STANDALONE and a["tx"]):
                    sim.violate(ID, "breakup-not-recovered", "closed-loop/commanded", f"station {L} (leader of cluster {b['cid']}) accepted a break-up command "
                                f"({b['reason']}) at +{t_rel / 1e6:.3f} s; station {m}, a passive member then, is in state {a['state'].name} with "
                                f"should_transmit_vam()={a['tx']} at its report at +{(later[0]['t'] - k.t0_us) / 1e6:.3f} s "
                                f"(deadline +{dl_rel / 1e6:.3f} s = warning 3 s + both report periods + 0.2 s)")
                    trace.append(("breakup-not-recovered", L, m))
    # ---- joins towards an advertised cluster complete
    ops = plan["ops"]
    for idx, fac in sorted(sim.fac.items()):
        w: ClusterWatch = fac["watch"]
        per = plan["stations"][idx].get("period_ms", 300) * 1000
        for j in fac["joins"]:
            t0 = j["t"]
            leader_idx = next((s.idx for s in sim.stations if s.spec["station_id"] == j["leader"]), None)
            per_l = plan["stations"][leader_idx].get("period_ms", 300) * 1000 if leader_idx is not None else 10 ** 9
            deadline = t0 + 3_500_000 + 2 * per + 2 * per_l + 200_000
            done = [x for x in w.joined_at if x[1] == j["cid"] and t0 <= x[0]]
            if done:
                sim.probe("loop:join-completed")
                trace.append(("join", "completed"))
                continue
            t0_rel, dl_rel = t0 - k.t0_us, deadline - k.t0_us
            disturbed = any(t0_rel <= o.get("t", 0) <= dl_rel and i_ != j["idx"] and (
                (o["op"] == "cluster" and o["st"] in (idx, leader_idx) and o["call"] != "update")
                or (o["op"] == "silence" and o["st"] in (idx, leader_idx)) or o["op"] == "link") for i_, o in enumerate(ops))
            if disturbed or end < deadline or leader_idx is None or per > 300_000 or per_l > 300_000:
                sim.probe("loop:join-not-judged")
                trace.append(("join", "not-judged"))
                continue
            if not (_reports_cover(sim, idx, t0, deadline, per) and _reports_cover(sim, leader_idx, t0, deadline, per_l)):
                # a join can be demanded to complete only while position reports (the update() calls and the leader's VAMs hang on
                # them) keep arriving at both stations - also keeps minimised plans honest (removed gnss ops)
                sim.probe("loop:join-not-judged")
                trace.append(("join", "not-judged", "reports-stopped"))
                continue
            if any(rk[0] == "join-not-completed" for rk in w.fired):
                trace.append(("join", "not-completed", "reported-by-watch"))
                continue
            heard = [r_ for r_ in fac.get("heard", fac["received"]) if r_["f"]["sid"] == j["leader"] and r_["f"]["has_info"] and r_["f"]["cid"] == j["cid"]
                     and t0 + 3_000_000 <= r_["t"] <= deadline]
            if not heard:
                # the leader no longer advertises the cluster (it abandoned it - e.g. VRU_ROLE_OFF - before or while the join was
                # notified, or its VAMs are lost below the facilities): the join legitimately fails, not a clustering verdict
                sim.probe("loop:join-not-judged")
                trace.append(("join", "not-judged", "no-cluster-vam"))
                continue
            if not cfg.get("app_calls_update", True):
                why = "no-update-calls"
            else:
                why = "bbox/decoded" if any(h["f"]["bbox"] for h in heard) else "no-bbox/decoded"
            sim.violate(ID, "join-not-completed", why if why.endswith("/decoded") else f"closed-loop/{why}", f"station {idx} joined advertised cluster {j['cid']} of station id {j['leader']} at "
                        f"+{(t0 - k.t0_us) / 1e6:.3f} s; not passive by +{(deadline - k.t0_us) / 1e6:.3f} s (state {w.prev.state.name if w.prev.state else '?'}, "
                        f"shim={shim}, app_calls_update={cfg.get('app_calls_update', True)})")
            trace.append(("join", "not-completed", why))
    # ---- the transmission gate: an active station (stand-alone / leader) that gets position reports emits VAMs
    gap_us = 5_000_000          # T_GenVamMax; the statement gives no number, the spec's maximum interval is used
    for idx in sorted(sim.fac):
        emits = [v["t"] for v in sim.vam_tx if v["st"] == idx]
        stretch = None
        ei = 0
        last_emit = None
        for r_ in (x for x in sim.reports if x["st"] == idx):
            while ei < len(emits) and emits[ei] <= r_["t"]:
                last_emit = emits[ei]
                ei += 1
            active = r_["state"] in (VBSState.VRU_ACTIVE_STANDALONE, VBSState.VRU_ACTIVE_CLUSTER_LEADER) and not r_["raised"]
            if not active:
                stretch = None
                continue
            if stretch is None:
                stretch = r_["t"]
            ref = max(stretch, last_emit if last_emit is not None else 0)
            if r_["t"] - ref > gap_us + 2 * plan["stations"][idx].get("period_ms", 300) * 1000:
                sim.violate(ID, "suppressed-while-active", "closed-loop/no-vam-emitted", f"station {idx} in state {r_['state'].name} has been getting position "
                            f"reports for {(r_['t'] - ref) / 1e6:.3f} s without any exception and without handing a VAM to BTP port 2018 "
                            f"(should_transmit_vam() = {sim.fac[idx]['watch'].prev.tx})")
                trace.append(("silent-while-active", idx))
                break
    # ---- liveness at the end of the run: nobody is silenced for good
    for idx, fac in sorted(sim.fac.items()):
        w = fac["watch"]
        if fac["silent"] or not w.prev.ok:
            continue
        if w.prev.state is VBSState.VRU_PASSIVE and w.passive is not None and not w.prev.tx:
            silent_for = end - w.passive["last_heard"]
            per = plan["stations"][idx].get("period_ms", 300) * 1000
            chance = any(x["st"] == idx and x["t"] >= w.passive["last_heard"] + 2_000_000 + per for x in sim.reports)
            if not chance:
                sim.probe("loop:liveness-not-judged-reports-stopped")     # no position report (no update()) after the timer ran out
            if chance and silent_for > 2_000_000 + 3 * per + 200_000:
                sim.violate(ID, "leader-lost-not-recovered", "closed-loop/" + ("no-update-calls" if not cfg.get("app_calls_update", True) else "end-of-run"),
                            f"station {idx} is still VRU_PASSIVE and silent {silent_for / 1e6:.3f} s after the last VAM of its leader")
    for o in ops:
        if o["op"] == "silence":
            sim.probe("loop:leader-silenced")
        if o["op"] == "cluster" and o.get("call") == "breakup":
            sim.probe("loop:breakup-commanded")
    for idx, fac in sorted(sim.fac.items()):
        tr = fac["watch"].trace
        _state_probes(sim, tr)
        # abstract trace: transitions only (the GNSS stream would otherwise dominate)
        last = None
        for t in tr:
            key = t[:2] + t[3:] if len(t) == 5 else t
            if t[0] in ("update", "rx-plain") and key == last:
                continue
            last = key
            trace.append((idx,) + tuple(t))
    nontrivial = any(len(t) > 2 and t[2] not in ("ACTIVE_STANDALONE",) for t in trace if isinstance(t[0], int)) or bool(sim.violations)
    return finish(sim, trace, nontrivial=nontrivial)
