"""C07 - geo-addressed packets are delivered exactly inside the destination area."""
from __future__ import annotations

import math
import random

from .. import refcodec as rc
from .. import netplan as npl
from ..netsim import Monitor
from ..wiremon import root_cause
from ..result import finish
from . import c01

ID = "C07"
ENGINE = "net"
RUNS = {"quick": 6000, "thorough": 150000}
RULE_TEXT = ("one run = one sender (real station or reference peer, with/without position-accuracy flag) and 3-8 real receivers placed by the "
             "harness inside, outside and near the border of circles / rectangles / ellipses (centres over the signed WGS-84 range incl. the "
             "antimeridian, semi-axes 1..65535 m, azimuth 0..359), GBC and GAC, itsGnMaxGeoAreaSize around the area size; delivered <=> inside per an "
             "independent EN 302 931 oracle (two projections must agree, tolerance band excluded), oversize areas refused, forwarding choice per "
             "Annex D; non-trivial = at least one receiver judged; distinct = distinct (shape, GBC/GAC, rotated, per-receiver verdict/outcome) tuples")
COMPONENTS = c01.COMPONENTS
ASSUMPTIONS = ["receivers within max(2 m, 0.5 % of the semi-axis) of the border, beyond |lat| 85 deg, or where the two projections disagree give no verdict",
               "Annex D is judged only for packets received directly from their source (sender = source) and only where the outcome is observable: "
               "a forward that must not happen (discard case) or, without SCF, a forward that must happen",
               "area size uses circle pi*a^2, ellipse pi*a*b, rectangle 4*a*b; sizes within 1e-6 relative of the maximum give no verdict"]
EXPECTED_PROBES = ["judged-inside", "judged-outside", "near-border-no-verdict", "oversize-request", "oversize-forward", "annex-d-discard-case",
                   "annex-d-nonarea-case", "annex-d-area-case", "moved-then-judged", "rotated", "antimeridian", "neg-hemisphere", "shape:0", "shape:1", "shape:2"]


def _place(r, area, where):
    """A point relative to the area in metres (east, north) for 'in' / 'out' / 'edge'."""
    a, b = area["a"], (area["a"] if area["shape"] == 0 else area["b"])
    if area["shape"] == 1:
        if where == "in":
            u, v = r.uniform(-0.9, 0.9), r.uniform(-0.9, 0.9)
        elif where == "out":
            u, v = r.choice([(r.uniform(1.1, 2.5) * r.choice([-1, 1]), r.uniform(-2, 2)), (r.uniform(-2, 2), r.uniform(1.1, 2.5) * r.choice([-1, 1]))])
        else:
            u, v = r.choice([(r.choice([-1, 1]) * r.uniform(0.97, 1.03), r.uniform(-0.9, 0.9)), (r.uniform(-0.9, 0.9), r.choice([-1, 1]) * r.uniform(0.97, 1.03))])
    else:
        phi = r.uniform(0, 2 * math.pi)
        rad = {"in": r.uniform(0, 0.93), "out": r.uniform(1.08, 2.5), "edge": r.uniform(0.97, 1.03)}[where]
        u, v = rad * math.cos(phi), rad * math.sin(phi)
    x, y = u * a, v * b                      # along the a-axis / across
    th = math.radians(area["angle"])
    e = x * math.sin(th) + y * math.cos(th)
    n = x * math.cos(th) - y * math.sin(th)
    return e, n


def gen_plan(run_seed: int, tier: str) -> dict:
    r = random.Random(run_seed ^ 0xC07C07)
    clean = r.random() < 0.5                 # finding-trigger knobs off: no antimeridian, moderate sizes
    hemi = r.choice(npl.HEMIS)
    blat, blon = npl.base_point(r, hemi)
    anti = (not clean) and r.random() < 0.15
    if anti:
        blon = r.choice([1, -1]) * (1_800_000_000 - r.randint(0, 3000))
    if (not clean) and r.random() < 0.1:
        blat = r.choice([1, -1]) * r.randint(800_000_000, 849_000_000)
    shape = r.randrange(3)
    big = (not clean) and r.random() < 0.3
    a = r.choice([r.randint(1, 30), r.randint(30, 1500), r.randint(1500, 65535) if big else r.randint(200, 1700)])
    b = r.choice([r.randint(1, 30), r.randint(30, 1500), a, r.randint(1500, 65535) if big else r.randint(20, 1700)])
    if anti:
        a, b = max(a, 500), max(b, 500)
    angle = r.choice([0, 0, 90, 180, 270, r.randint(0, 359), r.randint(0, 359)])
    area = {"shape": shape, "lat": blat, "lon": blon, "a": a, "b": b, "angle": angle}
    size = rc.area_size_km2(shape, a, b)
    maxsize = r.choice([10, 10, 1, 100, max(1, int(size)), max(1, int(size) + 1), 100000])
    n = r.randint(3, 8)
    macs = npl.unique_macs(r, n + 2)
    mib = {"itsGnAreaForwardingAlgorithm": r.choice(["SIMPLE", "CBF", "UNSPECIFIED"]), "itsGnMaxGeoAreaSize": maxsize,
           "itsGnLocationServiceRetransmitTimer": 100, "itsGnLocationServiceMaxRetrans": 0, "itsGnDefaultHopLimit": r.choice([2, 5, 10])}
    stations = []
    # station 0: sender (real) ; peer: last index
    swhere = r.choice(["in", "out", "in", "edge"])
    se, sn_ = _place(r, area, swhere)
    slat, slon = rc.offset_position(blat, blon, se, sn_)
    stations.append({"mac": macs[0], "st": 5, "pos": [slat, slon], "mib": dict(mib), "ports": [2001]})
    for i in range(1, n):
        where = r.choice(["in", "out", "edge", "in", "out"])
        e, nn = _place(r, area, where)
        lat, lon = rc.offset_position(blat, blon, e, nn)
        stations.append({"mac": macs[i], "st": r.randint(0, 11), "pos": [lat, lon], "mib": dict(mib), "ports": [2001]})
    pe, pn = _place(r, area, r.choice(["in", "out"]))
    plat, plon = rc.offset_position(blat, blon, pe, pn)
    stations.append({"mac": macs[n], "role": "peer", "pos": [plat, plon]})
    peer = n
    links = [[0, i] for i in range(1, n)] + [[peer, i] for i in range(0, n)]
    ops = []
    t = 1000
    for i in range(n):               # neighbours everywhere (SHB warm-up) so SCF/greedy have something to work with
        ops.append({"op": "req", "t": t, "st": i, "type": "shb", "btp": "b", "dport": 2001, "dpinfo": 0, "payload": "aa%02x" % i, "tc": 0, "hl": 1, "lt": None})
        t += 700
    t += 5000
    psrc = macs[n + 1]
    psn = r.randrange(65536)
    for k in range(r.randint(2, 6)):
        t += r.randint(3000, 40000)
        typ = r.choice(["gbc", "gac"])
        ar = dict(area)
        if r.random() < 0.3:
            ar["angle"] = r.choice([0, r.randint(0, 359)])
        if r.random() < 0.5:
            ops.append({"op": "req", "t": t, "st": 0, "type": typ, "btp": "b", "dport": 2001, "dpinfo": k, "payload": npl.rand_payload(r, k + 1, 60),
                        "tc": r.randrange(64) | (0x80 if r.random() < 0.1 else 0), "hl": r.choice([1, 2, 3, 10]), "lt": None, "area": ar})
        else:
            psn = (psn + 1) % 65536
            so = {"addr": rc.enc_addr(0, 5, bytes.fromhex(psrc)).hex(), "tst_off_ms": -r.randint(0, 900) + k, "lat": plat, "lon": plon,
                  "pai": r.randint(0, 1), "speed": r.randint(0, 3000), "heading": r.randint(0, 3599)}
            mhl = r.choice([1, 2, 3, 10])
            pkt = npl.rand_pkt(r, typ.upper(), psrc, so=so, area={k_: v for k_, v in ar.items() if k_ != "shape"}, rhl=r.choice([mhl, mhl, max(0, mhl - 1)]),
                               mhl=mhl, sn=psn, lt=r.choice([26, 40, 100]), dport=2001, nh=2)
            pkt["common"]["hst"] = ar["shape"]
            pkt["common"]["tc"] = r.randrange(64) | (0x80 if r.random() < 0.1 else 0)
            ops.append({"op": "inject", "t": t, "frm": peer, "pkt": pkt})
    # moving stations (own PRNG stream): receivers (and sometimes the sender) cross the area border between / right before packets,
    # so that "inside" is decided from the position in force when the packet arrives, not from where the station started
    r2 = random.Random(run_seed ^ 0x7A0B1E)
    if r2.random() < 0.4:
        geo_ts = [o["t"] for o in ops if o["op"] in ("req", "inject") and o["t"] > 1000 + 700 * n]
        for _ in range(r2.randint(1, 6)):
            i = r2.randrange(0, n) if r2.random() < 0.2 else r2.randrange(1, n)
            tm = (r2.choice(geo_ts) - r2.choice([1, 50, 500, 2500])) if geo_ts and r2.random() < 0.7 else r2.randint(1000 + 700 * n, t)
            e, nn = _place(r2, area, r2.choice(["in", "out", "edge", "in", "out"]))
            la, lo = rc.offset_position(blat, blon, e, nn)
            ops.append({"op": "gnss", "t": max(0, tm), "st": i, "lat": la, "lon": lo, "speed": round(r2.uniform(0, 30), 2), "track": round(r2.uniform(0, 359.9), 1)})
        ops.sort(key=lambda o: o["t"])
    cfg = {"t0_us": 1_767_225_600_000_000 + r.randrange(0, 86_400_000) * 1000, "net_seed": r.getrandbits(32), "latency_us": [100, 1500],
           "fifo": True, "topology": links, "run_limit_us": t + 1_000_000, "fault_class": "none", "hemi": hemi, "anti": anti}
    return {"engine": ENGINE, "property": ID, "config": cfg, "stations": stations, "ops": ops}


def area_key(area, shape, cfg, *coords) -> str:
    k = f"shape={shape}/" + ("angle=0" if area["angle"] % 360 == 0 or shape == 0 else "rotated")
    k += "/" + ("NE" if all(c >= 0 for c in coords) else "neg-coord")
    if cfg.get("anti"):
        k += "/antimeridian"
    return k


class C07Monitor(Monitor):
    def __init__(self):
        self.tr = []
        self.newest: dict[tuple, dict] = {}    # reference LocT PV per (station, gen, source): newest by TST

    def on_tx(self, sim, rec):
        try:
            rec["parsed"] = rc.parse_packet(rec["frame"])
        except rc.Malformed:
            rec["parsed"] = None

    def before_rx(self, sim, rec):
        rec["gn0"] = len(sim.hist.gnind)
        rec["tx0"] = len(sim.hist.tx)
        st = sim.stations[rec["st"]]
        if st.role == "stack":
            ego = st.ego()
            rec["ego_pos"] = (ego.latitude, ego.longitude)
            rec["n_neigh"] = len(st.gn.location_table.get_neighbours())

    def after_rx(self, sim, rec):
        st = sim.stations[rec["st"]]
        p = rec.get("parsed")
        if p is None or "secured" in p:
            return
        if rec.get("dpl") in ("fresh", None) and p["so"]["addr"]["mid"] != st.mac:
            k = (st.idx, st.gen, p["so"]["addr"]["mid"])
            old = self.newest.get(k)
            if old is None or rc.tst_newer(p["so"]["tst"], old["tst"]):
                self.newest[k] = p["so"]
        if rec.get("ptype") not in ("GBC", "GAC") or rec.get("dpl") != "fresh":
            return
        typ = rec["ptype"]
        shape = p["common"]["hst"]
        area = p["area"]
        lat, lon = rec["ego_pos"]
        key = area_key(area, shape, sim.cfg, area["lat"], area["lon"], lat, lon)
        sim.probe("shape:%d" % shape)
        if area["angle"] % 360 and shape:
            sim.probe("rotated")
        if sim.cfg.get("anti"):
            sim.probe("antimeridian")
        if min(area["lat"], area["lon"], lat, lon) < 0:
            sim.probe("neg-hemisphere")
        delivered = len(sim.hist.gnind) > rec["gn0"]
        my_tx = [t for t in sim.hist.tx[rec["tx0"]:] if t["st"] == st.idx and root_cause(t["cause"]) == ("rx", rec["i"])]
        verdict = rc.area_verdict(shape, area, lat, lon) if area["a"] > 0 and (shape == 0 or area["b"] > 0) else None
        if verdict is not None and any(o["op"]["op"] == "gnss" and o["op"]["st"] == st.idx and not o["skipped"] for o in sim.hist.ops):
            sim.probe("moved-then-judged")
        outcome = "?"
        if verdict == "inside":
            sim.probe("judged-inside")
            outcome = "in+" if delivered else "in-"
            if not delivered:
                sim.violate(ID, "not-delivered-inside", f"{typ}/{key}", f"station {st.idx} at ({lat},{lon}) is inside area {area} (shape {shape}) but the {typ} was not delivered")
        elif verdict == "outside":
            sim.probe("judged-outside")
            outcome = "out+" if delivered else "out-"
            if delivered:
                sim.violate(ID, "delivered-outside", f"{typ}/{key}", f"station {st.idx} at ({lat},{lon}) is outside area {area} (shape {shape}) but the {typ} was delivered")
        else:
            sim.probe("near-border-no-verdict")
        # --- forwarding: judged only for packets received directly from their source
        src_tx = sim.hist.tx[rec["tx"]]
        direct = sim.stations[src_tx["st"]].mac == p["so"]["addr"]["mid"] or src_tx["injected"]
        rhl = p["basic"]["rhl"]
        size = rc.area_size_km2(shape, area["a"], area["b"])
        maxs = st.mib.itsGnMaxGeoAreaSize
        over = size > maxs * (1 + 1e-6)
        under = size < maxs * (1 - 1e-6)
        scf = bool(p["common"]["tc"] & 0x80)
        self.pending = getattr(self, "pending", [])
        if over:
            sim.probe("oversize-forward")
            self.pending.append(("over", rec, st, typ, key))
        elif direct and under and verdict is not None and rhl >= 2:
            so = self.newest.get((st.idx, st.gen, p["so"]["addr"]["mid"]), p["so"])
            se_inside = rc.area_verdict(shape, area, so["lat"], so["lon"])
            if typ == "GBC":
                if verdict == "inside":
                    sim.probe("annex-d-area-case")
                    if st.mib.itsGnAreaForwardingAlgorithm.name != "CBF" and (not scf or rec["n_neigh"] > 0):
                        self.pending.append(("must-forward", rec, st, typ, key + "/area"))
                elif scf and rec["n_neigh"] == 0:
                    sim.probe("scf-no-neighbour-not-judged")   # the standard buffers here (step 10); buffering is unimplemented
                elif so["pai"] and se_inside == "inside":
                    sim.probe("annex-d-discard-case")
                    self.pending.append(("must-not-forward", rec, st, typ, key + "/discard"))
                elif not so["pai"] or se_inside == "outside":
                    sim.probe("annex-d-nonarea-case")
                    if not scf:
                        self.pending.append(("must-forward", rec, st, typ, key + "/non-area"))
            else:   # GAC: inside -> deliver and stop; outside -> forward unless the sender is known to be inside
                if verdict == "inside":
                    self.pending.append(("must-not-forward", rec, st, typ, key + "/gac-inside"))
                elif so["pai"] and se_inside == "inside":
                    sim.probe("annex-d-discard-case")
                    self.pending.append(("must-not-forward", rec, st, typ, key + "/discard"))
                elif (not so["pai"] or se_inside == "outside") and not scf:
                    sim.probe("annex-d-nonarea-case")
                    self.pending.append(("must-forward", rec, st, typ, key + "/non-area"))
        self.tr.append((typ, shape, area["angle"] % 360 != 0, outcome))

    def after_op(self, sim, rec):
        op = rec["op"]
        if op["op"] != "req" or op["type"] not in ("gbc", "gac") or rec["skipped"]:
            return
        st = sim.stations[op["st"]]
        a = op["area"]
        size = rc.area_size_km2(a["shape"], a["a"], a["b"])
        maxs = st.mib.itsGnMaxGeoAreaSize
        conf = sim.confirms.get(rec["idx"], [])
        sent = [t for t in sim.hist.tx[rec["tx_from"]:rec["tx_to"]] if t["st"] == st.idx]
        key = area_key(a, a["shape"], sim.cfg, a["lat"], a["lon"])
        if size > maxs * (1 + 1e-6):
            sim.probe("oversize-request")
            if rec["exc"] is None and (conf != ["GEOGRAPHICAL_SCOPE_TOO_LARGE"] or sent):
                sim.violate(ID, "oversize-accepted", f"request/{op['type']}/shape={a['shape']}", f"request for an area of {size:.3f} km2 (max {maxs}) got confirm {conf} and {len(sent)} frame(s)")
        elif size < maxs * (1 - 1e-6):
            if rec["exc"] is None and conf == ["GEOGRAPHICAL_SCOPE_TOO_LARGE"]:
                sim.violate(ID, "oversize-accepted", f"request-refused/{op['type']}/shape={a['shape']}", f"request for an area of {size:.3f} km2 (max {maxs}) was refused")
        if rec["exc"] is not None:
            sim.violate(ID, "request-raised", f"{op['type']}/{type(rec['exc']).__name__}/{key}", f"GN request raised {rec['exc']!r}")

    def on_end(self, sim):
        for kind, rec, st, typ, key in getattr(self, "pending", []):
            p = rec["parsed"]
            fw = [t for t in sim.hist.tx if t["st"] == st.idx and t["gen"] == rec["gen"] and root_cause(t["cause"]) == ("rx", rec["i"])
                  and t.get("parsed") and "sn" in t["parsed"] and t["parsed"]["sn"] == p["sn"]
                  and t["parsed"]["so"]["addr"]["mid"] == p["so"]["addr"]["mid"]]
            if kind == "over" and fw:
                sim.violate(ID, "oversize-accepted", f"forward/{typ}/shape={p['common']['hst']}", f"station {st.idx} forwarded a {typ} whose area exceeds itsGnMaxGeoAreaSize")
            elif kind == "must-not-forward" and fw:
                sim.violate(ID, "annex-d-differs", f"{typ}/{key}/forwarded", f"station {st.idx} forwarded a {typ} that Annex D / the GAC rule says to keep or discard")
            elif kind == "must-forward" and not fw:
                sim.violate(ID, "annex-d-differs", f"{typ}/{key}/not-forwarded", f"station {st.idx} did not forward a {typ} (RHL {p['basic']['rhl']}) that Annex D selects for forwarding")


class Sim(c01.C01Sim):
    def __init__(self, plan):
        super().__init__(plan)
        self.mon = C07Monitor()
        self.monitors.append(self.mon)


def make_sim(plan):
    return Sim(plan)


def execute(plan: dict) -> dict:
    sim = Sim(plan)
    sim.run()
    return finish(sim, sim.mon.tr, nontrivial=bool(sim.probes.get("judged-inside") or sim.probes.get("judged-outside")))
