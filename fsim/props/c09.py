"""C09 - trust-store closure and signer authorisation (engine `sec`)."""
from __future__ import annotations

import json
import random

from .. import seccrypto as sc
from ..secsim import SecSim
from ..result import finish

ID = "C09"
ENGINE = "sec"
RUNS = {"quick": 5000, "thorough": 90000}
RULE_TEXT = ("one run = one seeded history (6-28 ops) against one real CertificateLibrary + VerifyService: add_root / add_aa / add_at / "
             "add_own / verify_sequence_of_certificates calls and received signed messages mixing a genuine root->AA->tickets PKI (made by "
             "the repo's issuing API) with forged, re-signed, permission-escalated, wrongly-issued, expired and edited certificates, the "
             "virtual clock stepping across ticket validity periods (durations spelled in every unit of the Duration CHOICE), tickets whose "
             "appPermissions is empty or absent, certificates with crafted signature / key encodings, plus issuing-API calls over issuer/subject PSID sets and chain-length "
             "budgets; after every op the AA/AT stores are re-verified by an independent chain verifier (raw ecdsa + OER coder); "
             "non-trivial = at least one library / verify / issuing call executed; distinct = distinct abstract traces "
             "(sequence of (op, API method, certificate kind, outcome))")
COMPONENTS = {"real": ["security.CertificateLibrary", "security.Certificate/OwnCertificate (verify + issuing API)", "security.VerifyService",
                       "security.SignService (senders, P2PCD notifications)", "security.SecurityCoder (OER)",
                       "PythonECDSABackend.sign/verify_with_pk"],
              "stub": ["virtual clock (TimeService.time)", "seeded ECDSA entropy (key generation, nonces)"]}
ASSUMPTIONS = [
    "chain-length budgets (minChainLength / chainLengthRange) of stored certificates are counted by probes, not judged: the statement's store clause names signature and permission containment only; for the issuing API only the depth budget is judged","'configured root' = a certificate offered through add_root_certificate (or the constructor's root list) and present in the root store",
               "permission containment is judged at PSID level (SSPs, eeType and regions are not judged)",
               "chain length is judged as an upper bound (certificates below the issuer <= minChainLength + chainLengthRange, -1 = unbounded); "
               "the lower bound (>= minChainLength) is only counted",
               "a signature is accepted by the independent verifier under the repo's convention (ECDSA-SHA256 over the COER toBeSigned) or the "
               "IEEE 1609.2 one (hash of data || hash of signer certificate)",
               "generation time is judged against the ticket's validity with a 10 s margin (leap-second conventions differ by 5 s)",
               "validity of stored certificates is not demanded (only counted); it is demanded of the signing ticket at message acceptance"]
EXPECTED_PROBES = [
    "api:ctor", "api:add_root_certificate", "api:add_authorization_authority", "api:add_authorization_ticket", "api:add_own_certificate",
    "api:verify_sequence_of_certificates", "api:verify", "api:initialize_certificate", "api:issue_certificate",
    "chain-len:0", "chain-len:1", "chain-len:2", "chain-len:3", "chain-len:4",
    "offered:genuine-root", "offered:genuine-aa", "offered:genuine-at", "offered:attacker-root", "offered:attacker-aa", "offered:attacker-at",
    "offered:resigned", "offered:resigned-under-attacker", "offered:escalated-at", "offered:at-by-root", "offered:sub-ca-escalated",
    "offered:sub-ca-all", "offered:sub-ca-exhausted", "offered:sub-ca-range", "offered:sub-ca-ok", "offered:sub-ca-child", "offered:issued-by-ticket",
    "offered:expired", "offered:not-yet-valid", "offered:valid-window", "offered:key-swapped", "offered:edited:psid", "offered:edited:start",
    "offered:edited:duration", "offered:edited:id", "offered:edited:issuer", "offered:edited:sig-s", "offered:edited:sig-r", "offered:edited:version",
    "offered:edited:min-chain", "offered:mutated:bitflip", "offered:mutated:byte", "offered:mutated:truncate", "offered:mutated:extend",
    "offered-undecodable", "stored:aa", "stored:at", "stored:root", "stored:own", "rejected:aa", "rejected:at", "rejected:root",
    "store-entry-verified", "msg:SUCCESS", "msg:FALSE_SIGNATURE", "msg:INCONSISTENT_CHAIN", "msg:SIGNER_CERTIFICATE_NOT_FOUND",
    "msg:INVALID_CERTIFICATE", "msg-signer:digest", "msg-signer:certificate", "msg-psid:inside", "msg-psid:outside",
    "msg-gen:before", "msg-gen:within", "msg-gen:after", "msg-gen:boundary", "success:psid-inside", "success:gen-within",
    "success:independent-agrees", "msg:key-mismatch", "msg:unknown-digest", "msg:service", "msg:mutated", "requested-cert-offered",
    "clock:crossed-start", "clock:crossed-end", "issue:verified", "issue:refused", "issue:verified-contained", "issue:refused-not-contained",
    "issue:issuer-all", "issue:issuer-explicit", "issue:issuer-not-ca", "issue:subject-ca", "issue:subject-at", "issue:budget-exhausted",
    "issue:subject-beyond-psids", "issue:three-level",
    "offered:crafted-encoding", "offered:edited:sig-form", "offered:edited:sig-alg", "offered:edited:key-form",
    "offered:empty-app-at", "offered:no-app-at", "ticket-empty-app-permissions", "ticket-without-app-permissions",
    "validity-unit:microseconds", "validity-unit:milliseconds", "validity-unit:seconds", "validity-unit:minutes", "validity-unit:hours",
    "validity-unit:sixtyHours", "validity-unit:years",
]

N0 = sc.its_s(sc.DEFAULT_NOW_UNIX)
POOL = [36, 37, 638, 139, 99, 0x20409]
VARIANTS = {"quick": 24, "thorough": 96}
MARGIN_S = 10.0


# ----------------------------------------------------------------------------------------------- plan generation
def pki_params(v: int) -> dict:
    """Parameters of genuine-PKI variant v (a pure function of v; runs share variants so that workers can cache them)."""
    r = random.Random(0xC09000 + v)
    n = r.randint(2, 4)
    sets = [sorted(r.sample(POOL, r.randint(1, 3))) for _ in range(n)]
    if v % 2 == 0:
        sets[0] = sorted(set(sets[0]) | {36, 37})
    if v % 6 == 2:
        sets[-1] = []                         # a genuine ticket (issued through the repo's API) whose appPermissions is present but empty
    union = sorted(set().union(*sets))
    c = r.random()
    if c < 0.2:
        aa = "all"
    elif c < 0.6:
        aa = union
    else:
        aa = sorted(set(union) | set(r.sample(POOL, 2)))
    windows = []
    for _ in range(n):
        c = r.random()
        if c < 0.3:
            w = [0, ["minutes", r.choice([5, 10, 20])]]
        elif c < 0.5:
            w = [r.choice([600, 1800, 3000]), ["minutes", r.choice([10, 30])]]
        elif c < 0.65:
            w = [-r.choice([7200, 86400]), ["hours", 1]]
        elif c < 0.8:
            w = [-r.choice([100, 1000]), ["seconds", r.choice([400, 2000, 40000])]]
        else:
            w = [-3600, ["years", 1]]
        windows.append(w)
    if v % 6 == 5:
        k = 1 + (v // 6) % 2                  # a ticket valid for k sixtyHours units that ends shortly before / after N0
        windows[-1] = [-216000 * k + (900, -400, 3000, 120)[(v // 6) % 4], ["sixtyHours", k]]
    return {"seed": v, "n": n, "psid_sets": sets, "aa_psids": aa, "tickets_validity": windows, "now": N0,
            "root_min_chain": r.choice([2, 2, 2, 3]), "root_chain_range": r.choice([0, 0, 1, -1])}


def _win(w) -> tuple[float, float]:
    return float(w[0]), float(w[0]) + w[1][1] * sc._DUR_S[w[1][0]]


def _outside_psids(r, inside) -> list[int]:
    cand = [p for p in POOL + [1, 140, 141, 0x7FFFFFFF] if p not in inside]
    return r.sample(cand, r.randint(1, 2))


def _rand_sub_ca(r, pk) -> dict:
    """CA certificate signed with the genuine AA's / root's key (mis-issuance).  Without appPermissions the repo's permission
    check raises KeyError under an explicit issuer, so half of them carry appPermissions inside the issuer's PSIDs."""
    aa = pk["aa_psids"]
    inside = POOL if aa == "all" else aa
    c = r.random()
    if c < 0.25:
        spec = {"k": "sub-ca", "psids": sorted(set(r.sample(inside, 1)) | set(_outside_psids(r, inside))) if aa != "all" else r.sample(POOL, 2),
                "min": 1, "range": 0, "by": "aa", "label": "sub-ca-escalated"}
    elif c < 0.4:
        spec = {"k": "sub-ca", "psids": "all", "min": 1, "range": 0, "by": "aa", "label": "sub-ca-all"}
    elif c < 0.65:
        spec = {"k": "sub-ca", "psids": r.sample(inside, min(len(inside), r.randint(1, 2))), "min": r.choice([1, 1, 2]), "range": 0, "by": "aa",
                "label": "sub-ca-exhausted"}
    elif c < 0.8:
        spec = {"k": "sub-ca", "psids": r.sample(POOL, 2), "min": 1, "range": r.choice([3, 5, -1]), "by": "root", "label": "sub-ca-range"}
    else:
        spec = {"k": "sub-ca", "psids": r.sample(POOL, r.randint(1, 3)), "min": 1, "range": 0, "by": "root", "label": "sub-ca-ok"}
    if r.random() < 0.5:
        spec["app"] = r.sample(inside, 1)
    return spec


def _rand_validity(r, pk, t_rel: float) -> dict:
    return _respell_validity(_rand_validity_v1(r, pk, t_rel), t_rel)


def _rand_validity_v1(r, pk, t_rel: float) -> dict:
    """AT properly signed by the genuine AA with a validity chosen relative to the run's current clock (t_rel from N0)."""
    c = r.random()
    psids = r.choice(pk["psid_sets"])
    if c < 0.4:
        return {"k": "validity", "start_off": int(t_rel - r.choice([4000, 90000])), "dur": ["seconds", r.choice([60, 600, 3000])],
                "psids": psids, "label": "expired"}
    if c < 0.75:
        return {"k": "validity", "start_off": int(t_rel + r.choice([120, 900, 7200])), "dur": ["minutes", r.choice([5, 60])],
                "psids": psids, "label": "not-yet-valid"}
    return {"k": "validity", "start_off": int(t_rel - r.choice([30, 300])), "dur": ["seconds", r.choice([90, 600, 2400])],
            "psids": psids, "label": "valid-window"}


_UNIT_COUNTS = {"microseconds": [1000, 50000, 65535], "milliseconds": [1000, 30000, 65535], "seconds": [60, 600, 3000, 40000],
                "minutes": [5, 60, 600], "hours": [1, 12, 48], "sixtyHours": [1, 2], "years": [1]}


def _respell_validity(spec: dict, t_rel: float) -> dict:
    """Spell the validity of a `_rand_validity` ticket in any unit of the Duration CHOICE, the window edge that matters for the label
    30 / 300 / 5000 s away from the run clock.  Decided by a PRNG derived from the spec itself, so the plan stream is not consumed."""
    r2 = random.Random((int(spec["start_off"]) * 7919 + int(spec["dur"][1]) * 104729 + len(spec["label"])) ^ 0x0D12A7)
    if r2.random() < 0.35:
        return spec
    unit = r2.choice(sorted(_UNIT_COUNTS))
    n = r2.choice(_UNIT_COUNTS[unit])
    off = r2.choice([30, 300, 5000])
    length = n * sc._DUR_S[unit]
    if spec["label"] == "expired":
        start = t_rel - off - length          # ended `off` seconds ago
    elif spec["label"] == "not-yet-valid":
        start = t_rel + off
    else:
        start = t_rel - min(off, max(1.0, length / 2))
    out = dict(spec)
    out["start_off"], out["dur"] = int(start), [unit, n]
    return out


EDIT_FIELDS = ["psid", "start", "duration", "id", "issuer", "sig-s", "sig-r", "version", "min-chain"]
MUTS = ["bitflip", "bitflip", "byte", "truncate", "extend"]


def rand_cert(r, pk, role: str, t_rel: float, depth: int = 0) -> dict:
    n = pk["n"]
    aa = pk["aa_psids"]
    c = r.random()
    if role == "root":
        if c < 0.45:
            return {"k": "g", "role": "root"}
        if c < 0.7:
            return {"k": "atk", "role": "root", "tag": r.randint(0, 2)}
        if c < 0.8:
            return {"k": "edited", "role": "root", "i": 0, "field": r.choice(["id", "sig-s", "duration", "version", "min-chain"]), "v": r.randint(1, 9)}
        if c < 0.9:
            return {"k": "resigned", "role": "root", "i": 0, "swap": True}
        return {"k": "mutated", "base": {"k": "g", "role": "root"}, "m": r.choice(MUTS), "a": r.randrange(4000), "v": r.randrange(256)}
    if role == "aa":
        if c < 0.25:
            return {"k": "g", "role": "aa"}
        if c < 0.55:
            return _rand_sub_ca(r, pk)
        if c < 0.65:
            return {"k": "atk", "role": "aa", "tag": r.randint(0, 2)}
        if c < 0.72:
            return {"k": r.choice(["resigned", "resigned-atk"]), "role": "aa", "i": 0, "swap": r.random() < 0.7}
        if c < 0.82:
            return {"k": "edited", "role": "aa", "i": 0, "field": r.choice(EDIT_FIELDS), "v": r.randint(1, 9)}
        if c < 0.86:
            return {"k": "key-swapped", "role": "aa", "i": 0}
        if c < 0.93 and depth < 2:
            return {"k": "child", "parent": _rand_sub_ca(r, pk), "psids": r.sample(POOL, 2), "ca": True, "min": 1, "label": "sub-ca-child"}
        return {"k": "mutated", "base": {"k": "g", "role": "aa"}, "m": r.choice(MUTS), "a": r.randrange(4000), "v": r.randrange(256)}
    # authorization tickets
    i = r.randrange(n)
    if c < 0.26:
        return {"k": "g", "role": "at", "i": i}
    if c < 0.34:
        inside = POOL if aa == "all" else aa
        return {"k": "esc-at", "psids": sorted(set(r.sample(inside, 1)) | set(_outside_psids(r, [] if aa == "all" else inside))), "by": "aa"}
    if c < 0.40:
        return {"k": "esc-at", "psids": r.sample(POOL, r.randint(1, 2)), "by": "root"}
    if c < 0.46:
        return {"k": "atk", "role": "at", "tag": r.randint(0, 2)}
    if c < 0.52:
        return {"k": r.choice(["resigned", "resigned-atk"]), "role": "at", "i": i, "swap": r.random() < 0.7}
    if c < 0.57:
        return {"k": "by-ticket", "i": i, "psids": r.sample(POOL, 2)}
    if c < 0.70:
        return _rand_validity(r, pk, t_rel)
    if c < 0.79:
        return {"k": "edited", "role": "at", "i": i, "field": r.choice(EDIT_FIELDS), "v": r.randint(1, 9)}
    if c < 0.82:
        return {"k": "key-swapped", "role": "at", "i": i}
    if c < 0.93 and depth < 2:
        return {"k": "child", "parent": _rand_sub_ca(r, pk), "psids": r.sample(POOL, r.randint(1, 2)), "label": "sub-ca-child"}
    base = {"k": "g", "role": "at", "i": i} if r.random() < 0.7 else _rand_validity(r, pk, t_rel)
    return {"k": "mutated", "base": base, "m": r.choice(MUTS), "a": r.randrange(4000), "v": r.randrange(256)}


def _has_key(spec: dict) -> bool:
    return spec["k"] in ("g", "atk", "esc-at", "sub-ca", "child", "by-ticket", "validity", "key-swapped", "resigned-atk", "crafted", "empty-app") or \
        (spec["k"] == "resigned" and spec.get("swap", True))


def _spec_window(spec: dict, pk) -> tuple[float, float] | None:
    """Validity window relative to N0 when the generator knows it (for targeting generation times)."""
    if spec["k"] == "g" and spec["role"] == "at":
        return _win(pk["tickets_validity"][spec["i"] % pk["n"]])
    if spec["k"] == "validity":
        return _win([spec["start_off"], spec["dur"]])
    return None


def _spec_psids(spec: dict, pk) -> list[int]:
    if spec["k"] == "g" and spec["role"] == "at":
        return pk["psid_sets"][spec["i"] % pk["n"]]
    if spec["k"] == "empty-app":
        return []
    if spec["k"] == "crafted" and not spec.get("own_tbs"):
        return pk["psid_sets"][spec.get("i", 0) % pk["n"]] if spec.get("role") == "at" else []
    ps = spec.get("psids")
    return list(ps) if isinstance(ps, list) else list(sc.DEFAULT_PSIDS)


def _rand_gen_time(r, win, t_rel: float) -> float:
    if win is None:
        return t_rel + r.choice([0, -1, 1, -3000, 3000])
    s, e = win
    c = r.random()
    if c < 0.3:
        return s - r.choice([30, 300, 5000])
    if c < 0.6:
        return e + r.choice([30, 300, 5000])
    if c < 0.7:
        return r.choice([s, e]) + r.choice([-5, -1, 0, 1, 5])
    lo, hi = s + 15, max(s + 16, e - 15)
    return lo + r.random() * (hi - lo)


def _rand_group(r, kind: str) -> dict:
    if kind == "all":
        ps = "all"
    else:
        ps = sorted(r.sample(POOL, r.randint(1, 3)))
    return {"psids": ps, "min": r.choice([0, 1, 1, 2, 2, 3]), "range": r.choice([0, 0, 0, 1, 2, -1])}


def rand_issue(r, tag: int) -> dict:
    root_groups = [_rand_group(r, "all" if r.random() < 0.5 else "explicit")]
    if r.random() < 0.25:
        root_groups.append(_rand_group(r, "explicit"))
    op = {"op": "issue", "tag": tag, "method": "initialize" if r.random() < 0.6 else "issue_certificate",
          "root": {"groups": root_groups, "app": None if r.random() < 0.7 else r.sample(POOL, 1)}, "mid": None}
    c = r.random()
    if c < 0.45:
        g = _rand_group(r, "all" if r.random() < 0.25 else "explicit")
        op["mid"] = {"groups": [g], "app": None if r.random() < 0.6 else sorted(r.sample(POOL, r.randint(1, 2)))}
    elif c < 0.55:
        op["mid"] = {"groups": None, "app": sorted(r.sample(POOL, 2)), "named": False}      # an AT used as issuer
    if r.random() < 0.55:
        op["subject"] = {"groups": None, "app": sorted(r.sample(POOL, r.randint(0, 3)))}
    else:
        gs = [_rand_group(r, "all" if r.random() < 0.2 else "explicit")]
        if r.random() < 0.2:
            gs.append(_rand_group(r, "explicit"))
        op["subject"] = {"groups": gs, "app": None if r.random() < 0.35 else sorted(r.sample(POOL, r.randint(1, 2)))}
    return op


def gen_plan(run_seed: int, tier: str) -> dict:
    r = random.Random(run_seed)
    pk = pki_params(r.randrange(VARIANTS.get(tier, 24)))
    n = pk["n"]
    wins = [_win(w) for w in pk["tickets_validity"]]
    # clock start relative to N0, aimed at one ticket's validity boundaries
    j = r.randrange(n)
    s, e = wins[j]
    c = r.random()
    if c < 0.2:
        t_rel = 0.0
    elif c < 0.4:
        t_rel = s - r.choice([20, 120, 600])
    elif c < 0.6:
        t_rel = s + min(r.choice([20, 120]), (e - s) / 2)
    elif c < 0.8:
        t_rel = e - min(r.choice([20, 200]), (e - s) / 2)
    else:
        t_rel = e + r.choice([20, 600, 3000])
    t_rel = float(int(t_rel))
    lib = {"own": r.randrange(n) if r.random() < 0.5 else None, "preload": r.sample(range(n), r.randint(0, n)) if r.random() < 0.5 else [],
           "with_root": r.random() < 0.93, "with_aa": r.random() < 0.8, "sign_service": r.random() < 0.8}
    cfg = {"t0_us": (sc.DEFAULT_NOW_UNIX + int(t_rel)) * 1_000_000 + r.randrange(1_000_000), "pki": pk, "atk_seed": r.randrange(4), "lib": lib}
    ops: list[dict] = []
    w_add, w_msg, w_issue, w_adv = r.choice([(4, 4, 1, 1.5), (6, 2, 0.5, 1), (2, 6, 0.5, 2), (3, 3, 3, 1)])
    n_ops = r.randint(6, 28)
    tag = 0
    while len(ops) < n_ops:
        c = r.random() * (w_add + w_msg + w_issue + w_adv)
        if c < w_add:
            api = r.choice(["add_root", "add_aa", "add_aa", "add_at", "add_at", "add_at", "add_own", "verify_chain", "verify_chain"])
            issuer_mode = r.choice(["proper", "proper", "proper", "lib", "none", "wrong"])
            if api == "verify_chain":
                ln = r.choice([0, 1, 1, 2, 2, 2, 3, 3, 4])
                roles = ["at", "aa", "root", "root"][:ln]
                c2 = r.random()
                if ln >= 2 and c2 < 0.35:           # coherent forged chain: child, its parent, (root)
                    parent = _rand_sub_ca(r, pk) if r.random() < 0.6 else {"k": "atk", "role": "aa", "tag": 0}
                    first = {"k": "child", "parent": parent, "psids": r.sample(POOL, 2), "label": "sub-ca-child"} if parent["k"] == "sub-ca" \
                        else {"k": "atk", "role": "at", "tag": 0}
                    chain = [first, parent] + [rand_cert(r, pk, "root", t_rel) if parent["k"] == "sub-ca" else {"k": "atk", "role": "root", "tag": 0}
                                               for _ in range(ln - 2)]
                elif ln >= 2 and c2 < 0.6:          # genuine chain
                    chain = [{"k": "g", "role": "at", "i": r.randrange(n)}, {"k": "g", "role": "aa"}] + [{"k": "g", "role": "root"}] * (ln - 2)
                else:
                    chain = [rand_cert(r, pk, ro if r.random() < 0.85 else r.choice(["at", "aa", "root"]), t_rel) for ro in roles]
                ops.append({"op": "verify_chain", "chain": chain})
            else:
                role = {"add_root": "root", "add_aa": "aa", "add_at": "at", "add_own": "at"}[api]
                if r.random() < 0.15:
                    role = r.choice(["root", "aa", "at"])
                spec = rand_cert(r, pk, role, t_rel)
                if api == "add_at" and spec["k"] == "child" and r.random() < 0.7:
                    ops.append({"op": "add", "api": "add_aa", "cert": spec["parent"], "issuer": "proper"})
                ops.append({"op": "add", "api": api, "cert": spec, "issuer": issuer_mode})
                if api in ("add_at", "add_aa") and _has_key(spec) and r.random() < 0.35:
                    ops.append(_forge_msg(r, pk, spec, t_rel, form="digest"))
        elif c < w_add + w_msg:
            if r.random() < 0.4:
                i = r.randrange(n)
                psid = r.choice(pk["psid_sets"][i] or POOL)
                profile = "cam" if psid == 36 else ("denm" if psid == 37 else "other")
                if profile == "other" and r.random() < 0.15:
                    profile = "cam"
                ops.append({"op": "message", "via": "service", "st": i, "psid": psid, "profile": profile,
                            "payload": bytes([r.randrange(256) for _ in range(r.randint(1, 24))]).hex()})
            else:
                if r.random() < 0.55:
                    spec = {"k": "g", "role": "at", "i": r.randrange(n)}
                else:
                    spec = rand_cert(r, pk, "at" if r.random() < 0.85 else "aa", t_rel)
                m = _forge_msg(r, pk, spec, t_rel)
                ops.append(m)
                if m["form"] == "certificate" and r.random() < 0.4:
                    m2 = _forge_msg(r, pk, spec, t_rel, form="digest")
                    ops.append(m2)
        elif c < w_add + w_msg + w_issue:
            tag += 1
            ops.append(rand_issue(r, tag))
        else:
            c2 = r.random()
            if c2 < 0.4:
                dt = r.choice([1, 5, 30, 120])
            elif c2 < 0.8:
                # jump just past the next validity boundary of some ticket
                bounds = sorted(b for w in wins for b in w if b > t_rel)
                dt = int(bounds[0] - t_rel) + r.choice([11, 30, 200]) if bounds else r.choice([600, 3600])
                dt = min(dt, 40 * 86400)
            else:
                dt = r.choice([600, 1800, 3600, 86400])
            t_rel += dt
            ops.append({"op": "advance", "dt_s": dt})
    ops.extend(_second_stream(run_seed, pk, wins, t_rel))
    return {"engine": ENGINE, "property": ID, "config": cfg, "ops": ops}


def _plain_msg(spec: dict, psid: int, form: str, gen_n0_s: float, payload_tag: int) -> dict:
    return {"op": "message", "via": "forge", "cert": spec, "key": "own", "form": "certificate" if psid == 37 else form, "psid": psid,
            "gen_n0_s": round(gen_n0_s, 3), "loc": psid == 37, "mode": "plain", "payload": bytes([payload_tag & 0xFF, psid & 0xFF, 0x5E]).hex()}


def _second_stream(run_seed: int, pk: dict, wins: list, t_rel: float) -> list[dict]:
    """Ops appended by features added after the first generator (own PRNG, so that earlier plans keep their shape):
    (1) certificates with crafted signature / key encodings offered to the library and used as message signers,
    (2) tickets whose appPermissions is empty (genuine, through the issuing API, when the PKI variant has one; hand-built under the
        genuine AA otherwise) or absent, and messages signed by them for several ITS-AIDs with certificate and digest signers."""
    r2 = random.Random(run_seed ^ 0xC09E7A)
    n = pk["n"]
    out: list[dict] = []

    def mid(i):                                   # a generation time well inside genuine ticket i's validity (or now)
        s, e = wins[i % n]
        return s + (e - s) / 2 if e - s > 4 * MARGIN_S else t_rel

    if r2.random() < 0.3:
        role = r2.choice(["at", "at", "at", "aa"])
        i = r2.randrange(n)
        if r2.random() < 0.6:
            alg = r2.choice(sc.SIG_ALGS) if r2.random() < 0.4 else sc.SIG_ALGS[0]
            spec = {"k": "crafted", "role": role, "i": i, "alg": alg, "r_form": r2.choice(sc.R_FORMS[1:] if alg == sc.SIG_ALGS[0] else sc.R_FORMS),
                    "rs": r2.choice(["random", "copied"]), "key_form": r2.choice(sc.KEY_FORMS), "own_tbs": role == "at" and r2.random() < 0.3,
                    "tag": r2.randrange(3)}
        else:
            spec = {"k": "edited", "role": role, "i": i, "field": r2.choice(["sig-form", "sig-alg", "key-form"]), "v": r2.randint(1, 9)}
        c = r2.random()
        if c < 0.55:
            out.append({"op": "add", "api": "add_at" if role == "at" else "add_aa", "cert": spec, "issuer": r2.choice(["proper", "proper", "lib"])})
        elif c < 0.75:
            out.append({"op": "verify_chain", "chain": [spec] if role == "at" else [{"k": "g", "role": "at", "i": i}, spec]})
        if role == "at" and spec["k"] == "crafted":
            inside = (list(sc.DEFAULT_PSIDS) if spec["own_tbs"] else pk["psid_sets"][i]) or [36]
            g = t_rel if spec["own_tbs"] else mid(i)
            out.append(_plain_msg(spec, r2.choice(inside), "certificate", g, 1))
            if r2.random() < 0.6:
                out.append(_plain_msg(spec, r2.choice(inside), "digest", g, 2))
    empties = [j for j in range(n) if not pk["psid_sets"][j]]
    if r2.random() < (0.5 if empties else 0.12):
        if empties and r2.random() < 0.7:
            j = r2.choice(empties)
            spec, g = {"k": "g", "role": "at", "i": j}, mid(j)
        else:
            spec, g = {"k": "empty-app", "absent": r2.random() < 0.35, "start_off": int(t_rel) - 3600, "dur": ["years", 1], "tag": r2.randrange(2)}, t_rel
        if r2.random() < 0.7:
            out.append({"op": "add", "api": "add_at", "cert": spec, "issuer": "proper"})
        for k in range(r2.randint(2, 4)):
            out.append(_plain_msg(spec, r2.choice([36, 36, 37, 99, 638, 139, 0]), "certificate" if k % 2 == 0 else "digest", g, 10 + k))
    return out


def _forge_msg(r, pk, spec: dict, t_rel: float, form: str | None = None) -> dict:
    inside = _spec_psids(spec, pk)
    c = r.random()
    if c < 0.5 and inside:
        psid = r.choice(inside)
    elif c < 0.9:
        psid = r.choice(_outside_psids(r, inside))
    else:
        psid = r.choice([0, 36, 37])
    key = "own" if _has_key(spec) and r.random() < 0.82 else r.choice(["atk", str(r.randrange(pk["n"]))])
    op = {"op": "message", "via": "forge", "cert": spec, "key": key, "form": form or r.choice(["digest", "certificate", "certificate"]),
          "psid": psid, "gen_n0_s": round(_rand_gen_time(r, _spec_window(spec, pk), t_rel), 3), "loc": psid == 37 and r.random() < 0.9,
          "mode": "plain" if r.random() < 0.92 else "ieee1609", "payload": bytes([r.randrange(256) for _ in range(r.randint(1, 24))]).hex()}
    if psid == 37 and form is None and r.random() < 0.9:
        op["form"] = "certificate"
    if r.random() < 0.03:
        op["gen_n0_s"] = None
    c = r.random()
    if c < 0.07:
        which = rand_cert(r, pk, "aa", t_rel)
        op["extra"] = {"requestedCertificate": which}
    elif c < 0.1:
        op["extra"] = {"inlineP2pcdRequest": [bytes([r.randrange(256) for _ in range(3)]).hex() for _ in range(r.randint(1, 3))]}
    if r.random() < 0.06:
        op["mut"] = {"m": r.choice(MUTS), "a": r.randrange(4000), "v": r.randrange(256)}
    return op


# ----------------------------------------------------------------------------------------------- oracle
class Oracle:
    def __init__(self, sim: SecSim):
        self.sim = sim
        self.flagged: set = set()
        self.seen_entries: set = set()
        self.seen_roots: set = set()
        self.ok: set = set()
        self._enc: dict = {}
        sim.hooks.append(self.after_op)

    # ---- store closure -------------------------------------------------------------------------
    def _entries(self, store: str):
        """(key, decoded dict, encoding) of every entry as observed; encodings are cached per stored object."""
        out = []
        for h8, obj in list(self.sim.store(store).items()):
            c = self._enc.get(id(obj))
            if c is None or c[0] is not obj:
                d = getattr(obj, "certificate", None)
                try:
                    b = sc.encode_cert(d)
                except Exception:
                    b = None
                c = (obj, d, b)
                self._enc[id(obj)] = c
            out.append((bytes(h8), c[1], c[2]))
        return out

    def check_stores(self, rec: dict) -> None:
        """Every AA / AT store entry must chain to a configured root by the independent verifier.  Stores only grow and the
        verdict is monotone in the set of trusted roots and intermediates, so an entry found justified is not re-verified
        (a final pass at the end of the run re-encodes and re-verifies everything once more)."""
        sim = self.sim
        roots = self._entries("root")
        for (h8, d, b) in roots:
            if (h8, b) not in self.seen_roots:
                self.seen_roots.add((h8, b))
                sim.probe("stored:root")
                sim.probe("stored:root:%s" % sim.known.get(b, "unknown"))
                if b is None or b not in sim.configured_roots:
                    sim.probe("root-store-entry-not-configured")
        todo = []
        aas = self._entries("aa")
        for store, entries in (("aa", aas), ("at", self._entries("at")), ("own", self._entries("own"))):
            for (h8, d, b) in entries:
                ek = (store, h8, b)
                if ek in self.ok or ek in self.flagged:
                    continue
                todo.append((store, h8, d, b, ek))
        if not todo:
            return
        trusted = [(d, b) for (_h, d, b) in roots if b is not None and b in sim.configured_roots]
        cv = sc.ChainVerifier(trusted, [(d, b) for (_h, d, b) in aas if b is not None])
        offered = {fg.cert: fg.kind for fg in rec.get("offered", [])}
        now = sim.now_its_s()
        for (store, h8, d, b, ek) in todo:
            new = ek not in self.seen_entries
            kind = offered.get(b) or sim.known.get(b, "unknown")
            if new:
                self.seen_entries.add(ek)
                sim.probe("stored:" + store)
                sim.probe("stored:%s:%s" % (store, kind))
            if b is None:
                reasons, res = ["decode:entry-not-encodable"], None
            else:
                res = cv.verify((d, b))
                reasons = list(res.at_level(0))
                if sc.hashed_id8(b) != h8:
                    reasons.append("link:stored-under-wrong-digest")
                if new:
                    s_, e_ = sc.validity_of(d)
                    if now < s_:
                        sim.probe("store-entry-not-yet-valid")
                    elif now > e_:
                        sim.probe("store-entry-expired")
                    for nt in res.notes:
                        sim.probe("store-entry-note:" + nt)
                if not reasons and res.reasons:
                    if new:
                        sim.probe("store-entry-under-unjustified-issuer")
                    continue
            if not reasons:
                self.ok.add(ek)
                sim.probe("store-entry-verified")
                if store != "own" and (store == "aa") != bool(sc.issue_groups(d)):
                    sim.probe("store-entry-role-mismatch:" + store)
                continue
            self.flagged.add(ek)
            if store == "own":
                sim.probe("own-store-entry-unjustified")
                continue
            cat = _cat(reasons)
            if cat.startswith("chain-"):
                # The statement's store clause speaks of signature + permission containment only; the chain-length budget of the
                # issuer (minChainLength / chainLengthRange, which the stack never evaluates on reception) is counted, not judged.
                sim.probe("store-entry-beyond-chain-length:" + cat)
                continue
            # key: the method that admits into this store / forgery kind / failed check.  The entry point of the history
            # (add_*, verify_sequence_of_certificates, verify, constructor) is in the detail: all of them admit through add_*.
            writer = "add_authorization_authority" if store == "aa" else "add_authorization_ticket"
            key = "%s/%s" % (writer, cat) if cat.startswith("chain-") else "%s/%s/%s" % (writer, kind, cat)
            sim.violate(ID, "store-entry-unjustified", key,
                        "after op %s (entry point %s, offered %s, outcome %s) the %s store holds %s (%s) which the independent chain "
                        "verifier rejects up to the configured roots: %s" % (rec["idx"], rec["api"], rec.get("kind"), rec.get("outcome"),
                                                                             store.upper(), h8.hex(), kind, "; ".join(reasons)))

    def final_check(self) -> None:
        self._enc.clear()
        self.ok.clear()
        self.check_stores({"idx": "end", "op": {"op": "final"}, "api": "final", "kind": "-", "outcome": "-", "offered": []})

    # ---- rejections (probes only) ----------------------------------------------------------------
    def count_outcome(self, rec: dict) -> None:
        sim = self.sim
        if rec["op"]["op"] == "add" and rec["outcome"] == "rejected":
            store = SecSim._API[rec["op"]["api"]][1]
            sim.probe("rejected:" + store)

    # ---- message authorisation -------------------------------------------------------------------
    def check_message(self, rec: dict) -> None:
        sim = self.sim
        enc = rec.get("message")
        if enc is None:
            return
        op = rec["op"]
        if op["via"] == "service":
            sim.probe("msg:service")
        if op.get("mut"):
            sim.probe("msg:mutated")
        if op.get("key", "own") != "own":
            sim.probe("msg:key-mismatch")
        pm = sc.parse_signed_message(enc)
        if not pm.ok:
            sim.probe("msg:not-parseable")
            if rec["outcome"] == "SUCCESS":
                sim.probe("success:not-parseable")
            return
        sim.probe("msg-signer:" + str(pm.signer_kind))
        ticket = None
        if pm.signer_kind == "certificate":
            ticket = pm.signer_cert
        elif pm.signer_kind == "digest":
            ent = sim.store("at").get(pm.signer_digest)
            if ent is not None:
                ticket = ent.certificate
            else:
                sim.probe("msg:unknown-digest")
                cands = [b for b in sim.known if sc.hashed_id8(b) == pm.signer_digest]
                if cands:
                    try:
                        ticket = sc.decode_cert(cands[0])
                    except sc.Undecodable:
                        ticket = None
        success = rec["outcome"] == "SUCCESS"
        if ticket is None:
            if success:
                sim.probe("success:signer-unidentified")
            return
        ap = sc.app_psids(ticket)
        inside = ap is not None and pm.psid in ap
        if ap is None:
            # no application permissions at all: the ITS-AID cannot be among them, acceptance is judged like any other outside ITS-AID
            sim.probe("ticket-without-app-permissions")
        elif not ap:
            sim.probe("ticket-empty-app-permissions")
        sim.probe("msg-psid:" + ("inside" if inside else "outside"))
        side = None
        if pm.generation_time is not None:
            s, e = sc.validity_of(ticket)
            g = pm.generation_time / 1e6
            if g < s - MARGIN_S:
                side = "before"
            elif g > e + MARGIN_S:
                side = "after"
            elif s + MARGIN_S <= g <= e - MARGIN_S:
                side = "within"
            else:
                side = "boundary"
            sim.probe("msg-gen:" + side)
            if side in ("before", "after"):
                sim.probe("validity-unit:" + str(ticket["toBeSigned"]["validityPeriod"]["duration"][0]))
        if not success:
            return
        conf = rec["confirm"]
        form = pm.signer_kind
        if inside:
            sim.probe("success:psid-inside")
        else:
            sim.violate(ID, "accepted-outside-permissions", "verify/%s" % form,
                        "op %d: message with ITS-AID %s reported SUCCESS although the signing ticket %s only holds appPermissions %s"
                        % (rec["idx"], pm.psid, sc.hashed_id8(ticket).hex(), ap))
        if side == "within":
            sim.probe("success:gen-within")
        elif side in ("before", "after"):
            s, e = sc.validity_of(ticket)
            sim.violate(ID, "accepted-outside-validity", "verify/%s" % side,
                        "op %d: message generated at ITS time %.3f s reported SUCCESS although the signing ticket %s is valid only in "
                        "[%.0f, %.0f] (%s by %.0f s)" % (rec["idx"], pm.generation_time / 1e6, sc.hashed_id8(ticket).hex(), s, e, side,
                                                        (s - pm.generation_time / 1e6) if side == "before" else (pm.generation_time / 1e6 - e)))
        elif side == "boundary":
            sim.probe("success:gen-boundary-unjudged")
        if "requestedCertificate" in (pm.header or {}):
            # Appendix A item 15 (C05's subject, only counted here): is a requested CA certificate ever learnt?
            sim.probe("requested-cert:in-accepted-message")
            try:
                h = sc.hashed_id8(pm.header["requestedCertificate"])
                if h in sim.store("aa") and h not in rec.get("aa_before", ()):
                    sim.probe("requested-cert:learnt")
            except sc.Undecodable:
                pass
        vm = sc.verify_signed_message(enc, ticket)
        if vm.mode is not None:
            sim.probe("success:independent-agrees")
        else:
            sim.probe("success:independent-signature-rejects")
        if bytes(conf.certificate_id) != sc.hashed_id8(ticket):
            sim.probe("success:certificate-id-differs")

    # ---- issuing API -----------------------------------------------------------------------------
    def check_issue(self, rec: dict) -> None:
        sim = self.sim
        from flexstack.security.certificate import Certificate
        be = rec.get("backend")
        entries = rec.get("issued", [])
        if len(entries) == 3:
            sim.probe("issue:three-level")
        for e in entries:
            issuer, res = e["issuer"], e["result"]
            if issuer is None or res is None:
                continue
            idict, rdict = issuer.certificate, res.certificate
            ig = sc.issue_groups(idict)
            itype = "not-ca" if not ig else ("all" if any(g.all for g in ig) else "explicit")
            sim.probe("issue:issuer-" + itype)
            sub = "ca" if "certIssuePermissions" in rdict["toBeSigned"] else "at"
            sim.probe("issue:subject-" + sub)
            if ig and all(g.max_below < 1 for g in ig):
                sim.probe("issue:budget-exhausted")
            want = set(e["spec"].get("app") or [])
            for g in e["spec"].get("groups") or []:
                if g["psids"] != "all":
                    want |= set(g["psids"])
            covered = any(g.all for g in ig) or want <= set().union(*[g.psids for g in ig]) if ig else False
            if not covered and want:
                sim.probe("issue:subject-beyond-psids")
            try:
                ib = sc.encode_cert(idict)
                rb = sc.encode_cert(rdict)
            except Exception:
                sim.probe("issue:result-not-encodable")
                continue
            linked = rdict["issuer"][0] == "sha256AndDigest" and rdict["issuer"][1] == sc.hashed_id8((idict, ib))
            indep = linked and sc.cert_signature_mode((rdict, rb), (idict, ib)) is not None
            try:
                repo_ok = bool(Certificate.from_dict(rdict, issuer).verify(be))
            except Exception:
                repo_ok = False
            if repo_ok != indep:
                sim.probe("issue:verify-disagree:repo=%s" % repo_ok)
            reasons = sc.check_permissions(rdict, idict)
            if not (repo_ok or indep):
                sim.probe("issue:refused")
                if not sc.check_permissions({"toBeSigned": _requested_tbs(e["spec"])}, idict):
                    sim.probe("issue:refused-although-contained")
                else:
                    sim.probe("issue:refused-not-contained")
                continue
            sim.probe("issue:verified")
            if not reasons:
                sim.probe("issue:verified-contained")
                continue
            perm = [x for x in reasons if x.startswith("perm:")]
            chain = [x for x in reasons if x.startswith("chain:")]
            base = "%s/%s/issuer-%s" % (e["method"], sub, itype)
            if perm:
                what = perm[0].split(":")[1]
                sim.violate(ID, "issued-beyond-permissions", base + "/" + _perm_class(what, perm[0]),
                            "op %d: %s returned a certificate that verifies under its issuer although %s; issuer issuing permissions %s, "
                            "certificate app %s issue %s" % (rec["idx"], e["method"], "; ".join(perm), _fmt_groups(ig), sc.app_psids(rdict),
                                                             _fmt_groups(sc.issue_groups(rdict))))
            if chain and all(x.startswith("chain:range") for x in chain):
                # only minChainLength + chainLengthRange exceeds the issuer's reach; the stack never reads chainLengthRange
                # and the statement speaks of the issuer's remaining chain length: counted, not judged
                sim.probe("issue:verified-beyond-chain-range")
            elif chain:
                cls = "depth"
                sim.violate(ID, "issued-beyond-chain-length", base + "/" + cls,
                            "op %d: %s returned a certificate that verifies under its issuer although the issuer's remaining chain length "
                            "does not allow it: %s; issuer %s, certificate issue groups %s"
                            % (rec["idx"], e["method"], "; ".join(chain), _fmt_groups(ig), _fmt_groups(sc.issue_groups(rdict))))

    # ---- clock probes ------------------------------------------------------------------------------
    def check_advance(self, rec: dict) -> None:
        sim = self.sim
        t0, t1 = rec["t_before"], sim.now_its_s()
        for b in sim.pki.ticket_bytes:
            s, e = sc.validity_of(sc.as_cert(b)[0])
            if t0 < s <= t1:
                sim.probe("clock:crossed-start")
            if t0 < e <= t1:
                sim.probe("clock:crossed-end")

    def after_op(self, sim: SecSim, rec: dict) -> None:
        kind = rec["op"]["op"]
        if kind == "advance":
            self.check_advance(rec)
        elif kind == "message":
            self.check_message(rec)
        elif kind == "issue":
            self.check_issue(rec)
        self.count_outcome(rec)
        self.check_stores(rec)


def _requested_tbs(spec: dict) -> dict:
    tbs: dict = {}
    if spec.get("app") is not None:
        tbs["appPermissions"] = [{"psid": p} for p in spec["app"]]
    if spec.get("groups") is not None:
        tbs["certIssuePermissions"] = [sc.group(g["psids"], g["min"], g["range"]) for g in spec["groups"]]
    return tbs


def _perm_class(what: str, reason: str) -> str:
    if what == "issuer-has-no-issuing-permissions":
        return "issuer-not-ca"
    if reason.endswith(":all"):
        return "issue-all"
    return what.replace("-not-covered", "")


def _fmt_groups(gs) -> str:
    return "[" + ", ".join("%s min=%d range=%d" % ("all" if g.all else sorted(g.psids), g.min, g.range) for g in gs) + "]"


def _cat(reasons: list[str]) -> str:
    cats = [x.split(":", 1)[0] for x in reasons]
    for c in ("decode", "sig", "link", "root", "perm"):
        if c in cats:
            return c
    if any(x.startswith("chain:range") for x in reasons) and not any(x.startswith("chain:") and not x.startswith("chain:range") for x in reasons):
        return "chain-range"
    return "chain-depth"


# ----------------------------------------------------------------------------------------------- entry points
def execute(plan: dict) -> dict:
    sim = SecSim(plan)
    oracle = Oracle(sim)
    sim.run()
    oracle.final_check()
    return finish(sim, sim.trace, nontrivial=sim.nontrivial)


def _shrink_config(plan):
    base = json.loads(json.dumps(plan))
    for path, val in ((("lib", "preload"), []), (("lib", "own"), None), (("lib", "sign_service"), True), (("lib", "with_aa"), True),
                      (("lib", "with_root"), True)):
        c = json.loads(json.dumps(base))
        if c["config"][path[0]].get(path[1]) != val:
            c["config"][path[0]][path[1]] = val
            yield c


def _shrink_ops(plan):
    """Simplify single ops: drop message extras / mutations, use the proper issuer, plain mode."""
    for i, op in enumerate(plan.get("ops", [])):
        for k in ("extra", "mut"):
            if op.get(k):
                c = json.loads(json.dumps(plan))
                del c["ops"][i][k]
                yield c
        if op.get("issuer") not in (None, "proper"):
            c = json.loads(json.dumps(plan))
            c["ops"][i]["issuer"] = "proper"
            yield c
        if op.get("op") == "issue" and op.get("mid") is not None:
            c = json.loads(json.dumps(plan))
            c["ops"][i]["mid"] = None
            yield c


SHRINKERS = [_shrink_config, _shrink_ops]
