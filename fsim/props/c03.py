"""C03 - secured packets are delivered only if authentic and untampered."""
from __future__ import annotations

import copy
import random

from .. import refcodec as rc
from .. import netplan as npl
from .. import seccrypto as sc
from ..kernel import HarnessError
from ..secnet import SecNetSim
from ..result import finish
from . import c05

ID = "C03"
ENGINE = "net+sec"
RUNS = {"quick": 1000, "thorough": 14000}
DOUBLE = {"quick": 32, "thorough": 300}
RULE_TEXT = ("one run = 2-4 secured stations exchanging genuine CAM/VAM/DENM/generic traffic in virtual time plus an adversary node on the ether that "
             "(a) mutates captured genuine secured frames (single-bit flip, byte substitution, truncation, extension at seeded positions), "
             "(b) decodes, edits one field (payload, psid, generationTime, generationLocation, signer digest / certificate fields, r, s, hashId, "
             "protocolVersion) and re-encodes, (c) signs with its own key under a self-made root/AA/AT chain, under a genuine ticket it does not own "
             "(digest or certificate), under re-signed / key-swapped certificates, under crafted certificates (own key, genuine AA named as issuer) "
             "whose signature octets sit in an unusual CHOICE / point form (Brainpool, P-384, SM2; r as compressed-y-*, uncompressed, fill; compressed "
             "subject keys), the same encodings for the message signature over a genuine ticket, (d) sends unsecured copies of genuine payloads and "
             "unsecured attacker-made SHB / GBC / GUC packets with the Basic Header next-header nibble drawn from {1, 0, 3..15}, (e) replays; "
             "every GN indication at every receiver must be justified by an independent verifier (raw ecdsa + chain check); trust stores are checked "
             "at the end; non-trivial = at least one adversary frame reached a receiver; distinct = distinct sequences of (adversary kind, outcome)")
COMPONENTS = c05.COMPONENTS
ASSUMPTIONS = ["mutations that leave the decoded envelope identical (bits the OER decoder ignores) or that only alter fields which are neither signed content, "
               "signer nor signature (outer protocolVersion, hashId) are not judged (counted by probes)",
               "replays of genuine frames are authentic; accepting them is not a violation",
               "the unsigned basic header (lifetime, remaining hop limit) may be altered"]
EXPECTED_PROBES = ["adv:bitflip", "adv:byte", "adv:truncate", "adv:extend", "adv:field", "adv:attacker-chain", "adv:key-mismatch-cert",
                   "adv:key-mismatch-digest", "adv:unknown-digest", "adv:unsecured-copy", "adv:replay", "adv:resigned", "adv:key-swapped",
                   "adv:crafted-encoding", "adv-crafted:cert", "adv-crafted:msg", "adv-field:cert-sig-alg", "adv-field:cert-version-lowered",
                   "adv:unsecured-nh", "adv-unsecured:nh=0", "adv-unsecured:nh=1", "adv-unsecured:nh>=3", "adv-unsecured:copy", "adv-unsecured:SHB",
                   "adv-unsecured:GBC", "adv-unsecured:GUC",
                   "adv-frame-rejected", "genuine-delivered", "store-checked"]

FIELD_EDITS = [
    ("payload", ["content", 1, "tbsData", "payload", "data", "content"]),
    ("psid", ["content", 1, "tbsData", "headerInfo", "psid"]),
    ("generationTime", ["content", 1, "tbsData", "headerInfo", "generationTime"]),
    ("generationLocation", ["content", 1, "tbsData", "headerInfo", "generationLocation"]),
    ("signer-digest", ["content", 1, "signer"]),
    ("cert-version", ["content", 1, "signer", 1, 0, "version"]),
    ("cert-psid", ["content", 1, "signer", 1, 0, "toBeSigned", "appPermissions"]),
    ("cert-validity", ["content", 1, "signer", 1, 0, "toBeSigned", "validityPeriod", "start"]),
    ("cert-key", ["content", 1, "signer", 1, 0, "toBeSigned", "verifyKeyIndicator"]),
    ("cert-issuer", ["content", 1, "signer", 1, 0, "issuer"]),
    ("sig-r", ["content", 1, "signature"]),
    ("sig-s", ["content", 1, "signature"]),
    ("hashId", ["content", 1, "hashId"]),
    ("protocolVersion", ["protocolVersion"]),
    # edits added later are only drawn by the second plan stream (gen_plan), so that earlier plans keep their shape
    ("cert-sig-alg", ["content", 1, "signer", 1, 0, "signature"]),
    ("cert-version", ["content", 1, "signer", 1, 0, "version"]),
]
N_FIELDS_V1 = 14
ADV_KINDS = ["bitflip", "bitflip", "bitflip", "byte", "truncate", "extend", "field", "field", "attacker-chain", "key-mismatch-cert",
             "key-mismatch-digest", "unknown-digest", "unsecured-copy", "replay", "resigned", "key-swapped"]


def gen_plan(run_seed: int, tier: str) -> dict:
    r = random.Random(run_seed ^ 0xC03C03)
    plan = c05.gen_plan(run_seed ^ 0x3333, tier)
    plan["property"] = ID
    cfg = plan["config"]
    cfg["fault_class"] = "byzantine"
    cfg.pop("rates", None)
    cfg["fifo"] = True
    n = len(plan["stations"])
    while n > 4:
        plan["stations"].pop()
        n -= 1
    plan["ops"] = [o for o in plan["ops"] if not (o.get("st", 0) >= n or o["op"] == "link" and max(o["a"], o["b"]) >= n)]
    cfg["topology"] = [l for l in cfg["topology"] if max(l) < n]
    cfg["psid_sets"] = cfg["psid_sets"][:n]
    for st_ in plan["stations"]:
        st_["preload"] = [j for j in st_.get("preload", []) if j < n]
    blat, blon = plan["stations"][0]["pos"]
    adv = n
    plan["stations"].append({"mac": npl.rand_mac(r), "role": "peer", "pos": [blat, blon]})
    for i in range(n):
        cfg["topology"].append([adv, i])
    dur = max([o["t"] for o in plan["ops"]] + [1_000_000])
    aops = []
    for k in range(r.randint(6, 30)):
        kind = r.choice(ADV_KINDS)
        op = {"op": "adv", "t": r.randint(50_000, dur + 200_000), "kind": kind, "base": r.randrange(1 << 20), "pos": r.random(), "val": r.randrange(256),
              "n": r.randint(1, 40), "victim": r.randrange(n), "form": r.choice(["certificate", "digest"]), "psid": r.choice([36, 36, 37, 638, 99]),
              "tag": k}
        if kind == "field":
            op["field"] = r.randrange(N_FIELDS_V1)
        aops.append(op)
    # second stream (own PRNG): crafted encodings and edits of certificate-carrying frames
    r2 = random.Random(run_seed ^ 0xC3AF7ED)
    for k in range(r2.choice([0, 1, 1, 2, 3])):
        op = {"op": "adv", "t": r2.randint(50_000, dur + 200_000), "base": r2.randrange(1 << 20), "pos": r2.random(), "val": r2.randrange(256),
              "n": r2.randint(1, 40), "victim": r2.randrange(n), "tag": 1000 + k}
        c2 = r2.random()
        if c2 < 0.25:
            # unsecured packet (no envelope at all) with any Basic Header next-header value but SECURED_PACKET
            op.update({"kind": "unsecured-nh", "nh": r2.choice([0, 0, 0, 1, 3, 4, 7, 15, r2.randrange(3, 16)]),
                       "shape": r2.choice(["copy", "copy", "SHB", "GBC", "GUC"]), "psid": r2.choice([36, 37, 638, 99]), "form": "none"})
        elif c2 < 0.75:
            what = "cert" if r2.random() < 0.7 else "msg"
            alg = r2.choice(sc.SIG_ALGS) if r2.random() < 0.5 else sc.SIG_ALGS[0]
            r_form = r2.choice(sc.R_FORMS[1:]) if (alg != sc.SIG_ALGS[0] or r2.random() < 0.85) else "x-only"
            if alg == sc.SIG_ALGS[0] and r_form == "x-only" and what == "msg":
                r_form = "compressed-y-0"
            op.update({"kind": "crafted-encoding", "what": what, "alg": alg, "r_form": r_form, "rs": r2.choice(["random", "copied"]),
                       "key_form": r2.choice(sc.KEY_FORMS), "own_tbs": r2.random() < 0.3, "psid": r2.choice([36, 36, 638, 99, 37]),
                       "form": r2.choice(["certificate", "certificate", "digest"]), "then_digest": r2.random() < 0.5})
        else:
            op.update({"kind": "field", "field": r2.choice([N_FIELDS_V1, N_FIELDS_V1 + 1]), "need_cert": True, "lower": True,
                       "form": "certificate", "psid": 36})
        aops.append(op)
    plan["ops"] = sorted(plan["ops"] + aops, key=lambda o: o["t"])
    cfg["run_limit_us"] = max(cfg["run_limit_us"], dur + 1_000_000)
    return plan


class Sim(SecNetSim):
    def __init__(self, plan):
        super().__init__(plan)
        self.adv_log: list[dict] = []
        self.forger = None

    def custom_op(self, idx, op, rec):
        if op["op"] != "adv":
            return super().custom_op(idx, op, rec)
        if self.forger is None:
            self.forger = sc.Forger(("c03", self.cfg.get("pki_seed", 0)), self.pki)
        kind = op["kind"]
        adv = next(s for s in self.stations if s.role == "peer")
        genuine = [t for t in self.sectx if not t["injected"] and t["m"].ok is not None]
        frames_all = {t["i"]: self.hist.tx[t["i"]]["frame"] for t in genuine}
        entry = {"idx": idx, "kind": kind, "t": self.kernel.now_us, "base": None, "detail": kind, "frame": None}
        self.probe("adv:" + kind)
        now_its_us = sc.its_us(self.kernel.now_us)
        frame = None
        if kind == "unsecured-nh":
            nh = op["nh"] & 0x0F
            cls = "nh=%d" % nh if nh < 3 else "nh>=3"
            inner, shape = None, op["shape"]
            if shape == "copy":
                cands = [t for t in genuine if t["m"].payload is not None]
                if cands:
                    base = cands[op["base"] % len(cands)]
                    entry["base"] = base
                    inner = base["m"].payload
                else:
                    shape = "SHB"
            if inner is None:
                inner = self._inner_payload(op, shape)
                entry["forged_payload"] = inner
            entry["detail"] = "%s/%s" % ("unsecured-copy" if shape == "copy" else "unsecured-made", cls)
            self.probe("adv-unsecured:" + cls)
            self.probe("adv-unsecured:" + shape)
            entry["frame"] = bytes([0x10 | nh, 0, 26, 1]) + inner
            self.fault("inject")
            self.fault("forge")
            entry["tx"] = self.transmit(adv, entry["frame"], injected=True)
            self.adv_log.append(entry)
            return
        if kind in ("bitflip", "byte", "truncate", "extend", "field", "replay", "unsecured-copy"):
            if not genuine:
                rec["skipped"] = True
                return
            if op.get("need_cert"):
                genuine = [t for t in genuine if t["m"].signer_kind == "certificate"]
                if not genuine:
                    rec["skipped"] = True
                    return
            base = genuine[op["base"] % len(genuine)]
            bframe = frames_all[base["i"]]
            entry["base"] = base
            env = bframe[4:]
            if kind == "replay":
                frame = bframe
            elif kind == "unsecured-copy":
                inner = base["m"].payload
                if inner is None:
                    rec["skipped"] = True
                    return
                frame = bytes([bframe[0] & 0xF0 | rc.NH_COMMON]) + bframe[1:4] + inner
            elif kind == "field":
                name, path = FIELD_EDITS[op["field"]]
                entry["detail"] = "field:" + name
                try:
                    dec = sc.decode_data(env)
                    cur = sc.get_path(dec, path)
                except Exception:
                    rec["skipped"] = True
                    return
                new = _edit_value(name, cur, op)
                if name == "cert-sig-alg" and new is not None:
                    self.probe("adv-field:cert-sig-alg")
                if name == "cert-version" and new is not None and new < cur:
                    self.probe("adv-field:cert-version-lowered")
                if new is None:
                    rec["skipped"] = True
                    return
                try:
                    frame = bframe[:4] + sc.edit_message(env, path, new)
                except Exception:
                    rec["skipped"] = True
                    return
            else:
                # position inside the whole frame (basic header included: LT/RHL are unsigned)
                a = int(op["pos"] * len(bframe) * (8 if kind == "bitflip" else 1))
                frame = sc.mutate(bframe, kind, a, op["val"])
                entry["detail"] = kind
                entry["bitpos"] = a if kind == "bitflip" else None
        else:
            victim = op["victim"]
            vt = self.stations[victim].spec["ticket"]
            payload_inner = self._inner_payload(op)
            psid = op["psid"]
            if kind == "attacker-chain":
                ch = self.forger.attacker_chain(tag=("c03", op["tag"] % 3))
                at = ch["at"]
                env = self.forger.message(payload_inner, psid, now_its_us, at.key, at.cert, op["form"])
            elif kind == "key-mismatch-cert":
                env = self.forger.message_key_mismatch(payload_inner, psid, now_its_us, i=vt, signer_form="certificate", tag=op["tag"] % 3)
            elif kind == "key-mismatch-digest":
                env = self.forger.message_key_mismatch(payload_inner, psid, now_its_us, i=vt, signer_form="digest", tag=op["tag"] % 3)
            elif kind == "unknown-digest":
                env = self.forger.message_unknown_digest(payload_inner, psid, now_its_us, tag=op["tag"] % 3)
            elif kind == "resigned":
                f = self.forger.resigned("at", vt, swap_key=True, tag=op["tag"] % 3)
                env = self.forger.message(payload_inner, psid, now_its_us, f.key, f.cert, "certificate")
            elif kind == "key-swapped":
                f = self.forger.key_swapped("at", vt, tag=op["tag"] % 3)
                env = self.forger.message(payload_inner, psid, now_its_us, f.key, f.cert, "certificate")
            elif kind == "crafted-encoding":
                loc = {"latitude": adv.pos[0], "longitude": adv.pos[1], "elevation": 0xF000} if psid == 37 else None
                entry["form"] = op["what"] + "/" + ("r-" + op["r_form"] if op["alg"] == sc.SIG_ALGS[0] else "other-alg")
                self.probe("adv-crafted:" + op["what"])
                if op["what"] == "cert":
                    f = self.forger.crafted("at", vt, op["alg"], op["r_form"], op["rs"], op["key_form"], tag=op["tag"] % 3, own_tbs=op["own_tbs"])
                    first = "certificate" if op["then_digest"] else op["form"]
                    env = self.forger.message(payload_inner, psid, now_its_us, f.key, f.cert, first, generation_location=loc)
                    if op["then_digest"]:
                        # poisoning attempt: certificate-carrying frame first, then a digest-signed one naming the crafted certificate
                        e1 = dict(entry, frame=rc.enc_basic(rc.NH_SECURED, 26, 1) + env, forged_payload=payload_inner)
                        self.fault("inject")
                        self.fault("forge")
                        e1["tx"] = self.transmit(adv, e1["frame"], injected=True)
                        self.adv_log.append(e1)
                        env = self.forger.message(payload_inner, psid, now_its_us, f.key, f.cert, "digest", generation_location=loc)
                else:
                    env = self.forger.message_crafted_signature(payload_inner, psid, now_its_us, i=vt, signer_form=op["form"], alg=op["alg"],
                                                                r_form=op["r_form"], tag=op["tag"] % 3, generation_location=loc)
            else:
                raise HarnessError("adv kind " + kind)
            frame = rc.enc_basic(rc.NH_SECURED, 26, 1) + env
            entry["forged_payload"] = payload_inner
        entry["frame"] = frame
        self.fault("inject")
        self.fault("corrupt" if entry["base"] is not None and kind not in ("replay",) else ("replay" if kind == "replay" else "forge"))
        entry["tx"] = self.transmit(adv, frame, injected=True)
        self.adv_log.append(entry)

    def _inner_payload(self, op, shape: str = "SHB") -> bytes:
        """A plausible GN-PDU without basic header (common header + SHB / GBC / GUC extended header + BTP + data) made by the adversary."""
        adv = next(s for s in self.stations if s.role == "peer")
        body = rc.enc_btp(2001 if op["psid"] == 36 else 2018 if op["psid"] == 638 else 2002 if op["psid"] == 37 else 99, 0) + \
            b"FORGED" + op["tag"].to_bytes(2, "big") + bytes([op["val"]]) * (op["n"] % 9)
        so = {"addr": rc.enc_addr(0, 5, adv.mac), "tst": rc.tst_from_unix_ms(self.kernel.now_us // 1000), "lat": adv.pos[0], "lon": adv.pos[1],
              "pai": 0, "speed": 0, "heading": 0}
        pkt = {"basic": {"nh": 1, "lt": 26, "rhl": 1}, "common": {"nh": 2, "ht": rc.HT_TSB, "hst": 0, "tc": 0, "flags": 0, "mhl": 1},
               "so": so, "payload": body}
        if shape == "GBC":
            pkt["common"].update({"ht": rc.HT_GBC, "hst": 0})
            pkt["sn"] = (op["tag"] * 251 + op["val"]) & 0xFFFF
            pkt["area"] = {"lat": adv.pos[0], "lon": adv.pos[1], "a": 2000, "b": 2000, "angle": 0}
        elif shape == "GUC":
            from ..wiremon import ego_fields
            vic = ego_fields(self.stations[op["victim"]].ego())
            pkt["common"].update({"ht": rc.HT_GUC, "hst": 0})
            pkt["sn"] = (op["tag"] * 251 + op["val"]) & 0xFFFF
            pkt["de"] = {"addr": vic["addr"], "tst": vic["tst"], "lat": vic["lat"], "lon": vic["lon"]}
        return rc.build_packet(pkt)[4:]


def _edit_value(name, cur, op):
    v = op["val"]
    if name == "payload":
        kind, data = cur
        if not isinstance(data, (bytes, bytearray)) or not data:
            return None
        b = bytearray(data)
        b[int(op["pos"] * len(b)) % len(b)] ^= (v | 1)
        return (kind, bytes(b))
    if name == "psid":
        return {36: 37, 37: 36, 638: 36}.get(cur, 36) if v % 2 else cur + 1 + v
    if name == "generationTime":
        return cur + (1 if v % 3 == 0 else (v + 1) * 1_000_000 * (1 if v % 2 else -1))
    if name == "generationLocation":
        d = dict(cur)
        d["latitude"] = d.get("latitude", 0) + 1 + v
        return d
    if name == "signer-digest":
        if cur[0] != "digest":
            return None
        b = bytearray(cur[1])
        b[v % 8] ^= 1 << (v % 8)
        return ("digest", bytes(b))
    if name == "cert-version":
        if op.get("lower") or v % 2:
            return max(0, cur - 1 - (v // 2) % 3) if cur > 0 else None
        return cur + 1 + v % 3
    if name == "cert-sig-alg":
        return sc.reencode_signature(cur, alg=sc.SIG_ALGS[1 + v % 4])
    if name == "cert-psid":
        lst = copy.deepcopy(cur)
        lst.append({"psid": 4242 + v})
        return lst
    if name == "cert-validity":
        return cur - 86400 * (1 + v)
    if name == "cert-key":
        kind, key = cur
        if isinstance(key, tuple) and isinstance(key[1], tuple):
            pt_kind, pt = key[1]
            if isinstance(pt, (bytes, bytearray)):
                b = bytearray(pt)
                b[v % len(b)] ^= 1
                return (kind, (key[0], (pt_kind, bytes(b))))
        return None
    if name == "cert-issuer":
        kind, h = cur
        if isinstance(h, (bytes, bytearray)):
            b = bytearray(h)
            b[v % len(b)] ^= 1
            return (kind, bytes(b))
        return None
    if name in ("sig-r", "sig-s"):
        kind, sig = cur
        sig = copy.deepcopy(sig)
        if name == "sig-s" and isinstance(sig.get("sSig"), (bytes, bytearray)):
            b = bytearray(sig["sSig"])
            b[v % len(b)] ^= 1 << (v % 8)
            sig["sSig"] = bytes(b)
            return (kind, sig)
        r_ = sig.get("rSig")
        if name == "sig-r" and isinstance(r_, tuple) and isinstance(r_[1], (bytes, bytearray)):
            b = bytearray(r_[1])
            b[v % len(b)] ^= 1 << (v % 8)
            sig["rSig"] = (r_[0], bytes(b))
            return (kind, sig)
        return None
    if name == "hashId":
        return "sha384" if cur == "sha256" else "sha256"
    if name == "protocolVersion":
        return cur + 1 + v % 5
    return None


def make_sim(plan):
    return Sim(plan)


def _normalise(dec: dict) -> dict:
    """Decoded envelope without the fields that are neither signed content, signer nor signature."""
    d = copy.deepcopy(dec)
    d.pop("protocolVersion", None)
    if d.get("content", (None,))[0] == "signedData":
        c = dict(d["content"][1])
        c.pop("hashId", None)
        d["content"] = ("signedData", c)
    return d


def execute(plan: dict) -> dict:
    sim = Sim(plan)
    sim.run()
    trace = judge(sim)
    return finish(sim, trace, nontrivial=bool(sim.adv_log))


def judge(sim: Sim):
    trace = []
    pki = sim.pki
    verifier = pki.verifier()
    genuine_h8 = {sc.hashed_id8(b): b for b in pki.ticket_bytes}
    adv_by_tx = {e["tx"]: e for e in sim.adv_log}
    # every GN indication at a secured receiver
    for g in sim.hist.gnind:
        st = sim.stations[g["st"]]
        if not st.spec.get("secure"):
            continue
        cause = g["cause"]
        if not cause or cause[0] != "rx":
            continue
        rx = sim.hist.rx[cause[1]]
        frame = rx["frame"]
        adv = adv_by_tx.get(rx["tx"])
        kind = adv["detail"] if adv else "genuine"
        delivered = bytes(g["ind"].data)
        if len(frame) < 5 or (frame[0] & 0x0F) != rc.NH_SECURED:
            sim.violate(ID, "unsecured-delivered", kind, f"station {st.idx} (security ENABLED) delivered {len(delivered)} B from a packet without security envelope")
            trace.append((kind, "DELIVERED-unsecured"))
            continue
        env = frame[4:]
        ok, why, payload = justify(env, verifier, genuine_h8)
        if ok and payload is not None and not payload.endswith(delivered):
            ok, why = False, "delivered bytes are not the signed payload"
        if ok:
            if adv is None:
                sim.probe("genuine-delivered")
            else:
                sim.probe("adv-frame-delivered-but-authentic:" + adv["kind"])
            trace.append((kind, "delivered-authentic"))
            continue
        # not independently verifiable: is the only difference to the genuine base in unsigned / ignored parts?
        if adv is not None and adv.get("base") is not None:
            try:
                a = sc.decode_data(sim.hist.tx[adv["base"]["i"]]["frame"][4:])
                b = sc.decode_data(env)
                if a == b:
                    sim.probe("mutation-semantically-identical")
                    trace.append((kind, "delivered-identical"))
                    continue
                if _normalise(a) == _normalise(b):
                    sim.probe("unsigned-envelope-field-altered-delivered")
                    trace.append((kind, "delivered-unsigned-field"))
                    continue
                path = _first_diff(a, b)
            except Exception:
                path = "undecodable"
            sim.violate(ID, "altered-signed-part-delivered", f"{adv['detail']}/{path}",
                        f"station {st.idx} delivered {len(delivered)} B from a tampered copy of a genuine packet ({adv['detail']}, altered {path}): {why}")
            trace.append((kind, "DELIVERED-altered"))
            continue
        if adv is not None:
            rule = "unknown-digest-delivered" if adv["kind"] == "unknown-digest" else "forged-delivered"
            sim.violate(ID, rule, adv["kind"] + "/" + str(adv.get("form", "")), f"station {st.idx} delivered the adversary's payload ({adv['kind']}): {why}")
            trace.append((kind, "DELIVERED-forged"))
        else:
            sim.violate(ID, "forged-delivered", "genuine-frame-not-verifiable", f"station {st.idx} delivered a packet the independent verifier rejects: {why}")
    delivered_rx = {g["cause"][1] for g in sim.hist.gnind if g["cause"] and g["cause"][0] == "rx"}
    for e in sim.adv_log:
        rxs = [x for x in sim.hist.rx if x["tx"] == e["tx"] and sim.stations[x["st"]].role == "stack"]
        if rxs and not any(x["i"] in delivered_rx for x in rxs):
            sim.probe("adv-frame-rejected")
            trace.append((e["detail"], "rejected"))
    # trust stores at the end of the run
    for st in sim.stations:
        if st.role != "stack" or st.gn.verify_service is None:
            continue
        lib = st.gn.verify_service.certificate_library
        for name in ("known_authorization_authorities", "known_authorization_tickets"):
            for h8, cert in list(getattr(lib, name, {}).items()):
                sim.probe("store-checked")
                try:
                    res = verifier.verify(cert.encode())
                    good = res.ok or not res.failed(("decode", "sig", "link", "root", "perm"))
                except Exception as ex:
                    good, res = False, ex
                if not good:
                    sim.violate(ID, "store-poisoned", name, f"station {st.idx} holds a certificate in {name} that does not chain to the trusted root: {getattr(res, 'reasons', res)}")
    return trace


def justify(env: bytes, verifier, genuine_h8):
    """(ok, reason, signed payload) by the independent verifier: known genuine ticket or carried certificate chaining to the root."""
    m = sc.parse_signed_message(env)
    if not m.ok:
        return False, "envelope: " + ";".join(m.reasons[:2]), None
    ticket = None
    if m.signer_kind == "digest":
        ticket = genuine_h8.get(m.signer_digest)
        if ticket is None:
            return False, "digest names no genuine ticket", None
    elif m.signer_kind == "certificate":
        try:
            cb = sc.encode_cert(m.signer_cert)
            res = verifier.verify(cb)
        except Exception as e:
            return False, f"signer certificate: {e!r}", None
        if not res.ok and res.failed(("decode", "sig", "link", "root", "perm")):
            return False, "signer certificate does not chain to the root: " + ";".join(res.reasons[:2]), None
        if m.signer_cert.get("version") != 3:
            return False, "signer certificate version", None
        ticket = cb
    else:
        return False, "self-signed message", None
    vm = sc.verify_signed_message(env, ticket)
    if not vm.ok:
        return False, "signature: " + ";".join(vm.reasons[:2]), None
    td, _ = sc.as_cert(ticket)
    if m.psid not in sc.app_psids(td):
        return False, f"psid {m.psid} outside the ticket's permissions", None
    s, e = sc.validity_of(td)
    if not (s * 1_000_000 <= (m.generation_time or 0) <= e * 1_000_000):
        return False, "generation time outside the ticket's validity", None
    return True, "ok", m.payload


def _first_diff(a, b, pre="") -> str:
    if type(a) != type(b):
        return pre or "type"
    if isinstance(a, dict):
        for k in sorted(set(a) | set(b), key=str):
            if a.get(k) != b.get(k):
                return _first_diff(a.get(k), b.get(k), f"{pre}.{k}" if pre else str(k))
    elif isinstance(a, (list, tuple)):
        if len(a) != len(b):
            return pre + ".len"
        for i, (x, y) in enumerate(zip(a, b)):
            if x != y:
                if isinstance(x, str) and isinstance(y, str):
                    return pre + "." + x + "->" + y
                return _first_diff(x, y, f"{pre}[{i}]")
    return pre or "value"
