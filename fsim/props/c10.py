"""C10 - CAM and VAM generation follow the timing and trigger rules of their standards."""
from __future__ import annotations

from .. import facsim as fs
from ..facsim import (FacSim, History, CAM_MIN_US, CAM_CHECK_US, EPS_T_US, VAM_MIN_MS, gdt_of_tpv, heading_diff, gc_distance_m,
                      is_position_report, cam_has_lf, vam_has_lf, its_ms_of_unix_ms, parse_iso_ms, overlaps)
from ..result import finish

ID = "C10"
ENGINE = "fac"
RUNS = {"quick": 4000, "thorough": 120000}
DOUBLE = {"quick": 32, "thorough": 400}
FRESH = {"quick": 4, "thorough": 16}
RULE_TEXT = ("one run = one seeded plan: a CA service (timer loop) and/or a VRU service on the virtual clock, fed by a simulated GNSS "
             "(1-50 Hz TPV reports along constant / accelerating / turning-through-0/360 / stop-and-go / threshold-jitter trajectories, "
             "report gaps, optional-field subsets, epochs before a generationDeltaTime wrap) with start/stop/restart ops; 3-60 virtual s "
             "(thorough: a few 10-60 min runs); non-trivial = at least one CAM or VAM reached the BTP router; distinct = distinct abstract "
             "traces (per message: type, LF flag, gap bucket, trigger kind; service ops; exceptions)")
COMPONENTS = {"real": ["CooperativeAwarenessBasicService", "CAMTransmissionManagement (T_CheckCamGen loop)", "VRUAwarenessService",
                       "VAMTransmissionManagement", "VBSClusteringManager", "CAMCoder", "VAMCoder", "TimeService users"],
              "stub": ["BTP router (recording stub)", "GNSS (plan ops)", "virtual clock", "SimTimer", "PRNG (start delay)"]}
ASSUMPTIONS = ["CAM/VAM instants are the virtual times at which the BTPDataRequest reaches the BTP router",
               "no verdict within 1e-6 of a heading/speed threshold and within 1 % + 2 cm of 4 m; time thresholds: the service compares "
               "floor(ms) clock readings, so 'at least T elapsed' is judged from T + 10 us (T + 1.5 ms when an instant lies exactly on a "
               "millisecond boundary) and 'less than T' up to T - 1.5 ms",
               "T_GenCam adaptation and N_GenCam are not modelled; only the bounds of the statement are",
               "key of vam-gap-min = the trigger whose threshold the second report crosses against the CONTENT of the previous VAM "
               "(position in degrees / speedValue/100 / heading value/10, in the service's order; 'unavailable-field' when it is crossed only "
               "because that VAM carried the element's unavailable code), or 'time-branch' when none is crossed",
               "CAM max gap is suspended while no position report arrived for more than two report periods and across injected send errors",
               "a report without lat/lon is not a position report: it creates no obligation to send",
               "VBS activation = creation of the VRU service and subscription to the location service (the service has no start/stop API)",
               "dynamics are compared only for fields present in both the current report and the report of the last CAM"]
EXPECTED_PROBES = ["cam", "vam", "gdt-wrap-crossed:cam", "gdt-wrap-crossed:vam", "heading-wrap-crossed", "cam-lf-present", "cam-lf-absent",
                   "vam-lf-present", "vam-lf-absent", "ca-restart", "vru-restart", "report-gap", "trigger:heading", "trigger:position",
                   "trigger:speed", "trigger:time", "track-360-offered", "cam-gap-near-min", "cam-gap-near-max", "vam-reports-under-100ms",
                   "trigger-no-verdict:epsilon", "timer-jitter-run"] + ["fields:" + c for c in fs.FIELD_CLASSES]

fs.warm(["cam", "vam"])

EPS_DYN = 1e-6


def gen_plan(run_seed: int, tier: str) -> dict:
    return fs.gen_fac_plan(run_seed, tier, "C10")


def execute(plan: dict) -> dict:
    sim = FacSim(plan)
    sim.run()
    h = History(sim)
    trace = judge(sim, h)
    return finish(sim, trace, nontrivial=any(m["port"] in (2001, 2018) for m in h.msgs))


SHRINKERS = [fs.truncating_shrinker(lambda p: execute(p)), fs.shrink_candidates]


# ------------------------------------------------------------------------------------------------ oracle
def dynamics(cur: dict, ref: dict):
    """Reference dynamics test (TS 103 900 6.1.3 condition 1).  Returns (verdict, kind):
    verdict True = clearly beyond a threshold, False = clearly within all, None = within epsilon of one (no verdict)."""
    unsure = False
    if "track" in cur and "track" in ref:
        d = heading_diff(cur["track"], ref["track"])
        if d > 4.0 + EPS_DYN:
            return True, "heading"
        if d > 4.0 - EPS_DYN:
            unsure = True
    if is_position_report(cur) and is_position_report(ref):
        d = gc_distance_m(ref["lat"], ref["lon"], cur["lat"], cur["lon"])
        if d > 4.0 * 1.01 + 0.02:
            return True, "position"
        if d > 4.0 * 0.99 - 0.02:
            unsure = True
    if "speed" in cur and "speed" in ref:
        d = abs(cur["speed"] - ref["speed"])
        if d > 0.5 + EPS_DYN:
            return True, "speed"
        if d > 0.5 - EPS_DYN:
            unsure = True
    return (None if unsure else False), None


def _latlon_matches(msg_rp: dict, tpv: dict) -> bool:
    if not is_position_report(tpv):
        return True
    return abs(msg_rp["latitude"] - tpv["lat"] * 1e7) <= 1.5 and abs(msg_rp["longitude"] - tpv["lon"] * 1e7) <= 1.5


def _older_reports(ent, n=6):
    out = []
    e = ent.get("prev") if ent else None
    while e is not None and len(out) < n:
        out.append(e)
        e = e.get("prev")
    return out


def judge(sim: FacSim, h: History) -> list:
    cfg = sim.cfg
    nominal_us = 1_000_000 // cfg.get("rate_hz", 10)
    trace = []
    if cfg.get("timer_late_us") or cfg.get("timer_early_us"):
        sim.probe("timer-jitter-run")
        sim.fault("timer_early_late")
    for o in sim.plan["ops"]:
        if o["op"] == "tpv":
            sim.probe("fields:" + o.get("cls", "full"))
            if o.get("cls", "full") != "full":
                sim.fault("gnss_sparse")
            if o["tpv"].get("track") == 360.0:
                sim.probe("track-360-offered")
    gaps = h.report_gaps(nominal_us)
    if len(gaps) > 1 and any(b - a > nominal_us for a, b in gaps[1:]):
        sim.probe("report-gap")
        sim.fault("gnss_gap", sum(1 for a, b in gaps[1:] if b - a > nominal_us))
    if len(h.ca_acts) > 1:
        sim.probe("ca-restart", len(h.ca_acts) - 1)
        sim.fault("service_restart", len(h.ca_acts) - 1)
    if len(h.vru_acts) > 1:
        sim.probe("vru-restart", len(h.vru_acts) - 1)
        sim.fault("service_restart", len(h.vru_acts) - 1)
    for e in sim.log:
        if e["k"] == "svc":
            trace.append(("svc", e["svc"], e["action"]))
        elif e["k"] == "exc" and not e["where"].startswith("rx"):
            sim.probe("exception:" + e["where"].split(":")[0])
            trace.append(("exc", e["where"], fs.exc_key(e["exc"])))
        elif e["k"] == "logexc":
            sim.probe("logged-exception:" + e["logger"])
    _judge_cam(sim, h, nominal_us, gaps, trace)
    _judge_vam(sim, h, nominal_us, trace)
    return trace[:400]


# ------------------------------------------------------------------------------------------------ CAM
def _judge_cam(sim, h: History, nominal_us: int, gaps, trace) -> None:
    # nothing before start / after stop
    for m in h.msgs:
        if m["port"] != 2001:
            continue
        sim.probe("cam")
        if m.get("act") is None:
            when = "after-stop" if m.get("last_act") is not None else "before-start"
            sim.violate(ID, "cam-outside-activation", when,
                        f"CAM handed to BTP at +{(m['t'] - sim.kernel.t0_us) / 1e6:.3f}s while the CA service is not active ({when})", m["t"])
    bound = h.cam_max_bound_us()
    for st in fs.cam_stalls(h, nominal_us):
        if st["kind"] == "none":
            sim.probe("cam-none-in-activation")      # the statement bounds consecutive CAMs only; liveness is C11
            continue
        sim.violate(ID, "cam-gap-max", "time",
                    f"{st['gap'] / 1000:.1f} ms without a CAM ({st['kind']}; bound {bound / 1000:.1f} ms) from +{(st['t1'] - sim.kernel.t0_us) / 1e6:.3f}s "
                    f"while position reports kept arriving", st["t2"])
    for act in h.ca_acts:
        cams = act["cams"]
        stop = act["stop"] if act["stop"] is not None else h.end_us
        # ---- gaps
        for a, b in zip(cams, cams[1:]):
            g = b["t"] - a["t"]
            if g < CAM_MIN_US - EPS_T_US:
                sim.violate(ID, "cam-gap-min", _cam_trigger_kind(a, b) or "time",
                            f"consecutive CAMs {g / 1000:.3f} ms apart (< T_GenCamMin) at +{(b['t'] - sim.kernel.t0_us) / 1e6:.3f}s", b["t"])
            if g < CAM_MIN_US + CAM_CHECK_US // 2:
                sim.probe("cam-gap-near-min")
            if g > 950_000:
                sim.probe("cam-gap-near-max")
            if overlaps(gaps, a["t"], b["t"]) and g > bound:
                sim.probe("cam-gap-max-suspended:report-gap")
        # ---- decoded content, LF cadence, gdt / latest report
        last_lf_t = None
        prev = None
        for i, m in enumerate(cams):
            if m["msg"] is None:
                sim.probe("cam-undecodable")          # C11's business; timing rules still use the instant
                trace.append(("C", "undecodable"))
                prev = m
                continue
            cam = m["msg"]["cam"]
            lf = cam_has_lf(m["msg"])
            sim.probe("cam-lf-present" if lf else "cam-lf-absent")
            if i == 0:
                if not lf:
                    sim.violate(ID, "cam-lf", "first", "first CAM of an activation carries no low-frequency container", m["t"])
            elif last_lf_t is not None:
                since = m["t"] - last_lf_t
                eps_lf = EPS_T_US if (m["t"] % 1000 == 0 or last_lf_t % 1000 == 0) else 10     # same floor(ms) argument as for triggers
                if h.faults_between(last_lf_t, m["t"]):
                    sim.probe("cam-lf-no-verdict:fault")
                elif since >= 500_000 + eps_lf and not lf:
                    sim.violate(ID, "cam-lf", "missing", f"CAM generated {since / 1000:.1f} ms after the last CAM with the low-frequency "
                                f"container does not carry it", m["t"])
                elif since < 500_000 - EPS_T_US and lf:
                    sim.violate(ID, "cam-lf", "unexpected", f"CAM generated only {since / 1000:.1f} ms after the last CAM with the "
                                f"low-frequency container carries it again", m["t"])
                elif abs(since - 500_000) <= EPS_T_US:
                    sim.probe("cam-lf-no-verdict:epsilon")
            if lf or i == 0:
                last_lf_t = m["t"]                      # cadence is judged from the first CAM even when it was (wrongly) bare
            # latest report / generationDeltaTime
            _judge_content(sim, m, cam["generationDeltaTime"], cam["camParameters"]["basicContainer"]["referencePosition"], "cam")
            if prev is not None and prev["msg"] is not None:
                g0, g1 = prev["msg"]["cam"]["generationDeltaTime"], cam["generationDeltaTime"]
                if g1 < g0 and m["t"] - prev["t"] < 60_000_000:
                    sim.probe("gdt-wrap-crossed:cam")
            kind = _cam_trigger_kind(prev, m) if prev is not None else "first"
            sim.probe("trigger:" + (kind or "time"))
            gap_b = min(12, (m["t"] - prev["t"]) // 100_000) if prev is not None else -1
            trace.append(("C", "LF" if lf else "-", gap_b, kind or "time"))
            prev = m
        # ---- first-trigger rule on the observed check instants
        _judge_triggers(sim, act)
        # heading wrap probe
        hs = [t["latest"]["tpv"].get("track") for t in act["ticks"] if t.get("latest") is not None]
        for a, b in zip(hs, hs[1:]):
            if a is not None and b is not None and abs(a - b) > 300:
                sim.probe("heading-wrap-crossed")
                break


def _cam_trigger_kind(prev, m):
    """Which dynamics differ between the reports of two consecutive CAMs (None = none clearly)."""
    if prev is None or prev.get("latest") is None or m.get("latest") is None:
        return None
    v, kind = dynamics(m["latest"]["tpv"], prev["latest"]["tpv"])
    return kind if v else None


def _judge_triggers(sim, act) -> None:
    cams = act["cams"]
    if not cams:
        return
    ci = 0
    last = None
    for tick in act["ticks"]:
        # last CAM strictly before this tick (in log order)
        while ci < len(cams) and cams[ci]["e"]["pos"] < tick["pos"]:
            last = cams[ci]
            ci += 1
        if last is None or tick.get("latest") is None or last.get("latest") is None:
            continue
        if last.get("stale"):
            continue
        elapsed = tick["t"] - last["t"]
        if elapsed < CAM_MIN_US - EPS_T_US:
            continue
        verdict, kind = dynamics(tick["latest"]["tpv"], last["latest"]["tpv"])
        # The service compares floor(ms) clock readings: floor(t2) - floor(t1) >= floor(t2 - t1), so a true elapsed time of
        # >= 100.000 ms is never seen as less.  Only instants exactly on a millisecond boundary can lose 1 ms to float rounding.
        eps = EPS_T_US if (tick["t"] % 1000 == 0 or last["t"] % 1000 == 0) else 10
        if verdict is None or (verdict and elapsed < CAM_MIN_US + eps):
            sim.probe("trigger-no-verdict:epsilon")
            continue
        if verdict and tick["cam"] is None:
            if sim_fault_at(sim, tick["t"]):
                sim.probe("trigger-missed-under-fault")
                continue
            if any(e["k"] == "logexc" and e["t"] == tick["t"] for e in sim.log[tick["pos"]:tick["pos"] + 4]):
                kind = "construction-raised"
            sim.violate(ID, "cam-trigger-missed", kind,
                        f"check at +{(tick['t'] - sim.kernel.t0_us) / 1e6:.3f}s: {elapsed / 1000:.1f} ms since the last CAM and {kind} differs beyond "
                        f"its threshold (report #{tick['latest']['i']} vs #{last['latest']['i']}) but no CAM was generated", tick["t"])


def sim_fault_at(sim, t) -> bool:
    return any(e["k"] == "fault" and e["t"] == t for e in sim.log)


def _judge_content(sim, m, gdt, refpos, typ) -> None:
    """Latest report + generationDeltaTime (exact integer arithmetic on the report's own time string)."""
    rep = m.get("trigger") if typ == "vam" else m.get("latest")
    if rep is None:
        sim.violate(ID, "cam-stale-report" if typ == "cam" else "gdt", "no-report" if typ == "cam" else typ + "/no-report",
                    f"{typ.upper()} generated although no position report had been delivered", m["t"])
        return
    tpv = rep["tpv"]
    exp = gdt_of_tpv(tpv)
    older = _older_reports(rep)
    if exp is None:
        sim.probe("gdt-report-without-time")
    elif gdt != exp:
        match = next((o for o in older if gdt_of_tpv(o["tpv"]) == gdt and _latlon_matches(refpos, o["tpv"])), None)
        if match is not None and typ == "cam":
            m["stale"] = True
            sim.violate(ID, "cam-stale-report", "older-report",
                        f"CAM at +{(m['t'] - sim.kernel.t0_us) / 1e6:.3f}s was built from report #{match['i']} although #{rep['i']} had been delivered", m["t"])
        else:
            its = its_ms_of_unix_ms(parse_iso_ms(tpv["time"]))
            sim.violate(ID, "gdt", typ, f"{typ.upper()} generationDeltaTime {gdt} != {exp} = ITS time {its} of report #{rep['i']} "
                        f"({tpv['time']}) mod 65536", m["t"])
        return
    if not _latlon_matches(refpos, tpv):
        match = next((o for o in older if _latlon_matches(refpos, o["tpv"]) and is_position_report(o["tpv"])), None)
        if match is not None and typ == "cam":
            m["stale"] = True
            sim.violate(ID, "cam-stale-report", "older-position", f"CAM position equals report #{match['i']}, not the latest #{rep['i']}", m["t"])
        else:
            sim.probe("position-differs-from-report")     # value mapping is C11


# ------------------------------------------------------------------------------------------------ VAM
def _vam_kind(a: dict, b: dict) -> str:
    """Abstract-trace label of a VAM: which dynamics differ between the reports of two consecutive VAMs (distinctness measure only;
    the finding key of `vam-gap-min` is `_vam_branch`)."""
    if not ("speed" in a and "track" in a and is_position_report(a)):
        return "unavailable-field"        # the previous VAM carried an 'unavailable' code for speed / heading / position
    if "speed" in a and "speed" in b and abs(a["speed"] - b["speed"]) > 0.5:
        return "speed"
    if "track" in a and "track" in b and heading_diff(a["track"], b["track"]) > 4.0:
        return "heading"
    if is_position_report(a) and is_position_report(b) and gc_distance_m(a["lat"], a["lon"], b["lat"], b["lon"]) > 4.0:
        return "position"
    return "none"


VAM_EPS = 1e-9
_LAT_UNAV, _LON_UNAV, _SPEED_UNAV, _HEAD_UNAV = 900000001, 1800000001, 16383, 3601


def _vam_branch(prev_vam: dict, cur: dict) -> str:
    """Finding key of `vam-gap-min`: through which trigger a VAM can have been sent although less than T_GenVamMin had elapsed.

    The service keeps as reference what the previous VAM *carried* (clause 6.4.1: "... lastly included in an individual VAM"):
    referencePosition / 1e7 degrees, speedValue / 100 m/s, heading value / 10 degrees - including the 'unavailable' codes when
    the report behind that VAM lacked the field.  The known defect (dynamics triggers are evaluated while LESS than T_GenVam has
    elapsed) can therefore only send through a branch whose threshold is crossed *against the decoded previous VAM*:
      position  - distance in degrees between the report and the carried position > 4 (as the service compares; in practice only
                  reachable when the carried position is the unavailable code)
      speed     - |speed - speedValue/100| > 0.5
      heading   - |track - value/10| folded to 0..180 > 4
    The key is the first such branch in the service's order of evaluation, or `unavailable-field` when that branch is crossed only
    because the previous VAM carried the unavailable code of the element.  When no branch is crossed the VAM was sent for another
    reason (elapsed-time branch or anything else): key `time-branch`."""
    par = prev_vam["vam"]["vamParameters"]
    rp = par["basicContainer"]["referencePosition"]
    hf = par["vruHighFrequencyContainer"]
    if is_position_report(cur):
        d = ((cur["lat"] - rp["latitude"] / 10 ** 7) ** 2 + (cur["lon"] - rp["longitude"] / 10 ** 7) ** 2) ** 0.5
        if d > 4.0 - VAM_EPS:
            return "unavailable-field" if (rp["latitude"] == _LAT_UNAV or rp["longitude"] == _LON_UNAV) else "position"
    if "speed" in cur:
        sv = hf["speed"]["speedValue"]
        if abs(cur["speed"] - sv / 100) > 0.5 - VAM_EPS:
            return "unavailable-field" if sv == _SPEED_UNAV else "speed"
    if "track" in cur:
        hv = hf["heading"]["value"]
        d = abs(cur["track"] - hv / 10.0) % 360.0
        if d > 180.0:
            d = 360.0 - d
        if d > 4.0 - VAM_EPS:
            return "unavailable-field" if hv == _HEAD_UNAV else "heading"
    return "time-branch"


def _judge_vam(sim, h: History, nominal_us: int, trace) -> None:
    for m in h.msgs:
        if m["port"] == 2018:
            sim.probe("vam")
            if m.get("act") is None:
                sim.probe("vam-outside-activation")
    for st in fs.vam_stalls(h, nominal_us):
        exc = next((e for e in sim.log if e["k"] == "exc" and e["where"] == "vru.location" and st["t1"] <= e["t"] <= st["t2"]
                    and not isinstance(e["exc"], fs._Injected)), None)
        sim.violate(ID, "vam-gap-max", ("raised:" + fs.exc_label(sim, exc, "VAM")) if exc else ("time" if st["after_vam"] else "no-vam"),
                    f"{st['gap'] / 1000:.1f} ms of position reports at an active VBS without a VAM (T_GenVamMax 5000 ms + one report period)", st["t2"])
    for act in h.vru_acts:
        if len(act["reports"]) > 1:
            ts = [parse_iso_ms(r["tpv"]["time"]) for r in act["reports"] if "time" in r["tpv"]]
            if any(0 < b - a < 100 for a, b in zip(ts, ts[1:])):
                sim.probe("vam-reports-under-100ms")
        # ---- first position report after activation
        # (a report without a timestamp cannot be judged by rules stated "on the reports' timestamps")
        first = next((r for r in act["reports"] if is_position_report(r["tpv"]) and "time" in r["tpv"]), None)
        earlier_vam = first is not None and any(r.get("vams") for r in act["reports"] if r["t"] < first["t"])
        if earlier_vam:
            first = None      # the service already sent its first VAM on an earlier (incomplete) report
        if first is not None and first.get("vbs") not in ("VRU_IDLE", "VRU_PASSIVE"):
            if not first.get("vams"):
                exc = next((e for e in sim.log[first["pos"]:first.get("done", first["pos"] + 1)] if e["k"] == "exc"), None)
                fault = any(e["k"] == "fault" for e in sim.log[first["pos"]:first.get("done", first["pos"] + 1)])
                if fault:
                    sim.probe("vam-first-under-fault")
                else:
                    sim.violate(ID, "vam-first", ("raised:" + fs.exc_label(sim, exc, "VAM")) if exc else "silent",
                                f"no VAM at the first position report (#{first['i']}) after activation"
                                + (f"; the location callback raised {exc['exc']!r}" if exc else ""), first["t"])
        # ---- consecutive VAMs
        vams = act["vams"]
        last_lf_t = None
        prev = None
        for i, m in enumerate(vams):
            if m["msg"] is None:
                sim.probe("vam-undecodable")
                trace.append(("V", "undecodable"))
                prev = m
                continue
            vam = m["msg"]["vam"]
            lf = vam_has_lf(m["msg"])
            sim.probe("vam-lf-present" if lf else "vam-lf-absent")
            if i == 0 and not lf:
                sim.violate(ID, "vam-lf", "first", "first VAM of an activation carries no low-frequency container", m["t"])
            elif last_lf_t is not None and m["t"] - last_lf_t >= 2_000_000 + EPS_T_US and not lf and h.faults_between(last_lf_t, m["t"]):
                sim.probe("vam-lf-no-verdict:fault")
            elif last_lf_t is not None and m["t"] - last_lf_t >= 2_000_000 + EPS_T_US and not lf:
                sim.violate(ID, "vam-lf", "missing", f"VAM generated {(m['t'] - last_lf_t) / 1000:.1f} ms after the last VAM with the "
                            f"low-frequency container does not carry it", m["t"])
            if lf or i == 0:
                last_lf_t = m["t"]
            _judge_content(sim, m, vam["generationDeltaTime"], vam["vamParameters"]["basicContainer"]["referencePosition"], "vam")
            gap_b = -1
            kind = "first"
            if prev is not None:
                ra, rb = prev.get("trigger"), m.get("trigger")
                gap_b = min(60, (m["t"] - prev["t"]) // 100_000)
                kind = "time"
                if ra is not None and rb is not None:
                    kind = _vam_kind(ra["tpv"], rb["tpv"])
                    if "time" in ra["tpv"] and "time" in rb["tpv"]:
                        d = parse_iso_ms(rb["tpv"]["time"]) - parse_iso_ms(ra["tpv"]["time"])
                        if 0 <= d < VAM_MIN_MS:
                            if prev["msg"] is None:
                                sim.probe("vam-gap-min-no-verdict:previous-vam-undecodable")      # no reference to classify against (C11)
                            else:
                                branch = _vam_branch(prev["msg"], rb["tpv"])
                                sim.violate(ID, "vam-gap-min", branch,
                                            f"consecutive VAMs from reports #{ra['i']} and #{rb['i']} whose timestamps are {d} ms apart "
                                            f"(< T_GenVamMin 100 ms); trigger crossed against the previous VAM's content: {branch} "
                                            f"(report-to-report change: {kind})", m["t"])
                        elif d < 0:
                            sim.probe("vam-report-time-decreased")
                        if prev["msg"] is not None and vam["generationDeltaTime"] < prev["msg"]["vam"]["generationDeltaTime"] and d < 60_000:
                            sim.probe("gdt-wrap-crossed:vam")
                    else:
                        sim.probe("vam-gap-min-no-verdict:no-time")
            trace.append(("V", "LF" if lf else "-", gap_b, kind))
            prev = m
