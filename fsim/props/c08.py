"""C08 - the location table reflects the newest valid information about each station."""
from __future__ import annotations

import random

from .. import refcodec as rc
from .. import netplan as npl
from ..netsim import Monitor
from ..result import finish
from . import c01

ID = "C08"
ENGINE = "net"
RUNS = {"quick": 6000, "thorough": 150000}
RULE_TEXT = ("one run = one real router (DUT, clock skewed by -5..+5 s) receiving beacons, SHB, TSB, GBC, GAC, GUC, LS request/reply from 2-5 "
             "phantom sources (reference peer) and one real companion station; PV timestamps before, at and up to seconds after the DUT clock, "
             "equal / older / newer in every order, optionally across the 2^32 ms TST wrap, interleaved with virtual clock gaps up to several "
             "LocTE lifetimes, plus packets bearing the DUT's own address; after every processed packet get_entry/get_neighbours are compared "
             "with a reference location table; TST order laws are checked on timestamp pairs; non-trivial = at least one entry compared; "
             "distinct = distinct sequences of (packet type, timestamp relation, reference verdict)")
COMPONENTS = c01.COMPONENTS
ASSUMPTIONS = ["expiry instant = PV timestamp + itsGnLifetimeLocTE on the DUT clock; within +-1 s of it, and until a packet has been processed after it "
               "(the table is purged lazily), presence gives no verdict",
               "a source whose previous entry expired without any packet processed in between may keep or lose its neighbour flag (lazy purge): no verdict "
               "until its next beacon/SHB or expiry",
               "packets the reference DPL identifies as duplicates are not 'processed' and carry no obligation",
               "placeholder entries created by the location service for a sought address are ignored"]
EXPECTED_PROBES = ["tst-exactly-zero", "entry-compared", "pv-older-ignored", "pv-equal-ignored", "pv-newer-wins", "tst-ahead-of-dut", "expired-and-gone", "alive-and-present",
                   "neighbour-true-checked", "neighbour-false-checked", "multihop-on-neighbour", "own-address-packet", "tst-wrapped", "tst-pairs"]

WRAP_UNIX_MS = 1072915195000 + 162 * (1 << 32)      # a 2^32 ms TST wrap instant (January 2026)
MH = ["TSB", "GBC", "GAC", "GUC", "LSREQ", "LSREP"]


def _addr7(r, mac, src_addr):
    """GN address of the closing beacon: when its MAC is one of the run's sources it must carry that source's address (one MID never
    appears under two GN addresses: the reference table is keyed by MID) - the draw is made either way so plans keep their shape."""
    fresh = npl.rand_addr(r, mac)
    return src_addr.get(mac, fresh)


def gen_plan(run_seed: int, tier: str) -> dict:
    r = random.Random(run_seed ^ 0xC08C08)
    clean = r.random() < 0.5           # finding-trigger knobs off: no timestamps ahead of the clock, no GBC on neighbours
    wrap = r.random() < 0.25
    t0 = (WRAP_UNIX_MS - r.randint(0, 70_000)) * 1000 if wrap else 1_767_225_600_000_000 + r.randrange(0, 86_400_000) * 1000
    life = r.choice([2, 5, 20])
    macs = npl.unique_macs(r, 8)
    blat, blon = npl.base_point(r, r.choice(npl.HEMIS))
    mib = {"itsGnLifetimeLocTE": life, "itsGnDPLLength": 8, "itsGnLocationServiceRetransmitTimer": 100, "itsGnLocationServiceMaxRetrans": 0,
           "itsGnAreaForwardingAlgorithm": "SIMPLE", "itsGnDefaultHopLimit": 2}
    dut = {"mac": macs[0], "st": 5, "pos": [blat, blon], "mib": dict(mib), "ports": [2001],
           "clock_offset_ms": 0 if r.random() < 0.4 else r.randint(-5000, 5000)}
    lat2, lon2 = rc.offset_position(blat, blon, 50, 50)
    comp = {"mac": macs[1], "st": 6, "pos": [lat2, lon2], "mib": dict(mib), "ports": [2001]}
    peer = {"mac": macs[2], "role": "peer", "pos": [blat, blon]}
    stations = [dut, comp, peer]
    links = [[0, 1], [2, 0]]
    nsrc = r.randint(2, 5)
    srcs = macs[3:3 + nsrc]
    src_addr = {m: npl.rand_addr(r, m) for m in srcs}
    sn = {m: r.randrange(65536) for m in srcs}
    ops = []
    t = 2000
    dut_off = dut["clock_offset_ms"]
    dut_addr = rc.enc_addr(0, 5, bytes.fromhex(macs[0])).hex()
    last_off = {}
    for _ in range(r.randint(8, 40)):
        c = r.random()
        if c < 0.12:
            t += r.choice([life * 500_000, life * 1_000_000 + r.randint(-1_500_000, 1_500_000), life * 2_500_000, r.randint(0, 3_000_000)])
            t = max(t, 0)
        else:
            t += r.choice([0, r.randint(0, 5000), r.randint(0, 400_000)])
        c = r.random()
        if c < 0.08:
            ops.append({"op": "req", "t": t, "st": 1, "type": "shb", "btp": "b", "dport": 2001, "dpinfo": 0, "payload": "c0", "tc": 0, "hl": 1, "lt": None})
            continue
        if c < 0.12:
            a = r.choice([0, 1, (1 << 31) - 1, 1 << 31, (1 << 31) + 1, (1 << 32) - 1, r.randrange(1 << 32)])
            d = r.choice([0, 1, 2, (1 << 31) - 1, 1 << 31, (1 << 31) + 1, (1 << 32) - 1, r.randrange(1 << 32), r.randrange(1 << 20)])
            ops.append({"op": "tstpair", "t": t, "a": a, "b": (a + d) % (1 << 32)})
            continue
        src = r.choice(srcs)
        typ = r.choice(["BEACON", "SHB", "TSB", "GBC", "GAC", "GUC", "LSREQ", "LSREP"])
        if clean and typ == "GBC" and r.random() < 0.7:
            typ = "TSB"
        # timestamp relative to the DUT's clock: behind, equal to an earlier one, slightly ahead, far ahead
        k = r.random()
        if k < 0.45:
            off = -r.randint(0, 3000)
        elif k < 0.6 and src in last_off:
            off = last_off[src][0] - (t - last_off[src][1]) // 1000 + r.choice([0, 0, -1, 1, -500])   # same / adjacent timestamp as before
        elif k < 0.8:
            off = 0 if clean else r.randint(0, 900)
        else:
            off = -r.randint(0, 200) if clean else r.randint(900, 4000)
        off_true = off + dut_off      # tst_off_ms is relative to true time; DUT clock = true + dut_off
        last_off[src] = (off, t)
        own = r.random() < 0.05
        addr = dut_addr if own else src_addr[src]
        mac_for = macs[0] if own else src
        so = npl.rand_lpv(r, addr, pos=list(rc.offset_position(blat, blon, r.uniform(-300, 300), r.uniform(-300, 300))), tst_off=off_true, full_range=False)
        kw = {}
        if typ in MH:
            sn[src] = (sn[src] + 1) % 65536
            kw["sn"] = sn[src]
            kw["mhl"] = r.choice([1, 2, 10])
            kw["rhl"] = r.choice([1, kw["mhl"]])
        if typ in ("GBC", "GAC"):
            kw["area"] = {"lat": blat, "lon": blon, "a": r.choice([100, 1000]), "b": r.choice([100, 1000]), "angle": 0}
        if typ in ("GUC", "LSREP", "LSREQ") and r.random() < 0.5:
            kw["dest_addr"] = dut_addr
        pkt = npl.rand_pkt(r, typ, mac_for, so=so, dport=2001, lt=26, **kw)
        pkt["common"]["tc"] &= 0x3F
        ops.append({"op": "inject", "t": t, "frm": 2, "to": [0], "pkt": pkt, "own": own, "dut_off": off})
    t += r.choice([0, life * 1_200_000])
    ops.append({"op": "inject", "t": t, "frm": 2, "to": [0], "own": False, "dut_off": -10,
                "pkt": npl.rand_pkt(r, "BEACON", macs[7], so=npl.rand_lpv(r, _addr7(r, macs[7], src_addr), pos=[blat, blon], tst_off=-10 + dut_off, full_range=False), lt=26)})
    # wrap runs (own PRNG stream): some position vectors are stamped EXACTLY TST 0 (the wrap instant itself) - a value that code is
    # tempted to use as "no timestamp yet"
    r2 = random.Random(run_seed ^ 0x7570)
    if wrap and r2.random() < 0.6:
        for o in ops:
            if o["op"] != "inject" or "pkt" not in o:
                continue
            delta = WRAP_UNIX_MS - (t0 // 1000 + o["t"] // 1000)      # offset (true time) that makes the timestamp 0
            if abs(delta) <= 3500 and r2.random() < 0.4:
                o["pkt"]["so"]["tst_off_ms"] = delta
                o["dut_off"] = delta - dut_off
                o["tst_zero"] = True
    cfg = {"t0_us": t0, "net_seed": r.getrandbits(32), "latency_us": [100, 300], "fifo": True, "topology": links,
           "run_limit_us": t + 500_000, "fault_class": "none", "wrap": wrap, "clean": clean}
    return {"engine": ENGINE, "property": ID, "config": cfg, "stations": stations, "ops": ops}


def relation(tst: int, dut_now_tst: int) -> str:
    d = (tst - dut_now_tst) % (1 << 32)
    if d == 0:
        return "equal"
    if d < (1 << 31):
        return "ahead<1s" if d < 1000 else "ahead>=1s"
    return "behind"


class RefLocT(Monitor):
    """Reference location table of the DUT (station 0)."""

    def __init__(self):
        self.e: dict[bytes, dict] = {}     # mid -> {"pv": so dict, "nb": True|False|None, "exp_us": dut-clock expiry instant}
        self.processed_at: list[int] = []   # DUT-clock instants (us) at which a packet was processed (purge ran)
        self.tr = []

    def dut_now_us(self, sim):
        return sim.kernel.station_now_us(0)

    def unix_ms_of_tst(self, sim, tst: int) -> int:
        """Absolute time of a TST value nearest to the DUT clock."""
        now_ms = self.dut_now_us(sim) // 1000
        now_tst = rc.tst_from_unix_ms(now_ms)
        d = (tst - now_tst) % (1 << 32)
        if d >= (1 << 31):
            d -= (1 << 32)
        return now_ms + d

    def after_rx(self, sim, rec):
        if rec["st"] != 0:
            return
        st = sim.stations[0]
        p = rec.get("parsed")
        if p is None or "secured" in p or rec.get("malformed"):
            return
        typ = rec["ptype"]
        so = p["so"]
        mid = so["addr"]["mid"]
        now_us = self.dut_now_us(sim)
        now_tst = rc.tst_from_unix_ms(now_us // 1000)
        life_us = st.mib.itsGnLifetimeLocTE * 1_000_000
        rel = relation(so["tst"], now_tst)
        if rel.startswith("ahead"):
            sim.probe("tst-ahead-of-dut")
        if so["tst"] < 100_000 and sim.cfg.get("wrap"):
            sim.probe("tst-wrapped")
        if so["tst"] == 0:
            sim.probe("tst-exactly-zero")
        key = f"{typ}/{rel}" + ("/wrapped" if sim.cfg.get("wrap") and so["tst"] < (1 << 30) else "")
        verdict = "?"
        if mid == st.mac:
            sim.probe("own-address-packet")
            verdict = "own"
        elif rec.get("dpl") in ("dup", "stale"):
            verdict = "dup"
        else:
            cur = self.e.get(mid)
            purge_since = lambda t_us: any(x > t_us + 1_000_000 for x in self.processed_at)   # noqa: E731
            if cur is not None and now_us > cur["exp_us"]:
                # the old entry expired before this packet arrived
                if purge_since(cur["exp_us"]):
                    cur = None                      # certainly purged: fresh entry
                else:
                    cur = dict(cur, nb=None)        # may linger (lazy purge): neighbour flag unknown
            if cur is None:
                cur = {"pv": so, "nb": False, "exp_us": 0}
                verdict = "new"
            elif rc.tst_newer(so["tst"], cur["pv"]["tst"]):
                cur = dict(cur, pv=so)
                sim.probe("pv-newer-wins")
                verdict = "newer"
            elif so["tst"] == cur["pv"]["tst"]:
                sim.probe("pv-equal-ignored")
                verdict = "equal"
            else:
                sim.probe("pv-older-ignored")
                verdict = "older"
            if typ in ("BEACON", "SHB"):
                cur["nb"] = True
            elif cur["nb"]:
                sim.probe("multihop-on-neighbour")
            cur["exp_us"] = self.unix_ms_of_tst(sim, cur["pv"]["tst"]) * 1000 + life_us
            self.e[mid] = cur
        purged = verdict not in ("own", "dup")      # only a processed packet runs the (lazy) purge
        if purged:
            self.processed_at.append(now_us)
            if len(self.processed_at) > 64:
                self.processed_at = self.processed_at[-64:]
        self.tr.append((typ, rel, verdict))
        self.compare(sim, key, typ, mid, purged)

    def compare(self, sim, key, typ, cur_mid=None, purged=True):
        from flexstack.geonet.gn_address import GNAddress, MID, M, ST
        st = sim.stations[0]
        now_us = self.dut_now_us(sim)
        lt = st.gn.location_table
        own = lt.get_entry(st.gn_address())
        if own is not None:
            sim.violate(ID, "own-address-entered", typ, "the DUT's own address is in its location table")
        nbs = {e.position_vector.gn_addr.mid.mid for e in lt.get_neighbours()}
        for mid, ref in list(self.e.items()):
            a = ref["pv"]["addr"]
            ent = lt.get_entry(GNAddress(m=M(a["m"]), st=ST(a["st"]), mid=MID(mid)))
            sim.probe("entry-compared")
            if now_us <= ref["exp_us"] - 1_000_000:
                sim.probe("alive-and-present")
                if ent is None:
                    sim.violate(ID, "entry-missing", key, f"entry of {mid.hex()} missing {(ref['exp_us'] - now_us) / 1e6:.2f} s before its expiry "
                                f"(PV tst {ref['pv']['tst']}, lifetime {st.mib.itsGnLifetimeLocTE} s)")
                    continue
            elif now_us >= ref["exp_us"] + 1_000_000 and purged:
                # a packet has just been processed (this observation point), so the purge has run
                sim.probe("expired-and-gone")
                if ent is not None and ent.position_vector.tst.msec == ref["pv"]["tst"]:
                    sim.violate(ID, "entry-stale", key, f"entry of {mid.hex()} still present {(now_us - ref['exp_us']) / 1e6:.2f} s after its expiry")
                del self.e[mid]
                continue
            if ent is None:
                continue
            pv = ent.position_vector
            got = (pv.tst.msec, pv.latitude, pv.longitude, int(bool(pv.pai)), pv.s, pv.h)
            w = ref["pv"]
            want = (w["tst"], w["lat"], w["lon"], w["pai"], w["speed"], w["heading"])
            if got != want:
                sim.violate(ID, "pv-not-newest", key, f"entry of {mid.hex()} holds PV {got}, newest received by timestamp is {want}")
            if mid != cur_mid:
                continue        # flags of other sources cannot change through this packet (presence / PV are still compared above)
            if ref["nb"] is True:
                sim.probe("neighbour-true-checked")
                if mid not in nbs:
                    sim.violate(ID, "neighbour-flag", f"{typ}/lost", f"{mid.hex()} sent a beacon/SHB and its entry has not expired, but it is not a neighbour")
            elif ref["nb"] is False:
                sim.probe("neighbour-false-checked")
                if mid in nbs:
                    sim.violate(ID, "neighbour-flag", f"{typ}/spurious", f"{mid.hex()} is known only through multi-hop packets but counts as a neighbour")


class Sim(c01.C01Sim):
    def __init__(self, plan):
        super().__init__(plan)
        self.ref = RefLocT()
        self.monitors.append(self.ref)

    def custom_op(self, idx, op, rec):
        if op["op"] != "tstpair":
            return super().custom_op(idx, op, rec)
        from flexstack.geonet.position_vector import TST
        a, b = TST(msec=op["a"]), TST(msec=op["b"])
        self.probe("tst-pairs")
        d = (op["b"] - op["a"]) % (1 << 32)
        cls = "d=0" if d == 0 else ("d<2^31" if d < (1 << 31) else ("d=2^31" if d == (1 << 31) else "d>2^31"))
        if a > a or b > b or a < a:
            self.violate(ID, "tst-order", "irreflexive", f"TST {op['a']} compares greater/less than itself")
        if (a > b) and (b > a):
            self.violate(ID, "tst-order", "antisymmetric/" + cls, f"TST {op['a']} > {op['b']} and {op['b']} > {op['a']}")
        if 0 < d < (1 << 31):
            if not (b > a) or (a > b) or not (a < b) or not (b >= a) or (b <= a):
                self.violate(ID, "tst-order", "real-time/" + cls, f"TST {op['b']} is {d} ms after {op['a']} but the order relations disagree")
        if d == 0 and ((a > b) or (a < b) or not (a >= b) or not (a <= b) or a != b):
            self.violate(ID, "tst-order", "equal", f"equal TSTs {op['a']} compare unequal")


def make_sim(plan):
    return Sim(plan)


def execute(plan: dict) -> dict:
    sim = Sim(plan)
    sim.run()
    return finish(sim, sim.ref.tr, nontrivial=bool(sim.probes.get("entry-compared")))
