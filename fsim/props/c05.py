"""C05 - honestly signed messages are accepted by every station sharing the trust root."""
from __future__ import annotations

import random

from .. import refcodec as rc
from .. import netplan as npl
from .. import seccrypto as sc
from ..secnet import SecNetSim
from ..wiremon import root_cause
from ..result import finish
from . import c01

ID = "C05"
ENGINE = "net+sec"
RUNS = {"quick": 1200, "thorough": 18000}
DOUBLE = {"quick": 32, "thorough": 300}
RULE_TEXT = ("one run = 2-5 secured stations (real GN router, SignService, VerifyService, seeded ECDSA, common root/AA) sending CAM/VAM-profile "
             "SHBs at 1-10 Hz, DENM-profile GBCs and generic-profile messages in virtual time; stations join (links come up) at seeded instants "
             "relative to the senders' 1 s certificate-inclusion timers; receivers know only root+AA or are pre-loaded with peer tickets; "
             "lossless or lossy ether; every verification at every receiver and every emitted secured packet (decoded independently) is judged; "
             "the signed GN-PDU of every emitted packet is compared with the reference encoding of the request that caused it, and every SUCCESS "
             "verification must end in a BTP indication with the requested payload on the requested port; "
             "non-trivial = at least one digest-signed message reached a receiver; distinct = distinct sequences of (profile, signer kind, "
             "per-receiver report class)")
COMPONENTS = {"real": ["geonet.Router (security encapsulation / decapsulation)", "security.SignService", "security.VerifyService",
                       "security.CertificateLibrary / Certificate", "security_coder (OER)", "PythonECDSABackend.verify_with_pk", "btp.Router"],
              "stub": ["SimLinkLayer", "virtual clock", "seeded ECDSA entropy (key generation, nonces)"]}
ASSUMPTIONS = ["only the two inclusion causes named in the statement are demanded (more than 1 s since the last inclusion; a peer asked through "
               "inlineP2pcdRequest); additional inclusions are counted, not judged",
               "a digest-signed message of a ticket the receiver cannot know yet may be rejected; the learning exchange is then judged step by step "
               "on what each station actually received (request in the receiver's next CAM/VAM, certificate in the sender's next CAM/VAM, acceptance "
               "from then on)",
               "stations that never send CAM/VAM cannot request certificates; for them only certificate-carrying messages are demanded",
               "generic-profile messages: only psid and generationTime are judged",
               "end-to-end rules are judged per reception: a GBC whose (source, sequence number) the receiver instance has already accepted is a "
               "duplicate and need not be delivered again (dup fault, sequence numbers re-used after a sender restart); GBC delivery is demanded only "
               "of receivers clearly inside the destination area; packet types other than SHB / GBC are counted, not judged"]
EXPECTED_PROBES = ["accepted:certificate", "accepted:digest-known", "rejected:digest-unknown", "p2pcd-request-seen", "cert-after-request",
                   "cert-after-1s", "late-joiner", "denm-checked", "generic-checked", "preloaded-receiver", "accepted-after-learning",
                   "signed-payload-checked", "delivered-after-success", "delivered-after-success:CAM", "delivered-after-success:VAM",
                   "delivered-after-success:DENM", "delivered-after-success:other"]

CAMLIKE = {"COOPERATIVE_AWARENESS_MESSAGE": 36, "VRU_AWARENESS_MESSAGE": 638}


def gen_plan(run_seed: int, tier: str) -> dict:
    r = random.Random(run_seed ^ 0xC05C05)
    n = r.randint(2, 5)
    lossy = r.random() < 0.25
    blat, blon = npl.base_point(r, r.choice(npl.HEMIS))
    macs = npl.unique_macs(r, n)
    stations = []
    for i in range(n):
        lat, lon = rc.offset_position(blat, blon, r.uniform(-150, 150), r.uniform(-150, 150))
        preload = [j for j in range(n) if j != i and r.random() < 0.25]
        stations.append({"mac": macs[i], "st": r.randint(0, 11), "pos": [lat, lon], "secure": True, "ticket": i, "preload": preload,
                         "ports": [2001, 2002, 2018, 99],
                         "mib": {"itsGnSecurity": "ENABLED", "itsGnAreaForwardingAlgorithm": "SIMPLE", "itsGnDefaultHopLimit": 1,
                                 "itsGnLocationServiceRetransmitTimer": 100, "itsGnLocationServiceMaxRetrans": 0}})
    ops = []
    dur = r.choice([2_000_000, 3_500_000, 6_000_000])
    joins = {}
    links = []
    for i in range(n):
        joins[i] = 0 if r.random() < 0.5 else r.randint(0, dur * 2 // 3)
    for a in range(n):
        for b in range(a + 1, n):
            tj = max(joins[a], joins[b])
            if tj == 0:
                links.append([a, b])
            else:
                ops.append({"op": "link", "t": tj, "a": a, "b": b, "up": True})
    tag = 0
    for i in range(n):
        c = r.random()
        if c < 0.12:
            period = None                    # a station that never sends CAM/VAM
        else:
            period = r.choice([100_000, 200_000, 300_000, 500_000, 1_000_000, 1_100_000, 1_500_000])
        prof = r.choice(["COOPERATIVE_AWARENESS_MESSAGE", "COOPERATIVE_AWARENESS_MESSAGE", "VRU_AWARENESS_MESSAGE"])
        if period:
            t = r.randint(0, period)
            while t < dur:
                tag += 1
                ops.append({"op": "req", "t": t, "st": i, "type": "shb", "btp": "b", "dport": 2001 if prof.startswith("COOP") else 2018, "dpinfo": 0,
                            "payload": npl.rand_payload(r, tag, 120), "tc": 2, "hl": 1, "lt": 1.0, "profile": prof, "its_aid": CAMLIKE[prof]})
                t += period + r.randint(-period // 10, period // 10)
        for _ in range(r.choice([0, 0, 1, 2])):
            tag += 1
            ops.append({"op": "req", "t": r.randint(0, dur), "st": i, "type": "gbc", "btp": "b", "dport": 2002, "dpinfo": 0,
                        "payload": npl.rand_payload(r, tag, 200), "tc": 1, "hl": 1, "lt": None,
                        "profile": "DECENTRALIZED_ENVIRONMENTAL_NOTIFICATION_MESSAGE", "its_aid": 37,
                        "area": {"shape": 0, "lat": blat, "lon": blon, "a": 1500, "b": 1500, "angle": 0}})
        for _ in range(r.choice([0, 0, 1])):
            tag += 1
            ops.append({"op": "req", "t": r.randint(0, dur), "st": i, "type": "shb", "btp": "b", "dport": 99, "dpinfo": 0,
                        "payload": npl.rand_payload(r, tag, 60), "tc": 1, "hl": 1, "lt": None, "profile": "NO_SECURITY", "its_aid": 99})
    # fault: a station restarts (all volatile security state lost: learnt tickets, inclusion timer, pending requests)
    restarts = r.random() < 0.2
    if restarts:
        for _ in range(r.choice([1, 1, 2])):
            ops.append({"op": "restart", "t": r.randint(dur // 10, dur * 9 // 10), "st": r.randrange(n)})
    ops.sort(key=lambda o: o["t"])
    cfg = {"t0_us": 1_767_225_600_000_000 + r.randrange(3600, 86_400_000) * 1000, "net_seed": r.getrandbits(32), "latency_us": [100, 1500],
           "fifo": not lossy, "topology": links, "run_limit_us": dur + 1_500_000, "fault_class": "lossy" if lossy else "none",
           "pki_seed": r.randrange(3), "psid_sets": [[36, 37, 638, 99]] * n, "joins": joins}
    if lossy:
        cfg["rates"] = {"drop": r.choice([0.05, 0.2]), "dup": r.choice([0, 0, 0.1]), "delay": r.choice([0, 0.1])}
        cfg["dup_max_us"] = 30_000
        cfg["delay_max_us"] = 20_000
    return {"engine": ENGINE, "property": ID, "config": cfg, "stations": stations, "ops": ops}


def make_sim(plan):
    return SecNetSim(plan)


def execute(plan: dict) -> dict:
    sim = SecNetSim(plan)
    sim.run()
    trace = judge(sim)
    return finish(sim, trace, nontrivial=bool(sim.probes.get("accepted:digest-known") or sim.probes.get("rejected:digest-unknown")))


FORBIDDEN_CAM = ("generationLocation", "expiryTime", "encryptionKey", "p2pcdLearningRequest", "missingCrlIdentifier")
FORBIDDEN_DENM = ("expiryTime", "encryptionKey", "inlineP2pcdRequest", "requestedCertificate", "p2pcdLearningRequest", "missingCrlIdentifier")


def judge(sim: SecNetSim):
    plan = sim.plan
    lossy = plan["config"].get("fault_class") != "none"
    trace = []
    tickets = {}
    for s in sim.stations:
        if s.spec.get("secure"):
            tickets[s.idx] = sc.hashed_id8(sim.pki.ticket_bytes[s.spec["ticket"]])
    by_h8 = {v: k for k, v in tickets.items()}
    # ------------------------------------------------------------------ emitted packets: profile rules
    last_cert: dict[int, int] = {}             # sender -> time of last certificate inclusion in a CAM/VAM
    first_camlike: dict[int, bool] = {}
    camlike_tx: dict[int, list] = {}
    gen_tx: dict[int, int] = {}
    for tx in sim.sectx:
        m, s, t = tx["m"], tx["st"], tx["t"]
        if tx["injected"] or not m.ok and m.header is None:
            continue
        if gen_tx.get(s, tx["gen"]) != tx["gen"]:
            last_cert.pop(s, None)          # restarted: the new instance has never included its certificate
            sim.probe("first-message-after-restart")
        gen_tx[s] = tx["gen"]
        hdr = m.header or {}
        psid = m.psid
        prof = "CAM" if psid == 36 else "VAM" if psid == 638 else "DENM" if psid == 37 else "other"
        tx["prof"] = prof
        for f in ("psid", "generationTime"):
            if f not in hdr:
                sim.violate(ID, "missing-field:" + f, prof, f"station {s} emitted a {prof}-profile message without {f}")
        if "generationTime" in hdr:
            want = sc.its_us(sim.kernel.t0_us + 0) + (t - sim.kernel.t0_us) + sim.kernel.offsets_us.get(s, 0)
            if abs(hdr["generationTime"] - want) > 1_000:
                sim.violate(ID, "wrong-field:generationTime", prof, f"station {s} {prof}: generationTime {hdr['generationTime']} vs virtual ITS time {want}")
        if prof in ("CAM", "VAM"):
            camlike_tx.setdefault(s, []).append(tx)
            for f in FORBIDDEN_CAM:
                if f in hdr:
                    sim.violate(ID, "forbidden-field:" + f, prof, f"station {s} emitted a {prof} with {f}")
            prev = last_cert.get(s)
            if m.signer_kind == "certificate":
                last_cert[s] = t
                if prev is not None and t - prev <= 1_000_000:
                    sim.probe("cert-included-early")
            elif m.signer_kind == "digest":
                if prev is None or t - prev > 1_001_000:
                    sim.violate(ID, "cert-not-included-after-1s", prof, f"station {s} signed a {prof} with digest {'%.3f s after the last certificate' % ((t - prev) / 1e6) if prev is not None else 'as its first message'}")
                    last_cert[s] = t      # report once per lapse
                elif t - prev > 900_000:
                    sim.probe("digest-close-to-1s")
            if m.signer_kind == "certificate" and prev is not None and t - prev > 1_000_000:
                sim.probe("cert-after-1s")
        elif prof == "DENM":
            sim.probe("denm-checked")
            if m.signer_kind != "certificate":
                sim.violate(ID, "denm-not-certificate", "DENM", f"station {s} signed a DENM with {m.signer_kind}")
            if "generationLocation" not in hdr:
                sim.violate(ID, "missing-field:generationLocation", "DENM", f"station {s} emitted a DENM without generationLocation")
            for f in FORBIDDEN_DENM:
                if f in hdr:
                    sim.violate(ID, "forbidden-field:" + f, "DENM", f"station {s} emitted a DENM with {f}")
        else:
            sim.probe("generic-checked")
    # ------------------------------------------------------------------ end to end: what was signed, what reached the application
    judge_end_to_end(sim)
    # ------------------------------------------------------------------ receptions: acceptance and the learning exchange
    known: dict[int, set] = {s.idx: set(s.spec.get("preload", [])) for s in sim.stations if s.spec.get("secure")}
    for r_, ks in known.items():
        if ks:
            sim.probe("preloaded-receiver")
    pending: dict[tuple, dict] = {}          # (receiver, sender) -> state of the learning exchange
    msg_index = {tx["msg"]: tx for tx in sim.sectx if not tx["injected"]}
    events = sorted([("rx", v["ev"], v) for v in sim.verifs] + [("tx", tx["ev"], tx) for tx in sim.sectx if not tx["injected"]], key=lambda e: (e[1], e[0] == "rx"))
    joins = plan["config"].get("joins", {})
    gen_ev: dict[int, int] = {}
    for kind, _, e in events:
        st_ = e["st"]
        if gen_ev.get(st_, e["gen"]) != e["gen"]:
            # the station restarted: it has forgotten every learnt ticket and every exchange it was part of
            known[st_] = set(plan["stations"][st_].get("preload", []))
            for key_ in [k_ for k_ in pending if st_ in k_]:
                del pending[key_]
            sim.probe("restart-forgot-tickets")
        gen_ev[st_] = e["gen"]
        if kind == "tx":
            s, m = e["st"], e["m"]
            if e.get("prof") not in ("CAM", "VAM"):
                continue
            hdr = m.header or {}
            # (request) a receiver that rejected a digest of an unknown ticket names it in its next CAM/VAM
            for (rcv, snd), st in list(pending.items()):
                if rcv == s and st["phase"] == "rejected":
                    req = [bytes(x) for x in hdr.get("inlineP2pcdRequest", [])]
                    if tickets[snd][-3:] in req:
                        st["phase"] = "requested"
                        st["req_msg"] = e["msg"]
                        sim.probe("p2pcd-request-seen")
                    else:
                        sim.violate(ID, "no-p2pcd-request", e["prof"], f"station {s} rejected a digest-signed message of station {snd}'s unknown ticket at "
                                    f"+{(st['t'] - sim.kernel.t0_us) / 1e6:.3f} s but its next {e['prof']} carries no inlineP2pcdRequest for it")
                        st["phase"] = "given-up"
            # (inclusion) a sender that received a request for its ticket includes the certificate in its next CAM/VAM
            for (rcv, snd), st in list(pending.items()):
                if snd == s and st["phase"] == "request-received":
                    if m.signer_kind == "certificate":
                        st["phase"] = "cert-sent"
                        st["cert_msg"] = e["msg"]
                        sim.probe("cert-after-request")
                    else:
                        sim.violate(ID, "cert-not-included-after-request", e["prof"], f"station {s} received an inlineP2pcdRequest for its ticket from station {rcv} "
                                    f"but signed its next {e['prof']} with {m.signer_kind}")
                        st["phase"] = "given-up"
            continue
        v = e
        rcv = v["st"]
        tx = msg_index.get(v["msg"])
        if tx is None or v["exc"] is not None and False:
            continue
        m = tx["m"]
        snd = by_h8.get(m.signer_digest) if m.signer_digest else None
        if snd is None or snd == rcv:
            continue
        prof = tx.get("prof", "other")
        carries = m.signer_kind == "certificate"
        knows = snd in known[rcv]
        # a request-carrying CAM received (and accepted) by the station whose ticket it names
        hdr = m.header or {}
        if prof in ("CAM", "VAM") and v["report"] == "SUCCESS":
            req = [bytes(x) for x in hdr.get("inlineP2pcdRequest", [])]
            for (r2, s2), st in pending.items():
                if s2 == rcv and r2 == snd and st["phase"] == "requested" and st.get("req_msg") == v["msg"] and tickets[rcv][-3:] in req:
                    st["phase"] = "request-received"
        if v["exc"] is not None:
            sim.violate(ID, "genuine-rejected", f"{prof}/raised:{type(v['exc']).__name__}", f"verification of a genuine {prof} of station {snd} raised {v['exc']!r} at station {rcv}")
            continue
        if carries or knows:
            cls = "certificate" if carries else "digest-known"
            if v["report"] != "SUCCESS":
                sim.violate(ID, "genuine-rejected", f"{prof}/{cls}", f"station {rcv} reported {v['report']} for a genuine {prof} of station {snd} ({cls}) at "
                            f"+{(v['t'] - sim.kernel.t0_us) / 1e6:.3f} s")
            else:
                sim.probe("accepted:" + cls)
                inner = v["plain"]
                if inner is None or inner != m.payload:
                    sim.violate(ID, "payload-changed", prof, f"station {rcv}: plain_message differs from the signed payload of station {snd}'s {prof}")
                st = pending.get((rcv, snd))
                if st and st["phase"] in ("cert-sent", "requested", "request-received", "rejected") and carries:
                    sim.probe("accepted-after-learning")
                    del pending[(rcv, snd)]
            if carries:
                if joins.get(str(rcv), joins.get(rcv, 0)):
                    sim.probe("late-joiner")
                known[rcv].add(snd)
            trace.append((prof, m.signer_kind, "ok" if v["report"] == "SUCCESS" else v["report"]))
        else:
            # digest of a ticket the receiver cannot know yet
            if v["report"] == "SUCCESS":
                sim.probe("accepted:digest-unknown?")     # would be C03's business
            else:
                sim.probe("rejected:digest-unknown")
                if (rcv, snd) not in pending and rcv in camlike_tx:
                    pending[(rcv, snd)] = {"phase": "rejected", "t": v["t"]}
            trace.append((prof, "digest", "unknown:" + str(v["report"])))
    return trace


def _request_of(sim, tx, by_idx):
    """The request op that caused an emitted packet (None when it was not caused by one)."""
    cause = root_cause(tx["cause"])
    if not cause or cause[0] != "op":
        return None
    rec = by_idx.get(cause[1])
    if rec is None or rec["op"].get("op") != "req" or rec.get("skipped") or rec["op"].get("st") != tx["st"]:
        return None
    return rec


def _btp_body(op) -> bytes:
    return rc.enc_btp(op["dport"], op.get("sport", 0) if op.get("btp", "b") == "a" else op.get("dpinfo", 0)) + bytes.fromhex(op.get("payload", ""))


def judge_end_to_end(sim: SecNetSim) -> None:
    """(signed-payload-differs) the GN-PDU inside every genuine secured packet is the reference encoding (refcodec, as C02 judges
    unsecured frames) of the request that caused it; (not-delivered-after-success / delivered-payload-differs) every SUCCESS
    verification of such a packet ends, within the same reception, in a BTP indication on the requested port with the requested payload."""
    by_idx = {o["idx"]: o for o in sim.hist.ops}
    pseudo_basic = rc.enc_basic(rc.NH_COMMON, 0, 1)
    tx_info: dict[bytes, tuple] = {}
    for tx in sim.sectx:
        m = tx["m"]
        if tx["injected"] or "prof" not in tx:
            continue
        rec = _request_of(sim, tx, by_idx)
        if rec is None:
            sim.probe("signed-payload-unjudged:no-request")
            continue
        op, prof, s = rec["op"], tx["prof"], tx["st"]
        inner = m.payload
        parsed = None
        if inner is not None:
            try:
                parsed = rc.parse_common_on(inner)
            except rc.Malformed:
                parsed = None
        tx_info[tx["msg"]] = (tx, op, parsed)
        if op["type"] not in ("shb", "gbc") or tx.get("ego") is None:
            sim.probe("signed-payload-unjudged:" + op["type"])
            continue
        if rec.get("e2e_seen"):
            sim.probe("signed-payload-unjudged:second-packet-of-request")
            continue
        rec["e2e_seen"] = True
        if parsed is None:
            sim.violate(ID, "signed-payload-differs", prof + "/unparsable", f"station {s}: the signed payload of a {prof} is not a GN-PDU the reference parser accepts")
            continue
        mib = sim.stations[s].mib
        hl = op.get("hl", 1)
        rhl = 1 if op["type"] == "shb" else (hl if hl > 1 else mib.itsGnDefaultHopLimit)
        exp = {"basic": {"nh": rc.NH_COMMON, "lt": 0, "rhl": 1},
               "common": {"nh": 1 if op.get("btp", "b") == "a" else 2, "ht": rc.HT_TSB if op["type"] == "shb" else rc.HT_GBC,
                          "hst": 0 if op["type"] == "shb" else op["area"]["shape"], "tc": op.get("tc", 0),
                          "flags": mib.itsGnIsMobile.value << 7, "mhl": rhl},
               "so": tx["ego"], "payload": _btp_body(op)}
        if op["type"] == "gbc":
            a = op["area"]
            exp["area"] = {"lat": a["lat"], "lon": a["lon"], "a": a["a"], "b": a["b"], "angle": a["angle"]}
            exp["sn"] = parsed.get("sn", 0)
        want = rc.build_packet(exp)[4:]
        sim.probe("signed-payload-checked")
        if want != inner:
            field = rc.describe_diff(pseudo_basic[:3] + bytes([max(1, rhl)]) + inner, pseudo_basic[:3] + bytes([max(1, rhl)]) + want)
            sim.violate(ID, "signed-payload-differs", f"{prof}/{field}",
                        f"station {s} {prof} ({op['type']}): signed GN-PDU {inner[:64].hex()} differs from the reference encoding of the request "
                        f"{want[:64].hex()} (first differing field {field})")
    # receptions
    inds: dict[tuple, list] = {}
    for i in sim.hist.ind:
        c = i["cause"]
        if c and c[0] == "rx":
            inds.setdefault((i["st"], c[1]), []).append(i)
    accepted_sn: set = set()
    for v in sorted(sim.verifs, key=lambda v_: v_["ev"]):
        if v["report"] != "SUCCESS" or v["msg"] not in tx_info:
            continue
        tx, op, parsed = tx_info[v["msg"]]
        prof, rcv, c = tx["prof"], v["st"], v["cause"]
        if rcv == tx["st"] or not c or c[0] != "rx":
            sim.probe("delivery-unjudged:no-reception")
            continue
        if op["type"] == "gbc":
            sn = parsed.get("sn") if parsed else None
            key = (rcv, v["gen"], tx["st"], sn)
            if key in accepted_sn:
                sim.probe("delivery-excused:duplicate-sequence-number")
                continue
            accepted_sn.add(key)
            pos = sim.stations[rcv].pos
            if rc.area_verdict(op["area"]["shape"], op["area"], pos[0], pos[1]) != "inside":
                sim.probe("delivery-unjudged:not-clearly-inside")
                continue
        elif op["type"] != "shb":
            sim.probe("delivery-unjudged:" + op["type"])
            continue
        want = bytes.fromhex(op.get("payload", ""))
        got = inds.get((rcv, c[1]), [])
        on_port = [i for i in got if i["port"] == op["dport"]]
        if any(bytes(i["ind"].data) == want for i in on_port):
            sim.probe("delivered-after-success")
            sim.probe("delivered-after-success:" + prof)
        elif got:
            i0 = (on_port or got)[0]
            sim.violate(ID, "delivered-payload-differs", prof, f"station {rcv} verified a {prof} of station {tx['st']} (SUCCESS) but the indication of that "
                        f"reception is port {i0['port']} data {bytes(i0['ind'].data)[:32].hex()} instead of port {op['dport']} data {want[:32].hex()}")
        else:
            sim.violate(ID, "not-delivered-after-success", prof, f"station {rcv} verified a {prof} of station {tx['st']} (SUCCESS) at "
                        f"+{(v['t'] - sim.kernel.t0_us) / 1e6:.3f} s but no BTP indication followed on port {op['dport']}")
