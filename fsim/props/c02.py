"""C02 - emitted packets and header codecs conform to the ETSI wire formats."""
from __future__ import annotations

import random

from .. import refcodec as rc
from .. import netplan as npl
from ..wiremon import WireMonitor, DecodeMonitor
from ..result import finish
from . import c01

ID = "C02"
ENGINE = "net"
RUNS = {"quick": 5000, "thorough": 120000}
RULE_TEXT = ("one run = a seeded plan on the multi-station ether: either a C01-style request workload with extreme field values "
             "(speeds around 2^14/2^15 cm/s, headings, SN presets near the 16-bit wrap, both mobility settings, negative coordinates) "
             "or a reference peer injecting conformant packets of every type with boundary-biased field values; every frame handed to "
             "LinkLayer.send is compared octet for octet with the reference encoding (lifetime octet: C20), every delivered conformant "
             "frame is decoded by the repo's decode class methods and compared field by field with the reference parse; non-trivial = "
             "at least one frame compared; distinct = distinct sequences of (station, packet type, originated/forwarded/decoded)")
COMPONENTS = c01.COMPONENTS
ASSUMPTIONS = ["the LT octet is judged by value under C20 (several codes encode the same lifetime)",
               "ego speeds outside the 15-bit signed range give no verdict on the speed field itself, only on PAI and all other fields",
               "exact sequence numbers are not predicted (a request may consume one without emitting); they must advance by 1..k",
               "station types 12..31 and reserved header-type values are C04's subject, not injected here"]
EXPECTED_PROBES = ["tx:BEACON", "tx:SHB", "tx:GBC", "tx:GAC", "tx:GUC", "tx:LSREQ", "tx:LSREP", "forwarded:TSB", "forwarded:GBC",
                   "forwarded:GUC", "forwarded:LSREQ", "forwarded:LSREP", "decoded:TSB", "decoded:BEACON", "decoded:GUC",
                   "decoded:LSREP", "sn-wrapped", "ego-speed-out-of-field-range"]

SPEEDS = [0.0, 0.01, 163.83, 163.84, 163.85, 200.0, 327.67, 327.68, 400.0, 50.0, 13.9]


def gen_plan(run_seed: int, tier: str) -> dict:
    r = random.Random(run_seed ^ 0xC02C02)
    if r.random() < 0.5:
        plan = c01.gen_plan(run_seed, tier)
        plan["property"] = ID
        plan["config"]["mode"] = "requests"
        for s in plan["stations"]:
            if r.random() < 0.5:
                s["speed"] = r.choice(SPEEDS)
            if r.random() < 0.3:
                s["sn0"] = r.choice([65530, 65533, 65534, 65535, 32767, 65500])
            if r.random() < 0.5:
                s["track"] = r.choice([0.0, 359.9, 360.0, 180.0, 0.1])
            s["mib"]["itsGnIsMobile"] = r.choice(["STATIONARY", "MOBILE"])
            if r.random() < 0.5:
                s["mib"]["itsGnBeaconServiceRetransmitTimer"] = r.choice([300, 3000])
        for o in plan["ops"]:
            if o["op"] == "gnss" and r.random() < 0.5:
                o["speed"] = r.choice(SPEEDS)
        return plan
    n = r.randint(2, 3)
    hemi = r.choice(npl.HEMIS)
    blat, blon = npl.base_point(r, hemi)
    macs = npl.unique_macs(r, n + 4)
    mib = npl.rand_mib(r, dpl=(8, 16))
    mib["itsGnIsMobile"] = r.choice(["STATIONARY", "MOBILE"])
    stations = []
    for i in range(n):
        lat, lon = rc.offset_position(blat, blon, r.uniform(-150, 150), r.uniform(-150, 150))
        stations.append({"mac": macs[i], "st": r.randint(0, 11), "pos": [lat, lon], "speed": r.choice(SPEEDS),
                         "track": round(r.uniform(0, 359.9), 1), "mib": dict(mib), "ports": npl.rand_ports(r)})
    plat, plon = rc.offset_position(blat, blon, r.uniform(-100, 100), r.uniform(-100, 100))
    stations.append({"mac": macs[n], "role": "peer", "pos": [plat, plon]})
    ops = []
    t = 0
    srcs = macs[n:n + 4]
    src_addr = {m: npl.rand_addr(r, m) for m in srcs}
    for _ in range(r.randint(8, 40)):
        t += r.choice([0, r.randint(0, 3000), r.randint(0, 60000)])
        typ = r.choice(npl.PKT_TYPES)
        src = r.choice(srcs)
        kw = {}
        c = r.random()
        if typ in ("GUC", "LSREP", "LSREQ") and c < 0.5:
            # addressed to one of the real stations
            j = r.randrange(n)
            kw["dest_addr"] = rc.enc_addr(0, stations[j]["st"], bytes.fromhex(stations[j]["mac"])).hex()
        if typ in ("GBC", "GAC") and c < 0.7:
            # area around the stations so that delivery / forwarding decisions are exercised
            kw["area"] = {"lat": blat, "lon": blon, "a": r.choice([50, 500, 3000]), "b": r.choice([50, 500, 3000]),
                          "angle": r.choice([0, r.randint(0, 359)])}
        so = npl.rand_lpv(r, src_addr[src]) if r.random() < 0.7 else \
            npl.rand_lpv(r, src_addr[src], pos=list(rc.offset_position(blat, blon, r.uniform(-400, 400), r.uniform(-400, 400))))
        pkt = npl.rand_pkt(r, typ, src, so=so, dport=r.choice(stations[0]["ports"]), **kw)
        ops.append({"op": "inject", "t": t, "frm": n, "pkt": pkt})
    cfg = {"t0_us": 1_767_225_600_000_000 + r.randrange(0, 86_400_000) * 1000, "net_seed": r.getrandbits(32),
           "latency_us": [100, 2000], "fifo": True, "topology": "mesh", "run_limit_us": t + 1_500_000,
           "fault_class": "none", "hemi": hemi, "mode": "inject"}
    return {"engine": ENGINE, "property": ID, "config": cfg, "stations": stations, "ops": ops}


class Sim(c01.C01Sim):
    def __init__(self, plan):
        super().__init__(plan)
        self.monitors.append(WireMonitor(props=("C02",)))
        self.monitors.append(DecodeMonitor(props=("C02",)))


def make_sim(plan):
    return Sim(plan)


def execute(plan: dict) -> dict:
    sim = Sim(plan)
    sim.run()
    tr = []
    for t in sim.hist.tx:
        if not t["injected"]:
            p = t.get("parsed")
            own = bool(p) and "secured" not in p and p["so"]["addr"]["mid"] == sim.stations[t["st"]].mac
            tr.append((t["st"], t.get("ptype", "?"), "orig" if own else "fwd"))
    for x in sim.hist.rx:
        tr.append((x["st"], x.get("ptype", x.get("malformed", "?")), "rx"))
    return finish(sim, tr)
