"""C06 - multi-hop packets: at-most-once delivery and forwarding, shrinking hop budget, terminating floods."""
from __future__ import annotations

import random

from .. import refcodec as rc
from .. import netplan as npl
from ..netsim import Monitor
from ..wiremon import WireMonitor, root_cause
from ..result import finish
from . import c01

ID = "C06"
ENGINE = "net"
RUNS = {"quick": 4000, "thorough": 100000}
RULE_TEXT = ("one run = a seeded plan on a line / ring / mesh of 3-6 real stations plus a reference peer: GBC/GAC/GUC originated by stations, "
             "TSB multi-hop, LS request/reply, GUC and arbitrary-RHL packets (0..255) injected by the peer from several phantom sources, "
             "sequence numbers across the 16-bit wrap, DPL length 1..16, SIMPLE/CBF/UNSPECIFIED area forwarding, exact duplicates and replays "
             "(inside and after the DPL window), reordering, restarts; judged per (station, source, SN) against a reference duplicate packet "
             "list; non-trivial = at least one multi-hop packet forwarded or rejected as duplicate; distinct = distinct sequences of "
             "(station, packet type, fresh/dup/own, delivered, forwarded)")
COMPONENTS = c01.COMPONENTS
ASSUMPTIONS = ["whether a station forwards at all (greedy choice, PDR enforcement, SCF buffering) is not demanded",
               "a duplicate verdict is only given while the reference DPL holds the SN and the source's LocTE cannot have expired (3 s margin)",
               "after a restart the restarted station's duplicate memory is legitimately empty"]
EXPECTED_PROBES = ["dup-rejected", "forwarded:TSB", "forwarded:GBC", "forwarded:GAC", "forwarded:GUC", "forwarded:LSREQ", "forwarded:LSREP",
                   "cbf-buffered", "cbf-dup-while-buffered", "cbf-moved-while-buffered", "rhl<=1-not-forwarded", "own-address-rejected", "sn-wrapped-injected", "replay-after-window"]


def gen_plan(run_seed: int, tier: str) -> dict:
    r = random.Random(run_seed ^ 0xC06C06)
    n = r.randint(3, 6)
    topo = r.choice(["line", "line", "ring", "mesh", "geo"])
    hemi = r.choice(["NE", "NE", "SW", "SE", "NW"])
    blat, blon = npl.base_point(r, hemi)
    macs = npl.unique_macs(r, n + 5)
    mib = npl.rand_mib(r, beacon=False)
    alg = r.choice(["SIMPLE", "CBF", "CBF", "UNSPECIFIED"])
    mib["itsGnAreaForwardingAlgorithm"] = alg
    mib["itsGnDPLLength"] = r.choice([1, 2, 8, 16])
    mib["itsGnLifetimeLocTE"] = r.choice([5, 20])
    mib["itsGnMaxGeoAreaSize"] = r.choice([10, 100])
    if r.random() < 0.5:
        mib["itsGnBeaconServiceRetransmitTimer"] = r.choice([300, 1000])
    if r.random() < 0.15:
        mib["itsGnMaxPacketDataRate"] = 1   # tiny PDR limit: enforcement stops forwarding (never demanded)
    spacing = r.uniform(120, 300)
    brg = r.uniform(0, 360)
    import math
    stations = []
    ports = npl.rand_ports(r)
    for i in range(n):
        if topo in ("line", "geo"):
            e, nn = math.sin(math.radians(brg)) * spacing * i, math.cos(math.radians(brg)) * spacing * i
        else:
            ang = 2 * math.pi * i / n
            e, nn = math.sin(ang) * spacing, math.cos(ang) * spacing
        lat, lon = rc.offset_position(blat, blon, e + r.uniform(-10, 10), nn + r.uniform(-10, 10))
        stations.append({"mac": macs[i], "st": r.randint(0, 11), "pos": [lat, lon], "speed": round(r.uniform(0, 30), 2),
                         "track": round(r.uniform(0, 359.9), 1), "mib": dict(mib), "ports": list(ports),
                         "sn0": r.choice([None, None, 65530, 65533])})
    peer = n
    plat, plon = rc.offset_position(blat, blon, r.uniform(-50, 50), r.uniform(-50, 50))
    stations.append({"mac": macs[n], "role": "peer", "pos": [plat, plon]})
    if topo == "line":
        links = [[i, i + 1] for i in range(n - 1)]
    elif topo == "ring":
        links = [[i, (i + 1) % n] for i in range(n)]
    elif topo == "mesh":
        links = [[a, b] for a in range(n) for b in range(a + 1, n)]
    else:
        rng_m = spacing * r.choice([1.2, 2.2])
        links = [[a, b] for a in range(n) for b in range(a + 1, n) if abs(a - b) * spacing <= rng_m]
    attach = r.sample(range(n), r.randint(1, min(2, n)))
    links += [[peer, a] for a in attach]
    ops = []
    t = 0
    # warm-up so that neighbours are known (greedy forwarding, SCF)
    for i in range(n):
        t += r.randint(100, 2000)
        ops.append({"op": "req", "t": t, "st": i, "type": "shb", "btp": "b", "dport": r.choice(ports), "dpinfo": 0,
                    "payload": npl.rand_payload(r, 0xA0000000 + i, 30), "tc": 0, "hl": 1, "lt": None})
    t += 5000
    srcs = macs[n + 1:n + 5]
    src_addr = {m: npl.rand_addr(r, m) for m in srcs}
    src_sn = {m: r.choice([0, 100, 65530, 65533, r.randrange(65536)]) for m in srcs}
    centre = stations[n // 2]["pos"]
    big_area = {"shape": r.randrange(3), "lat": centre[0], "lon": centre[1], "a": int(spacing * n), "b": int(spacing * n), "angle": r.choice([0, r.randint(0, 359)])}
    if big_area["a"] > 1700:
        big_area["a"] = big_area["b"] = 1700
    tag = 0
    injected = []
    for _ in range(r.randint(6, 30)):
        t += r.choice([0, r.randint(0, 2000), r.randint(0, 150_000)])
        c = r.random()
        if c < 0.3:
            tag += 1
            i = r.randrange(n)
            typ = r.choice(["gbc", "gbc", "gac", "guc"])
            op = {"op": "req", "t": t, "st": i, "type": typ, "btp": r.choice("ab"), "dport": r.choice(ports), "payload": npl.rand_payload(r, tag, 100),
                  "tc": npl.rand_tc(r, allow_scf=r.random() < 0.2), "hl": r.choice([0, 1, 2, 3, 5, 10, 255] if mib["itsGnDPLLength"] > 2 else [0, 1, 2, 3, 5, 10]), "lt": None, "sport": 1, "dpinfo": 1}
            if typ in ("gbc", "gac"):
                if r.random() < 0.7:
                    op["area"] = dict(big_area)
                else:
                    j = r.randrange(n)
                    op["area"] = {"shape": r.randrange(3), "lat": stations[j]["pos"][0], "lon": stations[j]["pos"][1],
                                  "a": r.randint(30, 200), "b": r.randint(30, 200), "angle": r.choice([0, r.randint(0, 359)])}
            else:
                op["dest"] = r.choice([j for j in range(n) if j != i])
            ops.append(op)
        elif c < 0.8:
            typ = r.choice(["TSB", "TSB", "GBC", "GAC", "GUC", "LSREQ", "LSREP"])
            src = r.choice(srcs)
            src_sn[src] = (src_sn[src] + r.choice([1, 1, 1, 2])) % 65536
            if src_sn[src] < 3:
                pass
            kw = {"sn": src_sn[src]}
            mhl = r.choice([1, 2, 3, 10, 255, r.randint(1, 255)])
            if mib["itsGnDPLLength"] <= 2:
                mhl = min(mhl, 12)      # with a 1-2 entry DPL packets legitimately bounce until the hop limit runs out
            kw["mhl"] = mhl
            kw["rhl"] = r.choice([0, 1, 2, mhl, r.randint(0, mhl)])
            if typ in ("GBC", "GAC"):
                kw["area"] = {k: v for k, v in big_area.items() if k != "shape"} if r.random() < 0.7 else \
                    {"lat": stations[0]["pos"][0], "lon": stations[0]["pos"][1], "a": r.randint(30, 150), "b": r.randint(30, 150), "angle": 0}
            if typ in ("GUC", "LSREP", "LSREQ"):
                if r.random() < 0.7:
                    j = r.randrange(n)
                    kw["dest_addr"] = rc.enc_addr(0, stations[j]["st"], bytes.fromhex(stations[j]["mac"])).hex()
                    if typ != "LSREQ":
                        kw["dest_pv"] = {"addr": kw["dest_addr"], "tst_off_ms": -r.randint(0, 3000), "lat": stations[j]["pos"][0], "lon": stations[j]["pos"][1]}
                        del kw["dest_addr"]
            so = npl.rand_lpv(r, src_addr[src], pos=list(rc.offset_position(plat, plon, r.uniform(-100, 100), r.uniform(-100, 100))), full_range=False)
            pkt = npl.rand_pkt(r, typ, src, so=so, dport=r.choice(ports), **kw)
            pkt["common"]["tc"] &= 0x7F if r.random() < 0.8 else 0xFF
            if typ in ("GBC", "GAC"):
                pkt["common"]["hst"] = big_area["shape"] if "shape" in big_area and r.random() < 0.7 else pkt["common"]["hst"]
            o = {"op": "inject", "t": t, "frm": peer, "pkt": pkt}
            injected.append(o)
            ops.append(o)
        elif c < 0.9 and injected:
            # exact duplicate of an earlier injected packet: immediately, a little later, or after the DPL window moved on
            o = dict(r.choice(injected))
            o["t"] = t
            pk = dict(o["pkt"])
            so = dict(pk["so"])
            so["tst_off_ms"] = so.get("tst_off_ms", 0) - 1   # same packet, PV no younger
            o["pkt"] = pk
            ops.append(o)
        else:
            ops.append({"op": "replay", "t": t, "tx": r.randint(0, 40), "to": r.randrange(n), "lat_us": r.randint(100, 30000)})
    # moving stations (own PRNG stream, so that older plans keep their shape): position reports that carry a station out of / back
    # into the destination areas, biased to land while a geo-broadcast is in flight or waiting in a CBF buffer
    r2 = random.Random(run_seed ^ 0x6A0B1E)
    if r2.random() < 0.45:
        geo_ts = [o["t"] for o in ops if (o["op"] == "req" and o.get("type") in ("gbc", "gac")) or
                  (o["op"] == "inject" and o["pkt"]["common"]["ht"] in (3, 4))]
        for _ in range(r2.randint(1, 8)):
            i = r2.randrange(n)
            if geo_ts and r2.random() < 0.7:
                tm = r2.choice(geo_ts) + r2.choice([r2.randint(200, 6000), r2.randint(1000, 60_000), r2.randint(1000, 120_000)])
            else:
                tm = r2.randint(0, max(t, 1))
            if r2.random() < 0.6:
                dist = r2.uniform(1800, 6000)      # clearly outside every area used above
            else:
                dist = r2.uniform(0, 150)          # back to (about) where it started
            ang = r2.uniform(0, 2 * math.pi)
            la, lo = rc.offset_position(stations[i]["pos"][0], stations[i]["pos"][1], math.sin(ang) * dist, math.cos(ang) * dist)
            ops.append({"op": "gnss", "t": tm, "st": i, "lat": la, "lon": lo, "speed": round(r2.uniform(0, 30), 2), "track": round(r2.uniform(0, 359.9), 1)})
        ops.sort(key=lambda o: o["t"])
    lossy = r.random() < 0.4
    cfg = {"t0_us": 1_767_225_600_000_000 + r.randrange(0, 86_400_000) * 1000, "net_seed": r.getrandbits(32), "latency_us": [100, 2000],
           "fifo": not lossy, "topology": links, "run_limit_us": t + 3_000_000, "fault_class": "lossy" if lossy else "none",
           "fwd_alg": alg, "topo": topo}
    if lossy:
        cfg["rates"] = {"drop": r.choice([0, 0.05]), "dup": r.choice([0.05, 0.2]), "delay": r.choice([0, 0.1, 0.3])}
        cfg["delay_max_us"] = r.choice([5000, 200_000])
        for _ in range(r.randint(0, 2)):
            ops.append({"op": "restart", "t": r.randint(0, t), "st": r.randrange(n)})
        ops.sort(key=lambda o: o["t"])
    return {"engine": ENGINE, "property": ID, "config": cfg, "stations": stations, "ops": ops}


class C06Monitor(Monitor):
    def __init__(self):
        self.cbf: dict[tuple, dict] = {}    # (station, gen, mid, sn) -> {"first": t, "dup": t|None}
        self.tx_per_packet: dict[tuple, int] = {}
        self.restarts = 0
        self.seen_sn: dict[tuple, set] = {}
        self.last_sn: dict[tuple, int] = {}

    def before_rx(self, sim, rec):
        rec["gn0"] = len(sim.hist.gnind)
        rec["tx0"] = len(sim.hist.tx)

    def after_rx(self, sim, rec):
        st = sim.stations[rec["st"]]
        p = rec.get("parsed")
        if p is None or "secured" in p or "sn" not in p:
            return
        typ = rec.get("ptype")
        alg = st.mib.itsGnAreaForwardingAlgorithm.name
        new_ind = sim.hist.gnind[rec["gn0"]:]
        new_tx = [t for t in sim.hist.tx[rec["tx0"]:] if t["st"] == st.idx and root_cause(t["cause"]) == ("rx", rec["i"])]
        fwd_now = [t for t in new_tx if t.get("parsed") and "secured" not in t["parsed"] and t["parsed"]["so"]["addr"]["mid"] != st.mac]
        rhl = p["basic"]["rhl"]
        rclass = "0" if rhl == 0 else ("1" if rhl == 1 else ">1")
        key = f"{typ}/rhl={rclass}/{alg}"
        ck = (st.idx, st.gen, p["so"]["addr"]["mid"], p["sn"])
        if rec.get("dpl") == "dup":
            sim.probe("dup-rejected")
            if new_ind:
                sim.violate(ID, "delivered-twice", key, f"station {st.idx} delivered {typ} sn={p['sn']} of {ck[2].hex()} again (duplicate inside the DPL window)")
            c = self.cbf.get(ck)
            if c is not None and c["dup"] is None and c["typ"] == typ and c["payload"] == p["payload"]:   # the same packet, not a reused SN
                c["dup"] = sim.kernel.now_us
                sim.probe("cbf-dup-while-buffered")
        elif rec.get("dpl") == "own":
            sim.probe("own-address-rejected")
            if new_ind:
                sim.violate(ID, "delivered-own", key, f"station {st.idx} delivered a {typ} bearing its own address")
            if new_tx:
                sim.violate(ID, "forwarded-own", key, f"station {st.idx} transmitted after receiving a {typ} bearing its own address")
        elif rec.get("dpl") == "stale":
            sim.probe("replay-after-locte-margin")
        elif rec.get("dpl") == "fresh":
            seen = self.seen_sn.setdefault(ck[:3], set())
            if p["sn"] in seen:
                sim.probe("replay-after-window")       # same SN accepted again after the DPL ring moved on
            seen.add(p["sn"])
            last = self.last_sn.get(ck[:3])
            if last is not None and p["sn"] < last and last - p["sn"] > 60000:
                sim.probe("sn-wrapped-injected")
            self.last_sn[ck[:3]] = p["sn"]
            if rhl <= 1 and not fwd_now:
                sim.probe("rhl<=1-not-forwarded")
            if typ in ("GBC", "GAC") and alg == "CBF" and rhl >= 2 and not fwd_now:
                # possibly buffered for contention-based forwarding
                self.cbf[ck] = {"first": sim.kernel.now_us, "dup": None, "typ": typ, "payload": p["payload"]}

    def on_tx(self, sim, rec):
        st = sim.stations[rec["st"]]
        try:
            p = rc.parse_packet(rec["frame"])
        except rc.Malformed:
            return
        if "secured" in p or "sn" not in p:
            return
        mid = p["so"]["addr"]["mid"]
        k = (rc.ptype(p), mid, p["sn"])
        self.tx_per_packet[k] = self.tx_per_packet.get(k, 0) + 1
        if mid == st.mac:
            return
        rcause = root_cause(rec["cause"])
        if rcause and rcause[0] == "rx" and sim.hist.rx[rcause[1]].get("dpl") == "dup":
            trig = sim.hist.rx[rcause[1]].get("parsed")
            if trig and trig.get("sn") == p["sn"] and trig["so"]["addr"]["mid"] == mid:
                sim.violate(ID, "forwarded-twice", f"{rc.ptype(p)}/{st.mib.itsGnAreaForwardingAlgorithm.name}",
                            f"station {st.idx} forwarded {rc.ptype(p)} sn={p['sn']} of {mid.hex()} on a reception the duplicate packet list identifies as duplicate")
        c = self.cbf.get((st.idx, st.gen, mid, p["sn"]))
        if c is not None and root_cause(rec["cause"]) != rec["cause"]:   # sent from a timer: a CBF expiry
            sim.probe("cbf-buffered")
            if c["dup"] is not None and sim.kernel.now_us > c["dup"]:
                sim.violate(ID, "cbf-sent-after-duplicate", f"{c['typ']}/CBF",
                            f"station {st.idx} transmitted the buffered {c['typ']} sn={p['sn']} of {mid.hex()} at +{(sim.kernel.now_us - c['first']) / 1000:.1f} ms "
                            f"although a duplicate was overheard at +{(c['dup'] - c['first']) / 1000:.1f} ms")

    def after_op(self, sim, rec):
        if rec["op"]["op"] == "restart":
            self.restarts += 1
        if rec["op"]["op"] == "gnss" and not rec.get("skipped"):
            sim.probe("station-moved")
            st = sim.stations[rec["op"]["st"]]
            if any(k[0] == st.idx and k[1] == st.gen and c["dup"] is None and sim.kernel.now_us - c["first"] < 100_000 for k, c in self.cbf.items()):
                sim.probe("cbf-moved-while-buffered")

    def on_end(self, sim):
        n = sum(1 for s in sim.stations if s.role == "stack")
        lossy = sim.cfg.get("fault_class") != "none"
        dpl_all = min(s.mib.itsGnDPLLength for s in sim.stations if s.role == "stack")
        if sim.kernel.exhausted:
            if dpl_all >= 8:
                sim.violate(ID, "flood-not-terminating", f"event-cap/{sim.cfg.get('fwd_alg')}", "the event cap was reached: transmissions keep being generated")
            else:
                sim.probe("event-cap-with-short-dpl")   # packets evicting each other from a 1-2 entry DPL bounce until RHL runs out
        if lossy:
            return
        dplmin = min(s.mib.itsGnDPLLength for s in sim.stations if s.role == "stack")
        for (typ, mid, sn), cnt in sorted(self.tx_per_packet.items()):
            injections = sum(1 for o in sim.hist.ops if o["op"]["op"] in ("inject", "replay"))
            if cnt > n + 1 and dplmin >= 8 and injections == 0:
                sim.violate(ID, "flood-not-terminating", f"{typ}/{sim.cfg.get('fwd_alg')}",
                            f"{typ} sn={sn} of {mid.hex()} was transmitted {cnt} times by {n} stations")


class Sim(c01.C01Sim):
    def __init__(self, plan):
        super().__init__(plan)
        self.monitors.append(WireMonitor(props=("C06",)))
        self.monitors.append(C06Monitor())


def make_sim(plan):
    return Sim(plan)


def execute(plan: dict) -> dict:
    sim = Sim(plan)
    sim.run()
    tr = []
    for x in sim.hist.rx:
        if x.get("dpl"):
            tr.append((x["st"], x.get("ptype"), x["dpl"]))
    for t in sim.hist.tx:
        if not t["injected"]:
            tr.append((t["st"], t.get("ptype", "?"), "tx"))
    nontrivial = any(x.get("dpl") in ("dup", "fresh") for x in sim.hist.rx)
    return finish(sim, tr, nontrivial=nontrivial)
