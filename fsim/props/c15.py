"""C15 - the GeoNetworking router is safe under concurrent origination, reception and timers (engine `sched`).

One real Router (+ LocationTable, + BTP router on the request path) is driven by 2-4 actor threads and by its own
CBF / LS timers under the pre-emptive scheduler (fsim/sched.py): every bytecode instruction of geonet/router.py and
geonet/location_table.py is a potential pre-emption point.  The oracle works on the recorded history only
(frames handed to the link layer, invoke/return of every operation, timer creation / start / cancel) and is
written from the property statement; packets are crafted and parsed with the independent reference codec.
"""
from __future__ import annotations

import hashlib
import random

from .. import refcodec as rc
from .. import netplan as npl
from .. import sched as S
from ..kernel import HarnessError
from ..patching import Patches, RandomFacade
from ..netsim import iso_time, _ENUMS

ID = "C15"
ENGINE = "sched"
RUNS = {"quick": 30000, "thorough": 450000}
DOUBLE = {"quick": 64, "thorough": 600}
STEP_CAP = 200_000
RULE_TEXT = ("one run = one seeded plan (router MIB, 0-4 sequential set-up operations, 2-4 actor threads x 1-3 operations: originate "
             "GBC / GUC to a known or unknown destination / SHB through BTP, deliver reference-encoded frames (GBC inside the area with "
             "RHL>=2, its exact duplicate, LS reply, LS request for the router, SHB, TSB, GUC to forward), position reports) executed "
             "by real threads under a seeded pre-emptive scheduler (uniform random switches p in {0.5,2,10}%, PCT with 1-3 priority "
             "change points, one forced pre-emption followed by run-to-completion, switches at lock boundaries only, or race-directed: coins "
             "right after stores to the shared router / location-table state); every armed CBF / LS timer is one more thread "
             "that may start at any later point; non-trivial = at least one pre-emption or lock contention happened; distinct = "
             "distinct hashes of (operation kinds, context-switch sequence)")
COMPONENTS = {"real": ["geonet.Router (request, indicate, CBF, LS, sequence numbers, ego PV)", "geonet.LocationTable + entries",
                       "btp.Router.btp_data_request", "all GN header classes"],
              "stub": ["scheduler (sys.monitoring INSTRUCTION events on router.py / location_table.py code objects, baton passing)",
                       "SimLock/SimRLock for router.Lock, location_table.Lock/RLock", "SimTimer threads for router.Timer",
                       "virtual clock (TimeService.time)", "recording link layer"]}
ASSUMPTIONS = ["pre-emption granularity is one bytecode instruction of router.py / location_table.py; C code inside one instruction is atomic (as under the GIL)",
               "timer intervals are ignored: an armed timer may fire at any later scheduling point",
               "cbf-sent-after-cancel is judged only when the packet was buffered before the cancelling reception began and the timer "
               "callback started after that reception returned (a duplicate processed before the packet is buffered is counted as a probe)",
               "a buffered GUC that is never sent is explained by any location-service give-up that ended after the request began (also when a "
               "reply was processed in between and a concurrent request had opened a new lookup: counted as a probe), unless a later request "
               "for the same destination was flushed by a reply while the earlier one vanished",
               "LS retransmissions that continue after the reply (timer callback already running when the reply is processed) do not contradict the statement; they are counted as a probe",
               "position-vector fields are attributed to position reports with a tolerance of one unit; a field that matches no report is a probe when "
               "it is within two units (2 s for the timestamp) of some report, and the verdict pv-never-ego beyond that",
               "a CBF timer on which cancel() was called must not transmit afterwards, unless the same packet was buffered again in between "
               "(the old callback then sends on behalf of the new entry; counted as a probe)"]
EXPECTED_PROBES = ["two-threads-in-get-sequence-number", "cbf-buffered", "cbf-expiry-raced-cancel", "cbf-cancelled-before-expiry",
                   "cbf-expired-and-sent", "ls-reply-raced-retransmit", "ls-giveup", "ls-flushed-after-reply", "gnss-raced-origination",
                   "lock-contended", "preemption-inside-lock-free-region", "timer-started-while-actors-running",
                   "strategy:random", "strategy:pct", "strategy:one", "strategy:sync-only", "strategy:store",
                   "preemption-after-shared-store", "cbf-cancelled-timer-checked"]

T0_US = 1_767_225_600_000_000
# attributes whose stores are pre-emption targets of the "store" schedules (router / location table state of the property anchors)
SHARED_ATTRS = ("ego_position_vector", "sequence_number", "_cbf_buffer", "_ls_timers", "_ls_retransmit_counters", "_ls_packet_buffers",
                "ls_pending", "loc_t", "position_vector", "is_neighbour")


# ------------------------------------------------------------------------------------------ plan generation
def _addr_hex(st: int, mac: str) -> str:
    return rc.enc_addr(0, st, bytes.fromhex(mac)).hex()


def gen_plan(run_seed: int, tier: str) -> dict:
    r = random.Random(run_seed ^ 0xC15C15)
    hemi = r.choice(["NE", "NE", "NE", "SW", "SE", "NW"])
    blat, blon = npl.base_point(r, hemi)
    macs = npl.unique_macs(r, 9)
    ego = {"mac": macs[0], "st": r.randint(1, 10), "pos": [blat, blon]}
    peers = []
    for i in range(1, 9):
        lat, lon = rc.offset_position(blat, blon, r.uniform(-400, 400), r.uniform(-400, 400))
        peers.append({"mac": macs[i], "st": r.randint(1, 10), "pos": [lat, lon]})
    alg = "CBF" if r.random() < 0.85 else r.choice(["SIMPLE", "UNSPECIFIED"])
    mib = {"itsGnAreaForwardingAlgorithm": alg, "itsGnBeaconServiceRetransmitTimer": 0,
           "itsGnLocationServiceRetransmitTimer": r.choice([100, 1000]), "itsGnLocationServiceMaxRetrans": r.choice([0, 0, 1, 1, 2]),
           "itsGnDPLLength": r.choice([8, 8, 8, 1]), "itsGnDefaultHopLimit": r.choice([2, 10])}
    mib["itsGnCbfMinTime"], mib["itsGnCbfMaxTime"] = r.choice([(1, 100), (10, 50)])
    cfg = {"t0_us": T0_US + r.randrange(0, 86_400) * 1_000_000, "ego": ego, "mib": mib,
           "sn0": r.choice([0, 0, 65530, 65533, r.randrange(65535)]), "focus": None}
    t0_s = cfg["t0_us"] // 1_000_000
    tag = [0]
    nsn = {}
    n_tpv = [0]

    def payload():
        tag[0] += 1
        return (0xC1500000 + tag[0]).to_bytes(4, "big").hex() + "%08x" % r.getrandbits(32)

    def tpv():
        n_tpv[0] += 1
        i = n_tpv[0]
        return {"lat": blat + 1500 * i + r.randint(0, 200), "lon": blon + 1700 * i + r.randint(0, 200),
                "speed_cms": 100 + 275 * i + r.randint(0, 50) * 2, "h_ddeg": 50 + 310 * i + r.randint(0, 60),
                "unix_s": t0_s - 40 + 3 * i}

    def so_of(p):
        return {"addr": _addr_hex(p["st"], p["mac"]), "tst_off_ms": -r.randint(0, 1500), "lat": p["pos"][0], "lon": p["pos"][1],
                "pai": 1, "speed": r.randint(0, 3000), "heading": r.randint(0, 3599)}

    def next_sn(pi):
        nsn[pi] = nsn.get(pi, r.choice([1, 100, 65534])) + 1
        return nsn[pi] % 65536

    def btp_body():
        return (rc.enc_btp(2001, 0) + bytes.fromhex(payload())).hex()

    def pkt_gbc(pi):
        return {"basic": {"nh": 1, "lt": 26, "rhl": r.choice([2, 3, 10])},
                "common": {"nh": 2, "ht": 4, "hst": 0, "tc": 2, "flags": 0, "mhl": 10}, "so": so_of(peers[pi]), "sn": next_sn(pi),
                "area": {"lat": blat, "lon": blon, "a": 1000, "b": 1000, "angle": 0}, "payload": btp_body()}

    def pkt_lsrep(pi):
        return {"basic": {"nh": 1, "lt": 26, "rhl": 10}, "common": {"nh": 0, "ht": 6, "hst": 1, "tc": 0, "flags": 0, "mhl": 10},
                "so": so_of(peers[pi]), "sn": next_sn(pi),
                "de": {"addr": _addr_hex(ego["st"], ego["mac"]), "tst_off_ms": -100, "lat": blat, "lon": blon}, "payload": ""}

    def pkt_lsreq(pi):
        return {"basic": {"nh": 1, "lt": 26, "rhl": 10}, "common": {"nh": 0, "ht": 6, "hst": 0, "tc": 0, "flags": 0, "mhl": 10},
                "so": so_of(peers[pi]), "sn": next_sn(pi), "req_addr": _addr_hex(ego["st"], ego["mac"]), "payload": ""}

    def pkt_shb(pi):
        return {"basic": {"nh": 1, "lt": 26, "rhl": 1}, "common": {"nh": 2, "ht": 5, "hst": 0, "tc": 2, "flags": 0, "mhl": 1},
                "so": so_of(peers[pi]), "payload": btp_body()}

    def pkt_tsb(pi):
        return {"basic": {"nh": 1, "lt": 26, "rhl": r.choice([1, 3])}, "common": {"nh": 2, "ht": 5, "hst": 1, "tc": 2, "flags": 0, "mhl": 10},
                "so": so_of(peers[pi]), "sn": next_sn(pi), "payload": btp_body()}

    def pkt_guc_fwd(pi, pj):
        q = peers[pj]
        return {"basic": {"nh": 1, "lt": 26, "rhl": 5}, "common": {"nh": 2, "ht": 2, "hst": 0, "tc": 2, "flags": 0, "mhl": 10},
                "so": so_of(peers[pi]), "sn": next_sn(pi),
                "de": {"addr": _addr_hex(q["st"], q["mac"]), "tst_off_ms": -500, "lat": q["pos"][0], "lon": q["pos"][1]},
                "payload": btp_body()}

    def req(typ, dest=None):
        op = {"k": "req", "type": typ, "btp": r.choice("ab"), "dport": 2001, "sport": 7, "dpinfo": 0, "payload": payload(),
              "tc": 2, "hl": r.choice([1, 5]), "lt": None}
        if typ == "gbc":
            op["area"] = {"shape": 0, "lat": blat, "lon": blon, "a": r.choice([300, 800]), "b": 300, "angle": 0}
        if typ == "guc":
            op["dest"] = {"mac": peers[dest]["mac"], "st": peers[dest]["st"]}
            op["dest_i"] = dest
        return op

    def rx(what, pkt, **kw):
        op = {"k": "rx", "what": what, "pkt": pkt}
        op.update(kw)
        return op

    # peers: 0,1 GBC sources; 2 known destination (neighbour); 3,4 unknown destinations; 5 requester; 6,7 others
    KNOWN, U1, U2 = 2, 3, 4
    focus = r.choice(["mix", "mix", "sn", "cbf", "cbf", "ls", "ls", "ls", "pv"])
    cfg["focus"] = focus
    pre = []
    if r.random() < 0.8:
        pre.append(rx("shb", pkt_shb(KNOWN)))
    gbc_pool = []          # packets that may be delivered more than once

    def gbc_new(pi=None):
        p = pkt_gbc(r.choice([0, 1]) if pi is None else pi)
        gbc_pool.append(p)
        return p

    if focus in ("cbf", "mix") and r.random() < 0.6:
        pre.append(rx("gbc", gbc_new()))
    if focus in ("ls", "mix") and r.random() < 0.6:
        pre.append(req("guc", U1))
    if focus == "ls" and r.random() < 0.3:
        pre.append(req("guc", U1))
    if r.random() < 0.3:
        pre.append({"k": "gnss", "tpv": tpv()})

    def draw(th):
        c = r.random()
        if focus == "sn":
            if c < 0.35:
                return req("gbc")
            if c < 0.55:
                return req("guc", KNOWN)
            if c < 0.75:
                return req("guc", r.choice([U1, U2]))
            if c < 0.9:
                return rx("lsreq", pkt_lsreq(r.choice([5, 6])))
            return req("shb")
        if focus == "cbf":
            if c < 0.45 and gbc_pool:
                return rx("gbc", r.choice(gbc_pool))
            if c < 0.75:
                return rx("gbc", gbc_new())
            if c < 0.85:
                return {"k": "gnss", "tpv": tpv()}
            if c < 0.95:
                return req("gbc")
            return rx("tsb", pkt_tsb(6))
        if focus == "ls":
            if c < 0.3:
                return req("guc", U1)
            if c < 0.6:
                return rx("lsrep", pkt_lsrep(U1))
            if c < 0.7:
                return req("guc", U2)
            if c < 0.8:
                return rx("lsrep", pkt_lsrep(U2))
            if c < 0.9:
                return req("guc", KNOWN)
            return rx("shb", pkt_shb(U1))
        if focus == "pv":
            if c < 0.4:
                return {"k": "gnss", "tpv": tpv()}
            if c < 0.6:
                return req("gbc")
            if c < 0.75:
                return req("shb")
            if c < 0.85:
                return req("guc", KNOWN)
            if c < 0.93:
                return rx("lsreq", pkt_lsreq(5))
            return req("guc", U1)
        # mix
        if c < 0.14:
            return req("gbc")
        if c < 0.22:
            return req("guc", KNOWN)
        if c < 0.32:
            return req("guc", r.choice([U1, U2]))
        if c < 0.38:
            return req("shb")
        if c < 0.50:
            return rx("gbc", gbc_new())
        if c < 0.62 and gbc_pool:
            return rx("gbc", r.choice(gbc_pool))
        if c < 0.72:
            return rx("lsrep", pkt_lsrep(r.choice([U1, U2])))
        if c < 0.78:
            return rx("lsreq", pkt_lsreq(5))
        if c < 0.84:
            return rx("shb", pkt_shb(r.choice([6, 7])))
        if c < 0.88:
            return rx("tsb", pkt_tsb(7))
        if c < 0.92:
            return rx("gucfwd", pkt_guc_fwd(6, KNOWN))
        return {"k": "gnss", "tpv": tpv()}

    nth = r.choice([2, 2, 2, 3, 3, 4])
    ops = []
    small = r.random() < 0.35            # many tiny plans: pairwise races, few lock events, cheap runs
    for th in range(nth):
        for _ in range(1 if small else r.choice([1, 1, 2, 2, 3])):
            op = draw(th)
            op = dict(op)
            op["th"] = th
            ops.append(op)
    # minimal pair patterns (own PRNG stream): two or three operations racing on one piece of state, so that the seeded schedules
    # concentrate on the few hundred instructions where the race can happen
    r2 = random.Random(run_seed ^ 0x15BA1B)
    if r2.random() < 0.12:
        pat = r2.choice(["ls-req-vs-reply", "ls-req-vs-reply", "ls-two-reqs-vs-reply", "ls-reply-vs-reply", "ls-req-vs-shb"])
        pre = [rx("shb", pkt_shb(KNOWN))] if r2.random() < 0.5 else []
        pre.append(req("guc", U1))                               # lookup for U1 pending, one request buffered
        if pat == "ls-req-vs-reply":
            ops = [dict(req("guc", U1), th=0), dict(rx("lsrep", pkt_lsrep(U1)), th=1)]
        elif pat == "ls-two-reqs-vs-reply":
            ops = [dict(req("guc", U1), th=0), dict(req("guc", U1), th=0), dict(rx("lsrep", pkt_lsrep(U1)), th=1)]
        elif pat == "ls-reply-vs-reply":
            ops = [dict(rx("lsrep", pkt_lsrep(U1)), th=0), dict(rx("lsrep", pkt_lsrep(U1)), th=1), dict(req("guc", U1), th=2)]
        else:
            ops = [dict(req("guc", U1), th=0), dict(rx("shb", pkt_shb(U1)), th=1)]
        if r2.random() < 0.3:
            ops.append(dict(req("guc", U1), th=max(o["th"] for o in ops) + 1))
        if r2.random() < 0.7:
            # the destination answers once more afterwards (same thread as a reply, or a thread of its own): whatever is still waiting
            # for a lookup then leaves the buffer, so a request that was silently lost cannot hide behind a later give-up
            rth = [o["th"] for o in ops if o["k"] == "rx" and o.get("what") == "lsrep"]
            ops.append(dict(rx("lsrep", pkt_lsrep(U1)), th=rth[-1] if rth else max(o["th"] for o in ops) + 1))
        cfg["focus"] = "pair:" + pat
        if r2.random() < 0.5:
            cfg["pair_phases"] = [r2.randint(1, 14), r2.randint(1, 22)] + ([r2.randint(1, 12)] if r2.random() < 0.3 else [])
            if r2.random() < 0.5:
                # hand-offs counted only at releases of the LS lock: "k-th critical section of one thread, then k-th of the other"
                cfg["pair_phases"] = [r2.randint(1, 3), r2.randint(1, 3)] + ([r2.randint(1, 2)] if r2.random() < 0.3 else [])
                cfg["pair_focus"] = "_ls_lock"
    sched = S.sync_only_variant(run_seed, S.draw_strategy(r), focus_names=("_ls_lock", "_cbf_lock", "sequence_number_lock", "ego_position_vector_lock", "loc_t_lock"))
    if cfg.get("pair_phases"):
        sched = dict(sched, strategy="random", p=0.0, sync_p=0.0, sync_only=True, phases=cfg["pair_phases"], timer_hold=100_000)
        sched.pop("d", None)
        sched.pop("at", None)
        sched.pop("focus_lock", None)
        if cfg.get("pair_focus"):
            sched["focus_lock"] = cfg["pair_focus"]
    # race-directed share (own PRNG stream): coins right after writes to the shared state named in the property anchors
    sched = S.store_variant(run_seed, sched, names=SHARED_ATTRS)
    return {"engine": ENGINE, "property": ID, "config": cfg, "pre": pre, "ops": ops, "sched": sched, "sched_seed": r.getrandbits(32)}


# ------------------------------------------------------------------------------------------ execution
def _resolve_pkt(pkt: dict, now_ms: int) -> dict:
    def pv(d):
        o = dict(d)
        o["addr"] = bytes.fromhex(d["addr"])
        if "tst" not in o:
            o["tst"] = rc.tst_from_unix_ms(now_ms + d.get("tst_off_ms", 0))
        return o
    p = {"basic": dict(pkt["basic"]), "common": dict(pkt["common"]), "so": pv(pkt["so"])}
    if "sn" in pkt:
        p["sn"] = pkt["sn"]
    if "de" in pkt:
        p["de"] = pv(pkt["de"])
    if "area" in pkt:
        p["area"] = dict(pkt["area"])
    if "req_addr" in pkt:
        p["req_addr"] = bytes.fromhex(pkt["req_addr"])
    p["payload"] = bytes.fromhex(pkt.get("payload", ""))
    return p


def op_kind(op: dict) -> str:
    if op["k"] == "req":
        if op["type"] == "guc":
            return "req-guc"
        return "req-" + op["type"]
    if op["k"] == "rx":
        return "rx-" + op["what"]
    return op["k"]


class _Dummy:
    stations: list = []


class _Run:
    def __init__(self, plan: dict, sched_cfg: dict, n_est, n_sync=None):
        self.plan = plan
        self.cfg = plan["config"]
        import flexstack.geonet.router as gr
        import flexstack.geonet.location_table as lt
        self.gr, self.lt = gr, lt
        self.sc = S.Scheduler([gr, lt], sched_cfg, plan.get("sched_seed", 0), step_cap=STEP_CAP, n_est=n_est, t0_us=self.cfg["t0_us"],
                              n_sync_est=n_sync)
        self.ops = []                       # [(label, op)] label = "pre0".. / int index into plan["ops"]
        self.frames: dict = {}
        self.op_exc: dict = {}
        self.harness_exc = None
        self.violations: list = []
        self.probes: dict = {}
        self.gn = None
        self.btp = None

    def probe(self, name, n=1):
        self.probes[name] = self.probes.get(name, 0) + n

    def violate(self, rule, key, detail):
        if any(v["rule"] == rule and v["key"] == key for v in self.violations):
            return
        self.violations.append({"property": ID, "rule": rule, "key": key, "detail": detail})

    # ---------------------------------------------------------------- building
    def build(self):
        from flexstack.geonet.mib import MIB
        from flexstack.geonet.gn_address import GNAddress, M, ST, MID
        from flexstack.btp.router import Router as BTPRouter
        from flexstack.linklayer.link_layer import LinkLayer
        ego = self.cfg["ego"]
        kw = {"itsGnLocalGnAddr": GNAddress(m=M(0), st=ST(ego["st"]), mid=MID(bytes.fromhex(ego["mac"])))}
        for k, v in self.cfg["mib"].items():
            if k in _ENUMS:
                v = _ENUMS[k][v] if isinstance(v, str) else _ENUMS[k](v)
            kw[k] = v
        self.mib = MIB(**kw)
        self.gn = self.gr.Router(self.mib)
        run = self

        class RecLink(LinkLayer):
            def __init__(self):
                super().__init__(lambda b: None)

            def send(self, packet: bytes) -> None:
                run.sc.note("tx", bytes(packet))
        self.gn.link_layer = RecLink()
        self.btp = BTPRouter(self.gn)
        self.gn.register_indication_callback(lambda ind: run.sc.note("ind", bytes(ind.data)))
        self.btp.freeze_callbacks()
        self.gn.sequence_number = self.cfg["sn0"]
        for owner, pre in ((self.gn, "router."), (self.gn.location_table, "location_table.")):
            for name, val in vars(owner).items():
                if isinstance(val, S.SimLock):
                    val.name = pre + name
        p = ego["pos"]
        self.tpvs = [{"lat": p[0], "lon": p[1], "speed_cms": 25, "h_ddeg": 5, "unix_s": self.cfg["t0_us"] // 1_000_000 - 45}]
        self.gn.refresh_ego_position_vector(self._tpv_dict(self.tpvs[0]))

    @staticmethod
    def _tpv_dict(t):
        return {"class": "TPV", "lat": t["lat"] / 1e7, "lon": t["lon"] / 1e7, "speed": t["speed_cms"] / 100.0,
                "track": t["h_ddeg"] / 10.0, "time": iso_time(t["unix_s"] * 1_000_000)}

    # ---------------------------------------------------------------- operations
    def do_op(self, label, op):
        k = op["k"]
        if k == "req":
            from ..netsim import NetSim
            reqobj = NetSim.make_btp_request(_Dummy, None, op)
            self.btp.btp_data_request(reqobj)
        elif k == "rx":
            self.gn.gn_data_indicate(self.frames[label])
        elif k == "gnss":
            self.gn.refresh_ego_position_vector(self._tpv_dict(op["tpv"]))
        else:
            raise HarnessError("unknown op " + k)

    def run_op(self, label, op):
        sc = self.sc
        cur = sc.current()
        if cur is not None:
            cur.tag = label
        else:
            sc.main_tag = label
        sc.note("inv", label)
        try:
            self.do_op(label, op)
        except S.SchedAbort:
            raise
        except HarnessError as e:
            if self.harness_exc is None:
                self.harness_exc = e
            raise
        except Exception as e:          # noqa: BLE001 - code under test raised: judged by the oracle
            self.op_exc[label] = e
            sc.note("exc", label, type(e).__name__)
        sc.note("ret", label)

    def actor(self, items):
        for label, op in items:
            self.run_op(label, op)

    def go(self):
        from flexstack.utils import time_service
        gr, lt, sc = self.gr, self.lt, self.sc
        plan = self.plan
        with Patches() as p:
            p.mute_stdout()
            p.set(time_service.TimeService, "time", staticmethod(sc.time))
            p.set(gr, "Lock", sc.Lock)
            p.set(gr, "Timer", sc.Timer)
            p.set(gr, "Thread", S.InertThread)
            p.set(gr, "Event", S.FlagEvent)
            p.set(gr, "random", RandomFacade(plan.get("sched_seed", 0) ^ 0x5EED))
            p.set(lt, "Lock", sc.Lock)
            p.set(lt, "RLock", sc.RLock)
            self.build()
            now_ms = self.cfg["t0_us"] // 1000
            for i, op in enumerate(plan.get("pre", [])):
                self.ops.append((f"pre{i}", op))
            threads: dict = {}
            for i, op in enumerate(plan["ops"]):
                self.ops.append((i, op))
                threads.setdefault(op.get("th", 0), []).append((i, op))
            for label, op in self.ops:
                if op["k"] == "rx":
                    self.frames[label] = rc.build_packet(_resolve_pkt(op["pkt"], now_ms))
                if op["k"] == "gnss":
                    self.tpvs.append(op["tpv"])
            for label, op in self.ops:
                if isinstance(label, str):
                    self.run_op(label, op)
            sc.main_tag = None
            for th in sorted(threads):
                sc.spawn(f"actor{th}", self.actor, threads[th])
            sc.run()
        if self.harness_exc is not None:
            raise self.harness_exc

    # ---------------------------------------------------------------- oracle
    def judge(self):
        sc = self.sc
        ego_mac = bytes.fromhex(self.cfg["ego"]["mac"])
        opmap = dict(self.ops)
        kind_of = {label: op_kind(op) for label, op in self.ops}
        inv, ret = {}, {}
        txs = []
        cur_op: dict = {}                  # thread idx -> label of the op in progress
        for (seq, step, th, kind, data) in sc.log:
            if kind == "inv":
                inv[data[0]] = seq
                cur_op[th] = data[0]
            elif kind == "ret":
                ret[data[0]] = seq
                cur_op.pop(th, None)
            elif kind == "tx":
                frame = data[0]
                try:
                    parsed = rc.parse_packet(frame)
                except rc.Malformed:
                    parsed = None
                txs.append({"seq": seq, "step": step, "th": th, "frame": frame, "p": parsed, "op": cur_op.get(th)})
        quiescent = not sc.cap_hit and sc.deadlock is None

        def origin(tx) -> str:
            if tx["op"] is not None:
                return kind_of.get(tx["op"], "?")
            if tx["th"] >= 0:
                t = sc.threads[tx["th"]]
                if t.kind == "timer":
                    return "timer:" + t.name.split(":", 1)[1].lstrip("_")
            return "?"

        def concurrent_kinds(a_seq, b_seq) -> list:
            out = set()
            for label in inv:
                if isinstance(label, str):
                    continue
                if inv[label] < b_seq and ret.get(label, 1 << 60) > a_seq:
                    out.add(kind_of[label])
            return sorted(out)

        # ---- thread failures, deadlock, step cap
        for label, e in sorted(self.op_exc.items(), key=lambda x: str(x[0])):
            self.violate("thread-raised", f"{type(e).__name__}:{kind_of[label]}",
                         f"operation {label} ({kind_of[label]}) raised {e!r}; concurrently running: "
                         f"{concurrent_kinds(inv[label], ret.get(label, 1 << 60))}")
        for name, e in sc.errors:
            if isinstance(e, HarnessError):
                raise e
            fn = name.split(":", 1)[1] if ":" in name else name
            self.violate("thread-raised", f"{type(e).__name__}:timer:{fn.lstrip('_')}" if name.startswith("timer") else f"{type(e).__name__}:{name}",
                         f"thread {name} died with {e!r}")
        if sc.deadlock is not None:
            self.violate("deadlock", sc.deadlock_key(), "every live thread is blocked: " + sc.deadlock_text())
        if sc.cap_hit:
            self.violate("step-cap", "cap", f"the run did not finish within {STEP_CAP} traced instructions")

        # ---- sequence numbers of originated multi-hop packets
        own = [t for t in txs if t["p"] is not None and "secured" not in t["p"] and t["p"]["so"]["addr"]["mid"] == ego_mac]
        by_sn: dict = {}
        for t in own:
            if "sn" in t["p"]:
                by_sn.setdefault(t["p"]["sn"], []).append(t)
        for sn, lst in sorted(by_sn.items()):
            if len(lst) > 1:
                kinds = sorted({origin(t) for t in lst}) if len({origin(t) for t in lst}) > 1 else [origin(lst[0])] * 2
                self.violate("duplicate-sn", "‖".join(kinds[:2]),
                             f"sequence number {sn} was given to {len(lst)} originated packets: " +
                             ", ".join(f"{rc.ptype(t['p'])} by {origin(t)} at step {t['step']}" for t in lst))
        if len(by_sn) >= 2:
            self.probe("originated-multihop-packets", sum(len(v) for v in by_sn.values()))

        # ---- position vector of emitted packets
        cands = []
        for t in self.tpvs:
            cands.append({"tst": rc.tst_from_unix_ms(t["unix_s"] * 1000), "lat": t["lat"], "lon": t["lon"],
                          "speed": t["speed_cms"], "heading": t["h_ddeg"]})
        tol = {"tst": 1000, "lat": 1, "lon": 1, "speed": 1, "heading": 1}
        gnss_ops = [label for label, op in self.ops if op["k"] == "gnss" and not isinstance(label, str)]
        for t in own:
            so = t["p"]["so"]
            match = {}
            for f in ("tst", "lat", "lon", "speed", "heading"):
                if f == "tst":
                    match[f] = {i for i, c in enumerate(cands) if min((so[f] - c[f]) % (1 << 32), (c[f] - so[f]) % (1 << 32)) < tol[f]}
                else:
                    match[f] = {i for i, c in enumerate(cands) if abs(so[f] - c[f]) <= tol[f]}
            if any(not m for m in match.values()):
                # a field that is the value of no position report.  Within two units (2 s for the timestamp) of some report it may be
                # rounding of the conversion (probe); further away the packet carries a position vector that never was the ego position
                def dev(f, c):
                    if f == "tst":
                        return min((so[f] - c[f]) % (1 << 32), (c[f] - so[f]) % (1 << 32)) / 1000.0
                    d = abs(so[f] - c[f])
                    return min(d % 3600, -d % 3600) if f == "heading" else d
                far = {f: min(dev(f, c) for c in cands) for f, m in match.items() if not m}
                far = {f: d for f, d in far.items() if d > 2}
                if far:
                    self.violate("pv-never-ego", origin(t),
                                 f"{rc.ptype(t['p'])} emitted by {origin(t)} at step {t['step']} carries a source position vector that was "
                                 f"never the ego position: " + ", ".join(f"{f}={so[f]} (nearest report off by {d:g}{' s' if f == 'tst' else ''})"
                                                                         for f, d in sorted(far.items())) +
                                 f"; the {len(cands)} position reports of the run: " +
                                 ", ".join(f"#{i}(lat={c['lat']},lon={c['lon']},speed={c['speed']},heading={c['heading']})" for i, c in enumerate(cands))[:400])
                else:
                    self.probe("pv-field-unmatched")
                continue
            common = set.intersection(*match.values())
            if not common:
                self.violate("pv-torn", "gnss‖" + origin(t),
                             f"{rc.ptype(t['p'])} emitted by {origin(t)} at step {t['step']} carries a source position vector mixing "
                             f"position reports: " + ", ".join(f"{f}=report#{sorted(m)[0]}" for f, m in match.items()))
            else:
                self.probe("pv-checked")
            if any(g in inv and inv[g] < t["seq"] and ret.get(g, 1 << 60) > (inv.get(t["op"], t["seq"]) if t["op"] is not None else t["seq"]) for g in gnss_ops):
                self.probe("gnss-raced-origination")

        # ---- contention-based forwarding
        alg = self.cfg["mib"]["itsGnAreaForwardingAlgorithm"]
        cbf_timers = [tm for tm in sc.timers if getattr(tm.function, "__name__", "") == "_cbf_timeout"]
        sn_per_src: dict = {}
        for label, op in self.ops:
            if op["k"] == "rx" and "sn" in op["pkt"]:
                sn_per_src.setdefault(op["pkt"]["so"]["addr"], set()).add(op["pkt"]["sn"])
        dpl = self.cfg["mib"].get("itsGnDPLLength", 8)
        infos = []
        for tm in cbf_timers:
            try:
                fp = rc.parse_packet(bytes(tm.args[1]))
                key = (fp["so"]["addr"]["mid"], fp["sn"])
            except Exception:              # noqa: BLE001
                continue
            th = tm.thread
            sent = [t for t in txs if th is not None and t["th"] == th.idx]
            infos.append({"tm": tm, "key": key, "sent": sent, "th": th, "created": tm.created_seq,
                          "start": th.start_seq if th is not None else None, "end": th.end_seq if th is not None else None})
            self.probe("cbf-buffered")
            if sent:
                self.probe("cbf-expired-and-sent")
            if tm.cancelled and (th is None or th.start_seq is None):
                self.probe("cbf-cancelled-before-expiry")
            if len(sent) > 1:
                self.violate("cbf-sent-twice", "cbf-timer", f"one CBF timer transmitted {len(sent)} frames for sn={key[1]}")
        # a CBF timer on which cancel() was called never transmits afterwards: whoever cancels it has taken it out of the buffer under
        # the buffer lock first, so its expiry callback - even one that has already begun - must find the packet gone.  (Excused when the
        # same packet was buffered again in between: the old callback may then send on behalf of the new entry, still once.)
        for a in infos:
            tm = a["tm"]
            if tm.cancel_seq is None:
                continue
            self.probe("cbf-cancelled-timer-checked")
            late = [t for t in a["sent"] if t["seq"] > tm.cancel_seq]
            if not late:
                continue
            if any(b is not a and b["key"] == a["key"] and a["created"] < b["created"] < late[0]["seq"] for b in infos):
                self.probe("cbf-cancelled-timer-sent-for-rebuffered-packet")
                continue
            self.violate("cbf-sent-after-cancel", "cancelled-timer‖timer:cbf_timeout",
                         f"the CBF timer of GBC sn={a['key'][1]} of {a['key'][0].hex()} (created at log position {a['created']}) was taken out of "
                         f"the buffer and cancelled at position {tm.cancel_seq} (its callback had started at {a['start']}); it still "
                         f"transmitted the packet at position {late[0]['seq']}")
        for i, a in enumerate(infos):
            for b in infos[i + 1:]:
                if a["key"] == b["key"] and a["sent"] and b["sent"] and a["start"] is not None and b["start"] is not None \
                        and a["created"] < b["start"] and b["created"] < a["start"]:
                    self.violate("cbf-sent-twice", "rx-gbc‖rx-gbc",
                                 f"the GBC sn={a['key'][1]} of {a['key'][0].hex()} was buffered twice at the same time (timers created at "
                                 f"log positions {a['created']} and {b['created']}) and both copies were transmitted")
        rx_gbc = [(label, op) for label, op in self.ops if op["k"] == "rx" and op["what"] == "gbc"]
        for a in infos:
            tm = a["tm"]
            creator = tm.creator_tag
            if creator is None or creator not in self.frames:
                continue
            cframe = self.frames[creator]
            src_addr = opmap[creator]["pkt"]["so"]["addr"]
            for label, op in rx_gbc:
                if label == creator or self.frames[label] != cframe or label not in ret or label in self.op_exc:
                    continue
                if a["start"] is not None and a["start"] < ret[label] and (a["end"] or 1 << 60) > inv[label]:
                    self.probe("cbf-expiry-raced-cancel")
                if not a["sent"] or a["start"] is None:
                    continue
                if a["created"] < inv[label] and a["start"] > ret[label]:
                    if len(sn_per_src.get(src_addr, ())) > dpl:
                        self.probe("cbf-verdict-skipped-short-dpl")
                        continue
                    self.violate("cbf-sent-after-cancel", "rx-gbc-dup‖timer:cbf_timeout",
                                 f"GBC sn={a['key'][1]} of {a['key'][0].hex()} was buffered (log position {a['created']}) before its exact "
                                 f"duplicate was received (operation {label}: log positions {inv[label]}..{ret[label]}); the CBF timer "
                                 f"callback started afterwards (position {a['start']}) and still transmitted the packet")
                elif ret[label] < a["created"]:
                    self.probe("cbf-sent-though-duplicate-processed-before-buffering")
                else:
                    self.probe("cbf-sent-duplicate-overlapped-buffering-or-expiry")

        # ---- location service
        ls_timers = [tm for tm in sc.timers if getattr(tm.function, "__name__", "") == "_ls_retransmit"]

        def mid_of(gn_addr) -> bytes:
            return bytes(gn_addr.mid.mid)
        giveups: dict = {}
        ls_runs: dict = {}
        for tm in ls_timers:
            th = tm.thread
            if th is None or th.start_seq is None or th.end_seq is None:
                continue
            d = mid_of(tm.args[0])
            sent = [t for t in txs if t["th"] == th.idx]
            ls_runs.setdefault(d, []).append((th.start_seq, th.end_seq))
            if not sent and th.error is None:
                giveups.setdefault(d, []).append((th.start_seq, th.end_seq))
                self.probe("ls-giveup")
            if any(rt.start_seq is not None for rt in sc.threads if rt.kind == "actor" and rt.end_seq is not None and rt.end_seq > th.start_seq):
                self.probe("timer-started-while-actors-running")
        replies: dict = {}
        for label, op in self.ops:
            if op["k"] == "rx" and op["what"] == "lsrep" and label in ret and label not in self.op_exc:
                d = bytes.fromhex(op["pkt"]["so"]["addr"])[2:]
                replies.setdefault(d, []).append((inv[label], ret[label], label))
                if any(s < ret[label] and e > inv[label] for (s, e) in ls_runs.get(d, [])):
                    self.probe("ls-reply-raced-retransmit")
        guc_tx = [t for t in txs if t["p"] is not None and "secured" not in t["p"] and rc.ptype(t["p"]) == "GUC"]
        for label, op in self.ops:
            if op["k"] != "req" or op["type"] != "guc" or label not in ret or label in self.op_exc:
                continue
            body = bytes.fromhex(op["payload"])
            mine = [t for t in guc_tx if t["p"]["so"]["addr"]["mid"] == ego_mac and body in t["p"]["payload"]]
            direct = [t for t in mine if t["op"] == label]
            d = bytes.fromhex(op["dest"]["mac"])
            if direct and len(mine) == 1:
                continue                    # destination known: sent within the call
            buffered = not direct
            if len(mine) > 1:
                self.violate("ls-request-sent-twice", "req-guc‖" + "‖".join(sorted({origin(t) for t in mine if t["op"] != label}) or ["req-guc"]),
                             f"the GeoUnicast request {label} was transmitted {len(mine)} times: " +
                             ", ".join(f"by {origin(t)} at step {t['step']}" for t in mine))
                continue
            if not buffered:
                continue
            self.probe("guc-buffered-for-ls")
            if len(mine) == 1:
                self.probe("ls-flushed-after-reply")
                continue
            if not quiescent:
                continue
            later_giveups = [(us, ue) for (us, ue) in giveups.get(d, []) if ue > inv[label]]
            rs = [(ri, rr) for (ri, rr, _) in replies.get(d, [])]
            if not later_giveups:
                self.violate("ls-request-lost", "req-guc‖timer:ls_retransmit/lookup-orphaned",
                             f"the GeoUnicast request {label} (log positions {inv[label]}..{ret[label]}) was buffered for the location service and "
                             f"never transmitted: the lookup was neither answered nor ever given up (no retransmit timer left); LS replies "
                             f"processed at {rs}, give-ups at {giveups.get(d, [])}")
                continue
            if any(ri > ret[label] and rr < us for (ri, rr) in rs for (us, ue) in later_giveups):
                # dropped after the final retry of a lookup that a concurrent request started while the reply was being processed:
                # literally "dropped after the final retry"; no sequential order gives it, but the statement does not exclude it
                self.probe("ls-dropped-although-reply-processed")
            # requests buffered for one destination leave the buffer together: a later one flushed by a reply while this one vanished.
            # Only judged when ONE reply for that destination was processed in the run: with two replies the earlier request may have
            # been popped by the first reply and - its flush racing with a lookup that a concurrent request had just opened - buffered
            # again for that later lookup, whose retry ladder then ends in a legitimate give-up ("dropped after the final retry").
            if len(rs) > 1:
                self.probe("ls-rebuffered-across-replies-not-judged")
                continue
            for l2, op2 in self.ops:
                if l2 == label or op2["k"] != "req" or op2["type"] != "guc" or op2["dest"] != op["dest"] or l2 not in ret or inv[l2] < ret[label]:
                    continue
                b2 = bytes.fromhex(op2["payload"])
                flushed = [t for t in guc_tx if t["p"]["so"]["addr"]["mid"] == ego_mac and b2 in t["p"]["payload"] and t["op"] != l2
                           and t["op"] is not None and kind_of.get(t["op"]) == "rx-lsrep"]
                if flushed and not any(inv[label] < ue and us < flushed[0]["seq"] for (us, ue) in giveups.get(d, [])):
                    self.violate("ls-request-lost", "req-guc‖rx-lsrep/later-request-flushed-earlier-vanished",
                                 f"the GeoUnicast request {label} was buffered for the location service (log positions {inv[label]}..{ret[label]}) "
                                 f"before request {l2} for the same destination ({inv[l2]}..{ret[l2]}); the LS reply flushed {l2} (transmitted at "
                                 f"position {flushed[0]['seq']}) but {label} was never transmitted and no give-up happened in between")
        # zombie retransmissions (Appendix A #26): LS requests still sent after the reply although no new lookup began
        for d, rl in replies.items():
            for (ri, rr, rlabel) in rl:
                later_req = [t for t in txs if t["p"] is not None and "secured" not in t["p"] and rc.ptype(t["p"]) == "LSREQ"
                             and t["p"].get("req_addr", b"")[2:] == d and t["seq"] > rr and t["op"] is None]
                new_lookup = any(op["k"] == "req" and op["type"] == "guc" and bytes.fromhex(op["dest"]["mac"]) == d and ret.get(label, 0) > ri
                                 for label, op in self.ops)
                if later_req and not new_lookup:
                    self.probe("ls-retransmit-after-reply")

        # ---- generic probes
        if sc.lock_contended:
            self.probe("lock-contended", sc.lock_contended)
        self.probe("strategy:" + ("sync-only" if sc.cfg.get("sync_only") else sc.cfg.get("strategy", "?")))
        in_sn = set()
        for (st, frm, to, reason, where, _sn) in sc.switch_log:
            if reason == "preempt" and where.rsplit(":", 1)[0].endswith("get_sequence_number"):
                in_sn.add(frm)
        if len(in_sn) >= 2 or (in_sn and sc.lock_contended):
            self.probe("two-threads-in-get-sequence-number")
        if sc.preempt_free:
            self.probe("preemption-inside-lock-free-region", sc.preempt_free)
        if sc.preempt_held:
            self.probe("preemption-while-holding-lock", sc.preempt_held)
        if sc.preempt_sync:
            self.probe("preemption-at-lock-boundary", sc.preempt_sync)
        if getattr(sc, "preempt_store", 0):
            self.probe("preemption-after-shared-store", sc.preempt_store)

    # ---------------------------------------------------------------- result
    def result(self) -> dict:
        sc = self.sc
        h = hashlib.sha256()
        lines = []
        kinds = [op_kind(op) for _, op in self.ops]
        for (seq, step, th, kind, data) in sc.log:
            parts = []
            for d in data:
                if isinstance(d, (bytes, bytearray)):
                    parts.append(hashlib.sha256(bytes(d)).hexdigest()[:12])
                else:
                    parts.append(str(d))
            line = f"{seq}|{step}|{sc.thread_name(th)}|{kind}|" + ",".join(parts)
            h.update(line.encode() + b"\n")
            lines.append(line)
        for st, to in sc.switches:
            h.update(b"%d>%d;" % (st, to))
        for v in self.violations:
            h.update(f"violation|{v['rule']}|{v['key']}\n".encode())
        sig = hashlib.sha256((repr(kinds) + sc.schedule_hash()).encode()).hexdigest()[:16]
        trace = [f"ops: {[(str(l), op_kind(o), o.get('th')) for l, o in self.ops]}",
                 f"strategy: {sc.cfg} n_est={sc.n_est} steps={sc.steps} switches={len(sc.switches)}"]
        trace += sc.describe_switches(120)
        trace += lines[:300]
        return {"violations": self.violations, "probes": self.probes, "faults": {}, "sig": sig,
                "nontrivial": sc.preemptions > 0 or sc.lock_contended > 0, "events": sc.steps, "sim_us": sc.now_us - sc.t0_us,
                "digest": h.hexdigest(), "trace": trace, "schedule": sc.schedule()}


def execute(plan: dict) -> dict:
    cfg = dict(plan["sched"])
    n_est = n_sync = None
    if cfg.get("strategy") in ("pct", "one"):
        dry = _Run(plan, {"strategy": "serial"}, None)
        dry.go()
        n_est, n_sync = max(1, dry.sc.steps), max(1, dry.sc.sync_events)
    run = _Run(plan, cfg, n_est, n_sync)
    run.go()
    run.judge()
    return run.result()


SHRINKERS = [lambda plan: S.shrink_schedule(plan, execute)]
