"""C16 - LDM operations are atomic under concurrent providers, consumers and maintenance (engine `sched`).

One real LDM built by LDMFactory (Dictionary back-end, Reactive or Thread maintenance / service classes) is driven
by 2-4 threads under the pre-emptive scheduler (fsim/sched.py); every bytecode instruction of the LDM modules is a
potential pre-emption point.  Maintenance passes (collect_trash) and attendance passes (attend_subscriptions) are
issued by plan threads (and fire inline inside add_provider_data in the Reactive variants).

Oracle: the invoke/return history of all IF.LDM.3 / IF.LDM.4 calls must be linearizable (Wing-Gong search with
memoisation) against a small sequential reference model written from the statement: registries, a map
id -> object (registration gating, identifiers in increasing order), subscriptions.  Maintenance and attendance
passes are long, non-atomic scans and are therefore judged by interval rules instead (GC may remove any subset of
the expired objects at any instant of a pass; a callback must show objects that can have been present during the
pass; subscriptions are neither lost nor resurrected).
"""
from __future__ import annotations

import copy
import hashlib
import random

from .. import sched as S
from .. import ldmsim as L
from ..kernel import HarnessError
from ..patching import Patches

ID = "C16"
ENGINE = "sched"
RUNS = {"quick": 30000, "thorough": 450000}
DOUBLE = {"quick": 64, "thorough": 600}
STEP_CAP = 200_000
AUDITOR = L.AUDITOR_APP
RULE_TEXT = ("one run = one seeded plan: a real LDM (Dictionary back-end; Reactive or Thread maintenance and service classes), a sequential "
             "set-up (registrations, 2-4 stored objects of which some are already expired, 0-2 subscriptions), then 2-4 threads x 1-4 "
             "IF.LDM.3/IF.LDM.4 calls (register/deregister provider and consumer, add, update, delete, query with/without filter, subscribe, "
             "unsubscribe) and explicit maintenance / attendance passes, <= 16 concurrent operations, unique payload serial numbers; executed "
             "under a seeded pre-emptive scheduler (uniform random switches, PCT, one forced pre-emption; optionally placed on lock "
             "boundaries); afterwards a sequential attendance pass and an audit query; non-trivial = at least one pre-emption or lock "
             "contention happened; distinct = distinct hashes of (operation kinds, context-switch sequence)")
COMPONENTS = {"real": ["LDMFactory", "InterfaceLDM3", "InterfaceLDM4", "LDMService / LDMServiceReactive / LDMServiceThreads",
                       "LDMMaintenance / LDMMaintenanceReactive / LDMMaintenanceThread", "DictionaryDataBase", "ldm_classes request/response types"],
              "stub": ["scheduler (sys.monitoring INSTRUCTION events on the LDM modules, baton passing)",
                       "SimLock/SimRLock for every lock of the LDM modules", "inert Thread/Event for the *_thread(s) service loops "
                       "(passes are issued by plan threads)", "virtual clock (TimeService.time, time.monotonic)",
                       "spies around collect_trash / attend_subscriptions (observe only)"]}
ASSUMPTIONS = ["atomicity is demanded at the granularity 'registration / existence check' then 'effect': the check of a call may be explained at one "
               "instant of the call and its effect at a later instant of the same call (e.g. a query that passed its registration check still "
               "answers after a concurrent deregistration; two concurrent deletes of one object may both report success)",
               "refusal codes are compared by class (accepted / refused), not by value",
               "update and delete perform no registration check in the sequential implementation (open finding of C12); the reference does the same",
               "expired objects may disappear at any instant of any maintenance pass that overlaps or precedes the observation; they may not come back",
               "identifiers must be unique and increase in the order in which the adds take effect",
               "objects are placed away from the LDM's own position but inside its area of maintenance (open finding of C12 about objects at the LDM position)",
               "subscription requests are pairwise different (open finding of C14 about identical requests sharing one id); messages contain no bytes"]
EXPECTED_PROBES = ["gc-pass-overlapped-api-call", "attendance-overlapped-api-call", "update-raced-delete-or-gc", "add-raced-add", "query-raced-mutation",
                   "registry-raced", "subscription-raced", "reactive-gc-inline", "reactive-attendance-inline", "callback-invoked", "expired-object-collected",
                   "lock-contended", "preemption-inside-lock-free-region", "history-linearized", "strategy:random", "strategy:pct", "strategy:one", "strategy:sync-only"]

T0_US = 1_767_225_600_000_000
RECORD_KEYS = ("application_id", "timestamp", "location", "dataObject", "timeValidity")
TPLS = ["cam", "cam", "vam", "denm"]


# ------------------------------------------------------------------------------------------ plan generation
def gen_plan(run_seed: int, tier: str) -> dict:
    r = random.Random(run_seed ^ 0xC16C16)
    lat0, lon0 = 413870000 + r.randrange(-2_000_000, 2_000_000), 21120000 + r.randrange(-2_000_000, 2_000_000)
    cfg = {"t0_us": T0_US + r.randrange(0, 30 * 86_400) * 1_000_000 + r.randrange(0, 1000) * 1000,
           "maintenance": r.choice(["Reactive", "Thread"]), "service": r.choice(["Reactive", "Thread"]),
           "ldm_pos": [lat0, lon0, r.choice([0, 12000])], "relevance": r.choice([3, 4, 4, 5])}
    dist = L.RELEVANCE_M[cfg["relevance"]]
    serial = [r.randrange(0, 300)]
    n_obj = [0]
    n_sub = [0]
    provs = sorted(r.sample(range(1, 21), 3))
    conss = sorted(r.sample(range(1, 21), 3))

    def position():
        import math
        d = r.uniform(0.03 * dist + 6, 0.45 * dist)
        ang = r.uniform(0, 2 * math.pi)
        la, lo = L._offset(lat0, lon0, d * math.cos(ang), d * math.sin(ang))
        return [la, lo, cfg["ldm_pos"][2]]

    def add(app, expired=None, dt=None):
        n_obj[0] += 1
        serial[0] += 1
        if expired is None:
            expired = r.random() < 0.3
        return {"op": "add", "n": n_obj[0], "app": app, "tpl": r.choice(TPLS), "sid": r.choice([1001, 1002, 2001]), "serial": serial[0],
                "loc": position(), "expired": expired, "dt_ms": r.choice([0, 0, 300, 600, 1100]) if dt is None else dt}

    def sub(app, types=None):
        n_sub[0] += 1
        return {"op": "subscribe", "n": n_sub[0], "app": app, "types": types or r.choice([[2], [16], [1, 2, 16], [2, 16]]),
                "priority": n_sub[0], "multiplicity": r.choice([None, 1, 1, 2])}

    pre = []
    reg_p = provs[:r.randint(1, 2)]
    reg_c = conss[:r.randint(1, 2)]
    for a in reg_p:
        pre.append({"op": "register_provider", "app": a})
    for a in reg_c:
        pre.append({"op": "register_consumer", "app": a})
    objs = []          # (label, tpl, app, expired)
    for _ in range(r.randint(2, 4)):
        o = add(r.choice(reg_p), dt=0)
        pre.append(o)
        objs.append((o["n"], o["tpl"], o["app"], o["expired"]))
    subs = []
    for _ in range(r.choice([0, 1, 1, 2])):
        s = sub(r.choice(reg_c))
        pre.append(s)
        subs.append((s["n"], s["app"]))

    focus = r.choice(["store", "store", "store", "subs", "subs", "registry", "mix", "mix"])
    cfg["focus"] = focus
    WEIGHTS = {
        "store": {"add": 25, "update": 20, "delete": 15, "query": 20, "collect_trash": 12, "attend": 3, "subscribe": 2, "reg_p": 2, "reg_c": 1},
        "subs": {"subscribe": 25, "unsubscribe": 20, "attend": 15, "reg_c": 18, "add": 10, "query": 7, "update": 5},
        "registry": {"reg_p": 35, "reg_c": 30, "add": 15, "query": 15, "subscribe": 5},
        "mix": {"add": 20, "update": 14, "delete": 11, "query": 18, "collect_trash": 9, "attend": 8, "subscribe": 6, "unsubscribe": 4,
                "reg_p": 5, "reg_c": 5},
    }[focus]
    kinds = sorted(WEIGHTS)
    weights = [WEIGHTS[k] for k in kinds]
    if focus == "subs":
        while len(subs) < 2:
            s_ = sub(r.choice(reg_c))
            pre.append(s_)
            subs.append((s_["n"], s_["app"]))

    rq = random.Random(run_seed ^ 0xF117E5)      # own stream for two-statement filters

    def draw(mine):
        firm = [o for o in objs if not o[3]]
        for _ in range(20):
            k = r.choices(kinds, weights)[0]
            if k == "add":
                app = r.choice(reg_p) if r.random() < 0.85 else r.choice(provs)
                o = add(app)
                mine.append((o["n"], o["tpl"], o["app"], o["expired"]))
                return o
            if k == "update" and (firm or objs):
                tgt = r.choice(firm) if firm and r.random() < 0.8 else r.choice(objs + mine)
                serial[0] += 1
                return {"op": "update", "app": tgt[2], "ref": tgt[0], "tpl": tgt[1], "sid": r.choice([1001, 1002, 2001]), "serial": serial[0]}
            if k == "delete" and firm:
                tgt = r.choice(firm + [o for o in mine if not o[3]])
                return {"op": "delete", "app": tgt[2], "ref": tgt[0]}
            if k == "query":
                flt = None
                if r.random() < 0.3:
                    flt = {"s1": {"attr": "header.stationId", "op": r.choice(["==", "!="]), "val": r.choice([1001, 1002])}}
                    if rq.random() < 0.5:
                        # two statements on the attribute that updates change: a record that changes between the evaluation of the
                        # first and of the second statement yields an answer that neither its old nor its new version explains
                        flt["logic"] = rq.choice(["and", "or"])
                        flt["s2"] = {"attr": "header.stationId", "op": rq.choice(["==", "!="]), "val": rq.choice([1001, 1002, 2001])}
                return {"op": "query", "app": r.choice(reg_c) if r.random() < 0.8 else r.choice(conss),
                        "types": r.choice([[2], [16], [1], [1, 2, 16], [1, 2, 16]]), "filter": flt}
            if k == "collect_trash":
                return {"op": "collect_trash", "dt_ms": r.choice([0, 0, 500])}
            if k == "attend":
                return {"op": "attend"}
            if k == "subscribe":
                s_ = sub(r.choice(reg_c) if r.random() < 0.85 else r.choice(conss))
                subs.append((s_["n"], s_["app"]))
                return s_
            if k == "unsubscribe" and subs:
                s_ = r.choice(subs)
                return {"op": "unsubscribe", "app": s_[1], "ref": s_[0]}
            if k == "reg_p":
                return {"op": r.choice(["register_provider", "register_provider", "deregister_provider"]), "app": r.choice(provs)}
            if k == "reg_c":
                return {"op": r.choice(["register_consumer", "deregister_consumer"]), "app": r.choice(conss)}
        return {"op": "attend"}

    nth = r.choice([2, 2, 2, 3, 3, 4])
    small = r.random() < 0.35
    ops = []
    for th in range(nth):
        mine: list = []
        for _ in range(1 if small else r.choice([1, 2, 2, 3, 4])):
            if len(ops) >= 16:
                break
            op = dict(draw(mine))
            op["th"] = th
            ops.append(op)
    # pattern (own PRNG stream): a consumer deregisters, registers again and repeats its earlier subscription request while
    # attendance passes run on other threads - its new subscription must survive
    r2 = random.Random(run_seed ^ 0x5EB5C16)
    pre_subs = [o for o in pre if o["op"] == "subscribe"]
    pat = r2.random()
    newcomers = [c for c in conss if c not in reg_c]
    if (pre_subs and pat < 0.10) or (newcomers and 0.10 <= pat < 0.17):
        if pat < 0.10:
            s0 = r2.choice(pre_subs)
            n_sub[0] += 1
            chain = [{"op": "deregister_consumer", "app": s0["app"]}, {"op": "register_consumer", "app": s0["app"]},
                     dict(s0, n=n_sub[0], same_as=s0["n"])]
        else:
            # a consumer that was not there before registers and subscribes while attendance passes run
            c_new = r2.choice(newcomers)
            n_sub[0] += 1
            chain = [{"op": "register_consumer", "app": c_new},
                     {"op": "subscribe", "n": n_sub[0], "app": c_new, "types": r2.choice([[2], [16], [1, 2, 16], [2, 16]]),
                      "priority": n_sub[0], "multiplicity": r2.choice([None, 1, 1, 2])}]
        others = [{"op": "attend"}]
        for _ in range(r2.choice([0, 1, 1, 2])):
            others.append(r2.choice([{"op": "attend"}, dict(add(r2.choice(reg_p)), dt_ms=0), {"op": "collect_trash", "dt_ms": 0}]))
        r2.shuffle(others)
        ops = [dict(o, th=0) for o in chain]
        nth2 = r2.choice([2, 2, 3])
        for i, o in enumerate(others):
            ops.append(dict(o, th=1 + i % (nth2 - 1)))
        cfg["focus"] = "resubscribe" if pat < 0.10 else "newcomer"
    cfg["pools"] = {"providers": provs, "consumers": conss}
    sched = S.sync_only_variant(run_seed, S.draw_strategy(r), focus_names=("service._lock", "database._lock", "maintenance."))
    return {"engine": ENGINE, "property": ID, "config": cfg, "pre": pre, "ops": ops, "sched": sched, "sched_seed": r.getrandbits(32)}


# ------------------------------------------------------------------------------------------ execution
class _Callback:
    """Subscription callback with a deterministic hash (SubscriptionInfo is hashed by the service)."""

    def __init__(self, run, label, group=None):
        self.run = run
        self.label = label
        self.group = label if group is None else group      # callbacks of one group compare equal (like one bound method passed twice)

    def __call__(self, resp):
        self.run.on_callback(self.label, resp)

    def __hash__(self):
        return 7919 * self.group + 13

    def __eq__(self, other):
        return isinstance(other, _Callback) and other.group == self.group


def _modules():
    import flexstack.facilities.local_dynamic_map.dictionary_database as m_db
    import flexstack.facilities.local_dynamic_map.ldm_service as m_s
    import flexstack.facilities.local_dynamic_map.ldm_service_reactive as m_sr
    import flexstack.facilities.local_dynamic_map.ldm_service_threads as m_st
    import flexstack.facilities.local_dynamic_map.ldm_maintenance as m_m
    import flexstack.facilities.local_dynamic_map.ldm_maintenance_reactive as m_mr
    import flexstack.facilities.local_dynamic_map.ldm_maintenance_thread as m_mt
    import flexstack.facilities.local_dynamic_map.if_ldm_3 as m_3
    import flexstack.facilities.local_dynamic_map.if_ldm_4 as m_4
    return m_db, m_s, m_sr, m_st, m_m, m_mr, m_mt, m_3, m_4


class _Run:
    def __init__(self, plan: dict, sched_cfg: dict, n_est=None, n_sync=None):
        self.plan = plan
        self.cfg = plan["config"]
        self.mods = _modules()
        self.sc = S.Scheduler(list(self.mods), sched_cfg, plan.get("sched_seed", 0), step_cap=STEP_CAP, n_est=n_est,
                              t0_us=self.cfg["t0_us"], n_sync_est=n_sync)
        self.ops: list = []                # [(label, op)]
        self.hist: dict = {}               # label -> record
        self.passes: list = []             # {"kind", "inv", "ret", "th", "within", "exc", "calls": [...]}
        self.cur_pass: dict = {}           # thread idx -> stack of passes in progress
        self.obj_id: dict = {}             # object label -> id returned by the LDM
        self.sub_id: dict = {}
        self.objs: dict = {}               # object label -> add op
        self.violations: list = []
        self.probes: dict = {}
        self.harness_exc = None
        self.serial_map: dict = {}         # serial -> (object label, version index)
        self.versions: dict = {}           # object label -> [serials]

    def probe(self, name, n=1):
        self.probes[name] = self.probes.get(name, 0) + n

    def violate(self, rule, key, detail):
        if any(v["rule"] == rule and v["key"] == key for v in self.violations):
            return
        self.violations.append({"property": ID, "rule": rule, "key": key, "detail": detail})

    # ---------------------------------------------------------------- building
    def build(self):
        import flexstack.facilities.local_dynamic_map.ldm_classes as C
        import flexstack.facilities.local_dynamic_map.factory as fmod
        self.C = C
        lat, lon, alt = self.cfg["ldm_pos"]
        loc = C.Location.initializer(latitude=lat, longitude=lon, altitude_value=alt, relevance_distance=self.cfg["relevance"])
        self.ldm = fmod.LDMFactory().create_ldm(loc, ldm_maintenance_type=self.cfg["maintenance"],
                                                ldm_service_type=self.cfg["service"], ldm_database_type="Dictionary")
        self.if3, self.if4 = self.ldm.if_ldm_3, self.ldm.if_ldm_4
        self.service, self.maint = self.ldm.ldm_service, self.ldm.ldm_maintenance
        for owner, pre in ((self.service, "service."), (self.maint, "maintenance."), (self.maint.data_containers, "database.")):
            for name, val in vars(owner).items():
                if isinstance(val, S.SimLock):
                    val.name = pre + name
        run = self
        orig_ct, orig_att = self.maint.collect_trash, self.service.attend_subscriptions

        def spy_collect_trash():
            p = run.pass_begin("gc")
            try:
                orig_ct()
            except S.SchedAbort:
                raise
            except Exception as e:          # noqa: BLE001 - re-raised unchanged, judged by the oracle
                p["exc"] = e
                raise
            finally:
                run.pass_end(p)

        def spy_attend():
            p = run.pass_begin("att")
            try:
                orig_att()
            except S.SchedAbort:
                raise
            except Exception as e:          # noqa: BLE001
                p["exc"] = e
                raise
            finally:
                run.pass_end(p)
        self.maint.collect_trash = spy_collect_trash
        self.service.attend_subscriptions = spy_attend
        resp = self.if4.register_data_consumer(C.RegisterDataConsumerReq(AUDITOR, tuple(C.AccessPermission(i) for i in L.ALL_TYPES),
                                                                         C.GeometricArea(None, None, None)))
        if int(resp.result) != 0:
            raise HarnessError("auditor registration refused")

    def _tidx(self):
        cur = self.sc.current()
        return cur.idx if cur is not None else -1

    def pass_begin(self, kind):
        th = self._tidx()
        cur = self.sc.current()
        within = cur.tag if cur is not None else self.sc.main_tag
        p = {"kind": kind, "th": th, "within": within, "exc": None, "calls": [], "ret": None}
        p["inv"] = self.sc.note("pass-inv", kind, str(within))
        self.passes.append(p)
        self.cur_pass.setdefault(th, []).append(p)
        return p

    def pass_end(self, p):
        if self.sc.aborting:
            return
        p["ret"] = self.sc.note("pass-ret", p["kind"], str(p["within"]))
        st = self.cur_pass.get(p["th"], [])
        if st and st[-1] is p:
            st.pop()

    def on_callback(self, label, resp):
        th = self._tidx()
        try:
            recs = list(resp.data_objects)
        except Exception:                  # noqa: BLE001
            recs = []
        seq = self.sc.note("callback", label, len(recs))
        st = self.cur_pass.get(th, [])
        call = {"sub": label, "records": recs, "seq": seq}
        if st:
            st[-1]["calls"].append(call)
        else:
            self.passes.append({"kind": "stray", "th": th, "within": None, "exc": None, "calls": [call], "inv": seq, "ret": seq})

    # ---------------------------------------------------------------- operations
    def _location(self, lat, lon, alt):
        return self.C.Location.initializer(latitude=lat, longitude=lon, semi_major_confidence=0, semi_major_orientation=0,
                                           semi_minor_confidence=0, altitude_value=alt, altitude_confidence=0, radius=0,
                                           relevance_distance=1, relevance_traffic_direction=0)

    def do_op(self, label, op, rec):
        C, kind = self.C, op["op"]
        if op.get("dt_ms"):
            self.sc.advance(op["dt_ms"] * 1000)
        perms = tuple(L.ALL_TYPES)
        if kind == "register_provider":
            resp = self.if3.register_data_provider(C.RegisterDataProviderReq(op["app"], perms, C.TimeValidity(5)))
            rec["ok"] = int(resp.result) == 0
        elif kind == "deregister_provider":
            resp = self.if3.deregister_data_provider(C.DeregisterDataProviderReq(op["app"]))
            rec["ok"] = int(resp.result) == 0
        elif kind == "register_consumer":
            resp = self.if4.register_data_consumer(C.RegisterDataConsumerReq(op["app"], perms, C.GeometricArea(None, None, None)))
            rec["ok"] = int(resp.result) == 0
        elif kind == "deregister_consumer":
            resp = self.if4.deregister_data_consumer(C.DeregisterDataConsumerReq(op["app"]))
            rec["ok"] = int(resp.ack) == 0
        elif kind == "add":
            lat, lon, alt = op["loc"]
            content = L.make_content(op["tpl"], op["sid"], op["serial"], lat, lon, alt)
            now_ms = L.its_ms(self.sc.now_us)
            ts = now_ms - 20_000 if op["expired"] else now_ms
            validity = 1 if op["expired"] else 3600
            rec["ts"], rec["validity"] = ts, validity
            self.objs[op["n"]] = op
            self.versions.setdefault(op["n"], []).append(op["serial"])
            self.serial_map[op["serial"]] = (op["n"], 0)
            req = C.AddDataProviderReq(application_id=op["app"], timestamp=C.TimestampIts(ts), location=self._location(lat, lon, alt),
                                       data_object=copy.deepcopy(content), time_validity=C.TimeValidity(validity))
            resp = self.if3.add_provider_data(req)
            oid = resp.data_object_id
            rec["ok"] = isinstance(oid, int) and not isinstance(oid, bool) and oid >= 0
            rec["id"] = oid if rec["ok"] else None
            if rec["ok"]:
                self.obj_id[op["n"]] = oid
        elif kind in ("update", "delete"):
            oid = self.obj_id.get(op["ref"])
            if oid is None:
                rec["skipped"] = True
                return
            if kind == "update":
                o = self.objs[op["ref"]]
                lat, lon, alt = o["loc"]
                content = L.make_content(op["tpl"], op["sid"], op["serial"], lat, lon, alt)
                self.versions[op["ref"]].append(op["serial"])
                rec["version"] = len(self.versions[op["ref"]]) - 1
                self.serial_map[op["serial"]] = (op["ref"], rec["version"])
                req = C.UpdateDataProviderReq(application_id=op["app"], data_object_id=oid, time_stamp=C.TimestampIts(L.its_ms(self.sc.now_us)),
                                              location=self._location(lat, lon, alt), data_object=copy.deepcopy(content),
                                              time_validity=C.TimeValidity(7))
                resp = self.if3.update_provider_data(req)
            else:
                req = C.DeleteDataProviderReq(application_id=op["app"], data_object_id=oid, time_stamp=C.TimestampIts(L.its_ms(self.sc.now_us)))
                resp = self.if3.delete_provider_data(req)
            rec["ok"] = int(resp.result) == 0
            rec["code"] = int(resp.result)
        elif kind == "query":
            flt = op.get("filter")
            f = None
            if flt is not None:
                cmpop = {"==": 0, "!=": 1, ">": 2, "<": 3, ">=": 4, "<=": 5}
                s1 = flt["s1"]
                if flt.get("s2") is None:
                    f = C.Filter(C.FilterStatement(s1["attr"], C.ComparisonOperators(cmpop[s1["op"]]), s1["val"]))
                else:
                    s2 = flt["s2"]
                    f = C.Filter(C.FilterStatement(s1["attr"], C.ComparisonOperators(cmpop[s1["op"]]), s1["val"]),
                                 C.LogicalOperators(0 if flt["logic"] == "and" else 1),
                                 C.FilterStatement(s2["attr"], C.ComparisonOperators(cmpop[s2["op"]]), s2["val"]))
            resp = self.if4.request_data_objects(C.RequestDataObjectsReq(op["app"], tuple(op["types"]), None, None, f))
            rec["ok"] = int(resp.result) == 0
            rec["records"] = list(resp.data_objects) if rec["ok"] else []
        elif kind == "subscribe":
            req = C.SubscribeDataobjectsReq(application_id=op["app"], data_object_type=tuple(op["types"]), priority=op.get("priority"),
                                            filter=None, notify_time=None, multiplicity=op.get("multiplicity"), order=None)
            # "same_as": the consumer repeats, after deregistering and registering again, the request (and callback) it used before
            resp = self.if4.subscribe_data_consumer(req, _Callback(self, op["n"], group=op.get("same_as")))
            rec["ok"] = int(resp.result) == 0
            if rec["ok"]:
                self.sub_id[op["n"]] = resp.subscription_id
        elif kind == "unsubscribe":
            sid = self.sub_id.get(op["ref"])
            if sid is None:
                rec["skipped"] = True
                return
            resp = self.if4.unsubscribe_data_consumer(C.UnsubscribeDataConsumerReq(op["app"], sid))
            rec["ok"] = int(resp.result) == 0
        elif kind == "collect_trash":
            self.maint.collect_trash()
        elif kind == "attend":
            self.service.attend_subscriptions()
        else:
            raise HarnessError("unknown op " + kind)

    def run_op(self, label, op):
        sc = self.sc
        cur = sc.current()
        if cur is not None:
            cur.tag = label
        else:
            sc.main_tag = label
        rec = {"label": label, "op": op, "kind": op["op"], "th": self._tidx(), "exc": None, "skipped": False, "ret": None}
        self.hist[label] = rec
        rec["inv"] = sc.note("inv", str(label), op["op"])
        try:
            self.do_op(label, op, rec)
        except S.SchedAbort:
            raise
        except HarnessError as e:
            if self.harness_exc is None:
                self.harness_exc = e
            raise
        except Exception as e:              # noqa: BLE001 - code under test raised: judged by the oracle
            rec["exc"] = e
        rec["ret"] = sc.note("ret", str(label), "exc:" + type(rec["exc"]).__name__ if rec["exc"] is not None else
                             ("skipped" if rec["skipped"] else str(rec.get("ok"))))

    def actor(self, items):
        for label, op in items:
            self.run_op(label, op)

    def go(self):
        from flexstack.utils import time_service
        m_db, m_s, m_sr, m_st, m_m, m_mr, m_mt, m_3, m_4 = self.mods
        sc = self.sc
        plan = self.plan
        thf, tf = S.ThreadingFacade(sc), S.TimeFacade(sc)
        with Patches() as p:
            p.mute_stdout()
            p.set(time_service.TimeService, "time", staticmethod(sc.time))
            p.set(m_db, "RLock", sc.RLock)
            for m in (m_s, m_sr, m_st, m_mr, m_mt):
                p.set(m, "threading", thf)
            for m in (m_sr, m_m, m_mr, m_mt):
                p.set(m, "time", tf)
            self.build()
            for i, op in enumerate(plan.get("pre", [])):
                self.ops.append((f"pre{i}", op))
            threads: dict = {}
            for i, op in enumerate(plan["ops"]):
                self.ops.append((i, op))
                threads.setdefault(op.get("th", 0), []).append((i, op))
            for label, op in self.ops:
                if isinstance(label, str):
                    self.run_op(label, op)
            sc.main_tag = None
            for th in sorted(threads):
                sc.spawn(f"actor{th}", self.actor, threads[th])
            sc.run()
            if self.harness_exc is not None:
                raise self.harness_exc
            if not sc.aborting:
                post = [{"op": "attend"}, {"op": "query", "app": AUDITOR, "types": list(L.ALL_TYPES), "filter": None}]
                pools = self.cfg.get("pools", {})
                # the final registry content is read through the API: a deregistration is acknowledged iff the application was registered
                # every subscription is read back through the API at the end: unsubscribing succeeds iff it (still) exists
                # (of two equal requests - the re-subscription pattern - only the later one: they share one identifier)
                repeated = {o.get("same_as") for o in plan["ops"] if o["op"] == "subscribe"}
                post += [{"op": "unsubscribe", "app": o["app"], "ref": o["n"]} for o in list(plan.get("pre", [])) + list(plan["ops"])
                         if o["op"] == "subscribe" and o["n"] not in repeated]
                post += [{"op": "deregister_provider", "app": a} for a in pools.get("providers", [])]
                post += [{"op": "deregister_consumer", "app": a} for a in pools.get("consumers", [])]
                for i, op in enumerate(post):
                    self.ops.append((f"post{i}", op))
                    self.run_op(f"post{i}", op)

    # ---------------------------------------------------------------- oracle
    def ident(self, record):
        """-> (object label, version index) or None"""
        if not isinstance(record, dict) or not isinstance(record.get("dataObject"), dict):
            return None
        ser = L.serial_of(record["dataObject"])
        return self.serial_map.get(ser) if isinstance(ser, int) else None

    def judge(self):
        sc = self.sc
        recs = [self.hist[label] for label, _ in self.ops if label in self.hist]
        done = [r for r in recs if r["ret"] is not None]
        kind_of = {r["label"]: r["kind"] for r in recs}
        BIG = 1 << 60

        def overlap(a, b):
            return a["inv"] < (b["ret"] if b["ret"] is not None else BIG) and b["inv"] < (a["ret"] if a["ret"] is not None else BIG)

        def entities(r):
            op = r["op"]
            k = r["kind"]
            if k == "add":
                return {("obj", op["n"]), ("prov", op["app"])}
            if k in ("update", "delete"):
                return {("obj", op["ref"])}
            if k in ("register_provider", "deregister_provider"):
                return {("prov", op["app"])}
            if k in ("register_consumer", "deregister_consumer"):
                return {("cons", op["app"])}
            if k == "query":
                return {("cons", op["app"])}
            if k == "subscribe":
                return {("sub", op["n"]), ("cons", op["app"])}
            if k == "unsubscribe":
                return {("sub", op["ref"]), ("cons", op["app"])}
            return set()

        MUTATORS = {"obj": ("add", "update", "delete"), "prov": ("register_provider", "deregister_provider", "add"),
                    "cons": ("register_consumer", "deregister_consumer", "query", "subscribe", "unsubscribe"),
                    "sub": ("subscribe", "unsubscribe", "deregister_consumer")}

        def cluster(ents, extra=()):
            """kinds of the operations racing on the (first of the) given entities"""
            ents = sorted(ents, key=lambda x: ({"obj": 0, "sub": 1, "prov": 2, "cons": 3}[x[0]], x[1]))[:1]
            if not ents:
                return "none"
            e = ents[0]
            rel = {e}
            if e[0] == "sub":
                rel |= {("cons", x["op"]["app"]) for x in recs if x["kind"] == "subscribe" and x["op"]["n"] == e[1]}
            touching = [r for r in recs if (entities(r) & rel) and not isinstance(r["label"], str) and r["kind"] in MUTATORS[e[0]]]
            touching += [r for r in extra if r not in touching and not isinstance(r["label"], str) and r["kind"] in MUTATORS[e[0]]]
            racing = {r["kind"] for r in touching if any(o is not r and o["th"] != r["th"] and overlap(r, o) for o in touching)}
            if e[0] == "obj" and e[1] in self.objs and self.objs[e[1]]["expired"]:
                for p in self.passes:
                    if p["kind"] == "gc" and p["ret"] is not None:
                        hit = [r for r in touching if r["kind"] in ("update", "delete") and r["th"] != p["th"] and
                               r["inv"] < p["ret"] and p["inv"] < (r["ret"] or BIG)]
                        if hit:
                            racing.add("collect_trash")
                            racing.update(r["kind"] for r in hit)
            if e[0] in ("sub", "cons"):
                for p in self.passes:
                    if p["kind"] == "att" and p["ret"] is not None and any(r["th"] != p["th"] and r["inv"] < p["ret"] and p["inv"] < (r["ret"] or BIG)
                                                                            for r in touching):
                        racing.add("attend")
            return "+".join(sorted(racing)) or "none"

        # ---- failures, deadlock, cap
        for r in recs:
            if r["exc"] is not None:
                inline = next((p for p in self.passes if p["exc"] is r["exc"]), None)
                where = {"gc": "collect_trash", "att": "attend"}[inline["kind"]] if inline is not None else r["kind"]
                self.violate("thread-raised", f"{type(r['exc']).__name__}:{where}",
                             f"operation {r['label']} ({r['kind']}) raised {r['exc']!r}; concurrent operations: "
                             f"{sorted({o['kind'] for o in recs if o is not r and o['th'] != r['th'] and overlap(r, o)})}")
        for name, e in sc.errors:
            if isinstance(e, HarnessError):
                raise e
            self.violate("thread-raised", f"{type(e).__name__}:{name}", f"thread {name} died with {e!r}")
        if sc.deadlock is not None:
            self.violate("deadlock", sc.deadlock_key(), "every live thread is blocked: " + sc.deadlock_text())
        if sc.cap_hit:
            self.violate("step-cap", "cap", f"the run did not finish within {STEP_CAP} traced instructions")
        if sc.aborting:
            return

        firm = {n for n, op in self.objs.items() if not op["expired"]}
        # an operation that raised has an unknown effect: its object carries no further verdicts, and a raised registry /
        # subscription operation leaves the whole history unjudged (the exception itself is already reported)
        judge_history = True
        for r in recs:
            if r["exc"] is not None:
                if r["kind"] == "add":
                    firm.discard(r["op"]["n"])
                elif r["kind"] in ("update", "delete"):
                    firm.discard(r["op"]["ref"])
                elif r["kind"] not in ("collect_trash", "attend", "query"):
                    judge_history = False
        add_rec = {r["op"]["n"]: r for r in recs if r["kind"] == "add"}
        gc_passes = [p for p in self.passes if p["kind"] == "gc" and p["ret"] is not None]
        att_passes = [p for p in self.passes if p["kind"] == "att" and p["ret"] is not None]

        # ---- identifiers unique
        seen: dict = {}
        for r in done:
            if r["kind"] == "add" and r.get("ok"):
                if r["id"] in seen:
                    o = seen[r["id"]]
                    self.violate("not-linearizable", "ids-not-unique‖" + cluster({("obj", r["op"]["n"]), ("obj", o["op"]["n"])}, (r, o)),
                                 f"adds {o['label']} and {r['label']} were both answered with data object id {r['id']}")
                seen[r["id"]] = r

        # ---- records returned by queries and callbacks: duplicates, mangled records
        def check_records(records, what, ctx):
            got = []
            for rc_ in records:
                hit = self.ident(rc_)
                if hit is None:
                    self.violate("not-linearizable", "unknown-record‖" + what, f"{ctx} returned a record that was never stored: {str(rc_)[:200]}")
                    continue
                label, ver = hit
                a = add_rec.get(label)
                bad = [k for k in RECORD_KEYS if k not in rc_]
                if not bad and a is not None:
                    if rc_.get("application_id") != a["op"]["app"]:
                        bad.append("application_id")
                    if rc_.get("timestamp") != a.get("ts"):
                        bad.append("timestamp")
                    if rc_.get("timeValidity") != a.get("validity"):
                        bad.append("timeValidity")
                if bad:
                    self.violate("not-linearizable", "record-mangled‖" + cluster({("obj", label)}),
                                 f"{ctx} returned object #{label} with record fields {bad} missing or altered (no sequential order of the "
                                 f"operations produces such a record)")
                got.append(hit)
            labels = [g[0] for g in got]
            for lb in sorted(set(labels)):
                if labels.count(lb) > 1:
                    self.violate("not-linearizable", "object-duplicated‖" + cluster({("obj", lb)}),
                                 f"{ctx} returned object #{lb} {labels.count(lb)} times")
            return got

        for r in done:
            if r["kind"] == "query" and r.get("ok"):
                r["got"] = check_records(r["records"], "query", f"query {r['label']}")

        # ---- expired objects: may vanish during / after a maintenance pass, never come back
        for n, op in sorted(self.objs.items()):
            if not op["expired"] or n not in add_rec or add_rec[n]["ret"] is None or not add_rec[n].get("ok"):
                continue
            a = add_rec[n]
            tname = L.TPL_TYPE[op["tpl"]]
            content = L.make_content(op["tpl"], op["sid"], op["serial"], *op["loc"])
            obs = []
            touched = any(x["kind"] in ("update", "delete") and x["op"].get("ref") == n for x in recs)
            for q in done:
                if q["kind"] != "query" or not q.get("ok") or tname not in q["op"]["types"] or q["inv"] < a["ret"]:
                    continue
                if q["op"].get("filter") is not None and L.eval_filter(content, q["op"]["filter"])[0] is not True:
                    continue
                obs.append((q, any(g[0] == n for g in q["got"])))
            for q, present in obs:
                if present:
                    for q0, p0 in obs:
                        if not p0 and q0["ret"] < q["inv"] and not touched:
                            self.violate("not-linearizable", "expired-object-resurrected‖" + cluster({("obj", n)}),
                                         f"expired object #{n} was absent from query {q0['label']} and returned again by the later query {q['label']}")
                elif not touched:
                    self.probe("expired-object-collected")
                    if not any(g["inv"] < q["ret"] for g in gc_passes):
                        self.violate("not-linearizable", "object-lost-without-maintenance-pass‖" + cluster({("obj", n)}),
                                     f"object #{n} (expired, never deleted) is missing from query {q['label']} although no maintenance pass had begun")

        # ---- linearizability of the API calls against the reference model (firm objects)
        if judge_history:
            self.linearize(done, firm, cluster, entities, overlap)
        else:
            self.probe("history-not-judged-after-exception")

        # ---- attendance passes: subscriptions neither lost nor resurrected, plausible content
        sub_rec = {r["op"]["n"]: r for r in recs if r["kind"] == "subscribe"}
        for p in att_passes + [p for p in self.passes if p["kind"] == "stray"]:
            for c in p["calls"]:
                self.probe("callback-invoked")
                s = sub_rec.get(c["sub"])
                got = check_records(c["records"], "callback", f"notification of subscription #{c['sub']}")
                if s is None:
                    continue
                app = s["op"]["app"]
                killers = [x for x in done if x.get("ok") and ((x["kind"] == "unsubscribe" and x["op"]["ref"] == c["sub"]) or
                                                               (x["kind"] == "deregister_consumer" and x["op"]["app"] == app and s["ret"] is not None and s["ret"] < x["inv"]))]
                for x in killers:
                    if x["ret"] < p["inv"]:
                        self.violate("not-linearizable", f"subscription-resurrected‖{x['kind']}+attend",
                                     f"subscription #{c['sub']} of consumer {app} was notified in an attendance pass that began (log position "
                                     f"{p['inv']}) after {x['kind']} {x['label']} had returned successfully (position {x['ret']})")
                for (lb, ver) in got:
                    if lb in firm:
                        dels = [x for x in done if x["kind"] == "delete" and x.get("ok") and x["op"]["ref"] == lb and x["ret"] < p["inv"]]
                        upd_after = any(x["kind"] == "update" and x["op"]["ref"] == lb and (x["ret"] is None or x["ret"] > dels[0]["inv"]) for x in recs) if dels else False
                        if dels and not upd_after:
                            self.violate("not-linearizable", "deleted-object-notified‖" + cluster({("obj", lb)}),
                                         f"subscription #{c['sub']} was notified with object #{lb}, deleted by {dels[0]['label']} before the pass began")
            if p["kind"] != "att":
                continue
            for n, s in sorted(sub_rec.items()):
                if not s.get("ok") or s["ret"] is None or s["ret"] > p["inv"]:
                    continue
                app = s["op"]["app"]
                if any((x["kind"] == "unsubscribe" and x["op"]["ref"] == n or x["kind"] in ("deregister_consumer", "register_consumer") and x["op"]["app"] == app)
                       and x["inv"] < p["ret"] and not isinstance(x["label"], str) for x in recs):
                    continue
                if not any(x["kind"] == "register_consumer" and x["op"]["app"] == app and isinstance(x["label"], str) for x in recs):
                    continue
                stable = []
                for lb in sorted(firm):
                    a = add_rec.get(lb)
                    if a is None or not a.get("ok") or a["ret"] is None or a["ret"] > p["inv"] or L.TPL_TYPE[a["op"]["tpl"]] not in s["op"]["types"]:
                        continue
                    if any(x["kind"] in ("delete", "update") and x["op"]["ref"] == lb and x["inv"] < p["ret"] for x in recs):
                        continue
                    stable.append(lb)
                need = max(1, s["op"].get("multiplicity") or 0)
                if len(stable) >= need and p["exc"] is None and not any(c["sub"] == n for c in p["calls"]):
                    self.violate("not-linearizable", "subscription-lost‖" + cluster({("sub", n), ("cons", app)}),
                                 f"subscription #{n} of consumer {app} (types {s['op']['types']}, multiplicity {s['op'].get('multiplicity')}) was not "
                                 f"notified by the attendance pass at log positions {p['inv']}..{p['ret']} although {len(stable)} matching objects "
                                 f"were stored throughout and nothing touched the subscription")

        # ---- probes
        api = [r for r in done if r["kind"] not in ("collect_trash", "attend") and not isinstance(r["label"], str)]
        for p in gc_passes:
            if any(r["th"] != p["th"] and r["inv"] < p["ret"] and p["inv"] < r["ret"] for r in api):
                self.probe("gc-pass-overlapped-api-call")
            if p["within"] is not None and kind_of.get(p["within"]) == "add":
                self.probe("reactive-gc-inline")
        for p in att_passes:
            if any(r["th"] != p["th"] and r["inv"] < p["ret"] and p["inv"] < r["ret"] for r in api):
                self.probe("attendance-overlapped-api-call")
            if p["within"] is not None and kind_of.get(p["within"]) == "add":
                self.probe("reactive-attendance-inline")
        for r in api:
            for o in api:
                if o["th"] <= r["th"] or not overlap(r, o):
                    continue
                ks = {r["kind"], o["kind"]}
                shared = entities(r) & entities(o)
                if ks == {"add"}:
                    self.probe("add-raced-add")
                if "update" in ks and "delete" in ks and shared:
                    self.probe("update-raced-delete-or-gc")
                if "query" in ks and ks & {"add", "update", "delete"}:
                    self.probe("query-raced-mutation")
                if any(e[0] in ("prov", "cons") for e in shared) and ks & {"register_provider", "deregister_provider", "register_consumer", "deregister_consumer"}:
                    self.probe("registry-raced")
                if any(e[0] in ("sub", "cons") for e in shared) and ks & {"subscribe", "unsubscribe"}:
                    self.probe("subscription-raced")
        for r in api:
            if r["kind"] == "update" and any(p["th"] != r["th"] and r["inv"] < p["ret"] and p["inv"] < r["ret"] for p in gc_passes):
                self.probe("update-raced-delete-or-gc")
        if sc.lock_contended:
            self.probe("lock-contended", sc.lock_contended)
        if sc.preempt_free:
            self.probe("preemption-inside-lock-free-region", sc.preempt_free)
        if sc.preempt_held:
            self.probe("preemption-while-holding-lock", sc.preempt_held)
        if sc.preempt_sync:
            self.probe("preemption-at-lock-boundary", sc.preempt_sync)
        self.probe("strategy:" + ("sync-only" if sc.cfg.get("sync_only") else sc.cfg.get("strategy", "?")))

    # ---------------------------------------------------------------- Wing-Gong search
    def linearize(self, done, firm, cluster, entities, overlap):
        """History of completed API calls -> sub-operations (check / effect) -> search for a sequential order."""
        subops = []           # (rec, phase, fn)  fn(state) -> (new_state | None, reason)
        # state = (providers, consumers, objects, max_id, subscriptions)
        #   objects: tuple of (label, version) sorted; subscriptions: frozenset of (label, app)

        def chk_prov(app, want):
            def f(st):
                return (st, None) if (app in st[0]) == want else (None, ("provider-registered" if not want else "provider-unregistered", {("prov", app)}))
            return f

        def chk_cons(app, want):
            def f(st):
                return (st, None) if (app in st[1]) == want else (None, ("consumer-registered" if not want else "consumer-unregistered", {("cons", app)}))
            return f

        def chk_obj(label, want):
            def f(st):
                present = any(o[0] == label for o in st[2])
                return (st, None) if present == want else (None, ("object-present" if not want else "object-absent", {("obj", label)}))
            return f

        for r in done:
            k, op = r["kind"], r["op"]
            if r["exc"] is not None or r["skipped"] or k in ("collect_trash", "attend"):
                continue
            ok = r.get("ok")
            if k == "register_provider":
                if ok:
                    subops.append((r, "effect", lambda st, a=op["app"]: ((st[0] | {a}, st[1], st[2], st[3], st[4]), None)))
                else:
                    subops.append((r, "check", lambda st, a=op["app"]: (None, ("refused", {("prov", a)}))))
            elif k == "register_consumer":
                if ok:
                    subops.append((r, "effect", lambda st, a=op["app"]: ((st[0], st[1] | {a}, st[2], st[3], st[4]), None)))
                else:
                    subops.append((r, "check", lambda st, a=op["app"]: (None, ("refused", {("cons", a)}))))
            elif k == "deregister_provider":
                subops.append((r, "check", chk_prov(op["app"], bool(ok))))
                if ok:
                    subops.append((r, "effect", lambda st, a=op["app"]: ((st[0] - {a}, st[1], st[2], st[3], st[4]), None)))
            elif k == "deregister_consumer":
                subops.append((r, "check", chk_cons(op["app"], bool(ok))))
                if ok:
                    subops.append((r, "effect", lambda st, a=op["app"]: ((st[0], st[1] - {a}, st[2], st[3],
                                                                         frozenset(s for s in st[4] if s[1] != a)), None)))
            elif k == "add":
                subops.append((r, "check", chk_prov(op["app"], bool(ok))))
                if ok:
                    def eff(st, n=op["n"], oid=r["id"], is_firm=op["n"] in firm):
                        if oid <= st[3]:
                            return None, ("id-not-increasing", {("obj", n)})
                        objs = tuple(sorted(st[2] + ((n, 0),))) if is_firm else st[2]
                        return (st[0], st[1], objs, oid, st[4]), None
                    subops.append((r, "effect", eff))
            elif k == "update":
                if op["ref"] not in firm:
                    continue
                subops.append((r, "check", chk_obj(op["ref"], bool(ok))))
                if ok:
                    def eff(st, n=op["ref"], v=r["version"]):
                        if not any(o[0] == n for o in st[2]):
                            return None, ("object-absent", {("obj", n)})
                        return (st[0], st[1], tuple(sorted((o if o[0] != n else (n, v)) for o in st[2])), st[3], st[4]), None
                    subops.append((r, "effect", eff))
            elif k == "delete":
                if op["ref"] not in firm:
                    continue
                subops.append((r, "check", chk_obj(op["ref"], bool(ok))))
                if ok:
                    subops.append((r, "effect", lambda st, n=op["ref"]: ((st[0], st[1], tuple(o for o in st[2] if o[0] != n), st[3], st[4]), None)))
            elif k == "query":
                subops.append((r, "check", chk_cons(op["app"], bool(ok))))
                if ok:
                    got = sorted(g for g in r["got"] if g[0] in firm)

                    def eff(st, op=op, got=got):
                        exp = []
                        for (n, v) in st[2]:
                            a = self.objs[n]
                            if L.TPL_TYPE[a["tpl"]] not in op["types"]:
                                continue
                            if op.get("filter") is not None:
                                ser = self.versions[n][v]
                                sid = self._sid_of(n, v)
                                content = L.make_content(a["tpl"], sid, ser, *a["loc"])
                                if L.eval_filter(content, op["filter"])[0] is not True:
                                    continue
                            exp.append((n, v))
                        if exp == got:
                            return st, None
                        gl, el = {g[0] for g in got}, {e[0] for e in exp}
                        if gl - el:
                            return None, ("extra-object", {("obj", x) for x in gl - el})
                        if el - gl:
                            return None, ("missing-object", {("obj", x) for x in el - gl})
                        return None, ("stale-version", {("obj", g[0]) for g in got if g not in exp})
                    subops.append((r, "effect", eff))
            elif k == "subscribe":
                subops.append((r, "check", chk_cons(op["app"], bool(ok))))
                if ok:
                    subops.append((r, "effect", lambda st, n=op["n"], a=op["app"]: ((st[0], st[1], st[2], st[3], st[4] | {(n, a)}), None)))
            elif k == "unsubscribe":
                n, a = op["ref"], op["app"]
                if ok:
                    subops.append((r, "check", lambda st, n=n, a=a: (st, None) if (a in st[1] and any(s[0] == n for s in st[4])) else
                                   (None, ("consumer-unregistered" if a not in st[1] else "subscription-absent", {("sub", n), ("cons", a)}))))
                    subops.append((r, "effect", lambda st, n=n: ((st[0], st[1], st[2], st[3], frozenset(s for s in st[4] if s[0] != n)), None)))
                else:
                    subops.append((r, "check", lambda st, n=n, a=a: (st, None) if (a not in st[1] or not any(s[0] == n for s in st[4])) else
                                   (None, ("subscription-present", {("sub", n), ("cons", a)}))))
        n = len(subops)
        if n == 0:
            return
        pred = [0] * n
        for i, (ri, pi, _) in enumerate(subops):
            for j, (rj, pj, _) in enumerate(subops):
                if i == j:
                    continue
                if rj is ri:
                    if pj == "check" and pi == "effect":
                        pred[i] |= 1 << j
                elif rj["ret"] < ri["inv"]:
                    pred[i] |= 1 << j
        full = (1 << n) - 1
        init = (frozenset(), frozenset([AUDITOR]), tuple(), -1, frozenset())
        failed: set = set()
        best = {"depth": -1, "fails": None}
        budget = [200_000]

        def dfs(mask, st, depth):
            if mask == full:
                return True
            key = (mask, st)
            if key in failed:
                return False
            budget[0] -= 1
            if budget[0] < 0:
                raise _Budget()
            fails = []
            for i in range(n):
                if mask >> i & 1 or (pred[i] & ~mask):
                    continue
                st2, why = subops[i][2](st)
                if st2 is None:
                    fails.append((i, why))
                    continue
                if dfs(mask | (1 << i), st2, depth + 1):
                    return True
            if fails and depth > best["depth"]:
                best["depth"], best["fails"] = depth, fails
            failed.add(key)
            return False

        try:
            ok = dfs(0, init, 0)
        except _Budget:
            self.probe("linearizability-search-budget-exhausted")
            return
        if ok:
            self.probe("history-linearized")
            return
        fails = best["fails"] or []
        i, (why, ents) = min(fails, key=lambda x: (str(subops[x[0]][0]["label"]).zfill(6), x[1][0])) if fails else (0, ("?", set()))
        r = subops[i][0]
        racing = cluster(set(ents), (r,))
        hist = "; ".join(f"{x['label']}:{x['kind']}@{x['th']}[{x['inv']},{x['ret']}]={'ok' if x.get('ok') else 'refused' if x.get('ok') is False else '-'}"
                         for x in done if not isinstance(x["label"], str) or x["kind"] in ("add", "subscribe"))
        self.violate("not-linearizable", f"history‖{racing}" if racing != "none" else f"history:{r['kind']}:{why}",
                     f"no sequential order of the operations explains the responses: after the longest explainable prefix, {r['kind']} "
                     f"{r['label']} cannot be placed ({why} {sorted(ents)}); other stuck operations: "
                     f"{[(str(subops[j][0]['label']), subops[j][0]['kind'], w[0]) for j, w in fails if j != i][:4]}; history: {hist[:900]}")

    def _sid_of(self, label, version):
        if version == 0:
            return self.objs[label]["sid"]
        ser = self.versions[label][version]
        for _, op in self.ops:
            if op["op"] == "update" and op.get("serial") == ser:
                return op["sid"]
        return self.objs[label]["sid"]

    # ---------------------------------------------------------------- result
    def result(self) -> dict:
        sc = self.sc
        h = hashlib.sha256()
        lines = []
        kinds = [op["op"] for _, op in self.ops]
        for (seq, step, th, kind, data) in sc.log:
            line = f"{seq}|{step}|{sc.thread_name(th)}|{kind}|" + ",".join(str(d) for d in data)
            h.update(line.encode() + b"\n")
            lines.append(line)
        for st, to in sc.switches:
            h.update(b"%d>%d;" % (st, to))
        for v in self.violations:
            h.update(f"violation|{v['rule']}|{v['key']}\n".encode())
        sig = hashlib.sha256((repr(kinds) + sc.schedule_hash()).encode()).hexdigest()[:16]
        trace = [f"ldm: maintenance={self.cfg['maintenance']} service={self.cfg['service']}",
                 f"ops: {[(str(l), o['op'], o.get('th'), o.get('n', o.get('ref'))) for l, o in self.ops]}",
                 f"strategy: {sc.cfg} n_est={sc.n_est} steps={sc.steps} switches={len(sc.switches)}"]
        trace += sc.describe_switches(120)
        trace += lines[:300]
        return {"violations": self.violations, "probes": self.probes, "faults": {}, "sig": sig,
                "nontrivial": sc.preemptions > 0 or sc.lock_contended > 0, "events": sc.steps, "sim_us": sc.now_us - sc.t0_us,
                "digest": h.hexdigest(), "trace": trace, "schedule": sc.schedule()}


class _Budget(Exception):
    pass


def execute(plan: dict) -> dict:
    cfg = dict(plan["sched"])
    n_est = n_sync = None
    if cfg.get("strategy") in ("pct", "one"):
        dry = _Run(plan, {"strategy": "serial"})
        dry.go()
        n_est, n_sync = max(1, dry.sc.steps), max(1, dry.sc.sync_events)
    run = _Run(plan, cfg, n_est, n_sync)
    run.go()
    run.judge()
    return run.result()


SHRINKERS = [lambda plan: S.shrink_schedule(plan, execute)]
