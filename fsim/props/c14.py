"""C14 - LDM subscriptions notify exactly the matching data, at the requested cadence."""
from __future__ import annotations

from .. import ldmsim

ID = "C14"
ENGINE = "ldm"
RUNS = {"quick": 6000, "thorough": 120000}
RULE_TEXT = ("one run = one seeded history (8-100 ops) over a real LDM (Dictionary or TinyDB; maintenance Reactive|Thread; service "
             "Reactive = attendance piggybacked on add, Thread = parked SimThread every 0.5 virtual s): subscribe (types, filter, "
             "order, notification interval None..5 s, multiplicity None..5, also invalid and duplicate requests), unsubscribe, "
             "register/deregister consumers, add, clock advance, explicit attendance; every attendance (spied) is judged against a "
             "reference subscription model; non-trivial = a live subscription was judged at an attendance; distinct = distinct "
             "sequences of (operation kind, outcome class)")
COMPONENTS = {"real": ["LDMFactory", "InterfaceLDM4 subscribe/unsubscribe/validate", "LDMService.attend_subscriptions/process_notifications",
                       "LDMServiceReactive", "LDMServiceThreads", "both back-ends' search", "InterfaceLDM3"],
              "stub": ["virtual clock", "SimThread/SimEvent", "observing spies", "consumer callbacks (recorders)"]}
ASSUMPTIONS = ["the interval counts from the previous notification; before the first notification nothing is 'too early' and a "
               "notification is due once interval + 1 s have passed since subscribing",
               "too early = neither the true elapsed time nor the elapsed time on a one-second clock reaches the interval; "
               "due = true elapsed time >= interval + 1 s; in between no verdict",
               "with zero matching objects no notification is demanded or forbidden; multiplicity None/0 = no threshold",
               "a subscription dies for good when its consumer deregisters (even if the consumer registers again)",
               "an unsubscribe request defines the model by its outcome",
               "objects with no C12 verdict (expired-uncollected, outside the area, already reported) may or may not be notified"]
EXPECTED_PROBES = ["tinydb-used", "attendance:reactive", "attendance:periodic", "attendance:explicit", "notified:reactive", "notified:periodic",
                   "notified:explicit", "multiplicity-gate-exact", "multiplicity-gate-blocks", "attendance-before-interval",
                   "interval-resolution-window", "unsubscribed", "subscription-ended-by-deregistration", "unsubscribe-with-live-twin",
                   "ordered-notification", "filtered-notification", "invalid-subscription:itsaid", "invalid-subscription:type",
                   "invalid-subscription:priority", "invalid-subscription:interval", "invalid-subscription:multiplicity"]
DOUBLE = {"quick": 48, "thorough": 600}


def gen_plan(run_seed: int, tier: str) -> dict:
    return ldmsim.gen_plan(run_seed, tier, ID)


def execute(plan: dict) -> dict:
    return ldmsim.execute(plan, "subscription-judged-at-attendance")
