"""C11 - facility messages faithfully encode the sensor input they were built from."""
from __future__ import annotations

import math

from .. import facsim as fs
from ..facsim import FacSim, History, gdt_of_tpv, its_ms_of_unix_ms, parse_iso_ms, exc_key, VEHICLE_ROLES
from ..result import finish

ID = "C11"
ENGINE = "fac"
RUNS = {"quick": 2400, "thorough": 60000}
DOUBLE = {"quick": 32, "thorough": 400}
FRESH = {"quick": 4, "thorough": 16}
RULE_TEXT = ("one run = one seeded plan of the C10 kind (CA / VRU / DEN services on the virtual clock, simulated GNSS) whose reports are drawn "
             "over the whole GNSS value space with boundary bias (lat +-90, lon +-180, alt -1000..10000, speed 0..200, track 0..360.0, error "
             "estimates 0..700, every optional-field subset class), all station types / vehicle roles, VBS idle / join / leader states, "
             "EVA / RHS / CRW DEN requests, and a receiver whose clock is skewed by < 1 s and which gets every message after 2 ms..64 s; "
             "every payload handed to BTP is decoded with the repository's coder and compared element by element with an independent "
             "TS 102 894-2 mapping oracle; non-trivial = at least one message or exception observed; distinct = distinct abstract traces "
             "(per message: type, containers, special-value classes of its elements; exceptions)")
COMPONENTS = {"real": ["CooperativeAwarenessBasicService", "CAMTransmissionManagement", "VRUAwarenessService", "VAMTransmissionManagement",
                       "VBSClusteringManager (containers)", "DecentralizedEnvironmentalNotificationService", "DENMTransmissionManagement",
                       "EmergencyVehicleApproachingService", "DENRequest", "CAMReceptionManagement", "VAMReceptionManagement",
                       "GenerationDeltaTime", "CAMCoder", "VAMCoder", "DENMCoder"],
              "real-in-10%-of-runs": ["geonet.Router + btp.Router below the services and at a second receiving station (SimLinkLayer ether)"],
              "stub": ["BTP router (recording stub / recording proxy in front of the real router)", "GNSS (plan ops)", "virtual clock (per-host offset)", "SimTimer/SimThread", "PRNG"]}
ASSUMPTIONS = ["a value within one unit of the element's resolution of the exact scaled measurement is accepted (floor / ceil / round)",
               "bucket edges (altitude confidence, outOfRange thresholds) accept both neighbours",
               "elements without a sensor source (speedConfidence, acceleration, curvature, yaw rate ...) are not judged",
               "semi-major/minor axis lengths are compared as an unordered pair; the orientation is not judged",
               "altitude comes from altHAE; with only alt/altMSL present both 'unavailable' and the mapped alt are accepted",
               "DENM eventPosition elements missing from the triggering report may keep the value of an earlier trigger (shared service state)",
               "generation time = the report's own timestamp; reconstruction is demanded for 0 <= receiver clock - generation time < 65 s, "
               "a receiver clock behind the generation time is reported under its own key",
               "liveness is C10's max gap (CAM 1 s + check period, VAM 5 s + report period) while position reports keep arriving",
               "CAM pathHistory: every point must be the position of an earlier CAM of the same activation (+-2 units of 1e-7 deg) with the "
               "matching pathDeltaTime (+-1 unit of 10 ms); number of points, subsampling and the reference of a delta (CAM position or "
               "previous path point) are left to the implementation (probes)"]
EXPECTED_PROBES = ["cam", "vam", "denm", "denm:eva", "denm:rhs", "denm:crw", "rx:cam", "rx:vam", "rx-age>1s", "rx-skew-positive", "rx-skew-negative",
                   "gdt-wrap-between-tx-and-rx", "edge:lat=+-90", "edge:lon=+-180", "edge:alt>=8000", "edge:alt<=-1000", "edge:speed>=163.82",
                   "edge:track=360.0", "edge:epx>=40.94", "edge:epd>12.5", "edge:epd<0.1", "edge:epv>200", "edge:epv-bucket-edge",
                   "edge:alt-6130-8000", "cam:lf", "cam:special", "cam:two-wheeler", "vam:lf", "vam:cluster-op", "vbs:idle", "element-checked",
                   "station-type-nondefault", "role-nondefault", "rx-through-real-stack", "pathhistory-judged"] + ["fields:" + c for c in fs.FIELD_CLASSES]

fs.warm(["cam", "vam", "denm"])


def gen_plan(run_seed: int, tier: str) -> dict:
    return fs.gen_fac_plan(run_seed, tier, "C11")


def execute(plan: dict) -> dict:
    sim = FacSim(plan)
    sim.run()
    h = History(sim)
    trace = judge(sim, h)
    nontrivial = bool(h.msgs) or any(e["k"] in ("exc", "logexc") for e in sim.log)
    return finish(sim, trace, nontrivial=nontrivial)


SHRINKERS = [fs.truncating_shrinker(lambda p: execute(p)), fs.shrink_candidates]

# ------------------------------------------------------------------------------------------------ mapping oracle (TS 102 894-2)
ALT_CONF = ["alt-000-01", "alt-000-02", "alt-000-05", "alt-000-10", "alt-000-20", "alt-000-50", "alt-001-00", "alt-002-00",
            "alt-005-00", "alt-010-00", "alt-020-00", "alt-050-00", "alt-100-00", "alt-200-00", "outOfRange"]
ALT_EDGES = [0.01, 0.02, 0.05, 0.1, 0.2, 0.5, 1, 2, 5, 10, 20, 50, 100, 200]


class Exp:
    """Expectation for one data element: a set of acceptable values, the naive scaled value and the ASN.1 range."""

    def __init__(self, accept, raw=None, lo=None, hi=None, note=""):
        self.accept = accept
        self.raw = raw
        self.lo = lo
        self.hi = hi
        self.note = note

    def ok(self, v) -> bool:
        return v in self.accept

    def wrapped(self) -> bool:
        return self.raw is not None and self.lo is not None and not (self.lo <= self.raw <= self.hi)


def _near(x: float):
    """Integers within one unit of resolution of the exact scaled value (floor and ceil; n-1, n, n+1 when x is the integer n)."""
    lo = math.ceil(x - 1 - 1e-6)
    hi = math.floor(x + 1 + 1e-6)
    return set(range(lo, hi + 1))


def exp_lat(tpv):
    if "lat" not in tpv:
        return Exp({900000001}, note="unavailable")
    x = tpv["lat"] * 1e7
    return Exp({v for v in _near(x) if -900000000 <= v <= 900000000}, raw=math.floor(x), lo=-900000000, hi=900000001)


def exp_lon(tpv):
    if "lon" not in tpv:
        return Exp({1800000001}, note="unavailable")
    x = tpv["lon"] * 1e7
    return Exp({v for v in _near(x) if -1800000000 <= v <= 1800000000}, raw=math.floor(x), lo=-1800000000, hi=1800000001)


def exp_alt(tpv):
    if "altHAE" not in tpv:
        acc = {800001}
        for k in ("alt", "altMSL"):
            if k in tpv:
                acc |= _alt_accept(tpv[k] * 100)
        return Exp(acc, note="unavailable")
    x = tpv["altHAE"] * 100
    return Exp(_alt_accept(x), raw=math.floor(x), lo=-100000, hi=800001)


def _alt_accept(x):
    if x >= 800000:
        return {800000}
    if x <= -100000:
        return {-100000}
    acc = {v for v in _near(x) if -100000 <= v <= 800000}
    return acc


def exp_alt_conf(tpv):
    if "epv" not in tpv:
        return Exp({"unavailable"})
    e = tpv["epv"]
    acc = set()
    for i, edge in enumerate(ALT_EDGES):
        if e < edge * (1 - 1e-9):
            acc.add(ALT_CONF[i])
            break
        if abs(e - edge) <= edge * 1e-9:
            acc.add(ALT_CONF[i])
            acc.add(ALT_CONF[i + 1])
            break
    else:
        acc.add("outOfRange")
    return Exp(acc)


def _semi_axis(e: float):
    x = e * 100
    if x >= 4094 + 1:
        return {4094}
    if x >= 4094 - 1:
        return {4093, 4094}
    acc = {v for v in _near(x) if 0 <= v <= 4093}
    if x < 1:
        acc |= {0, 1}
    return acc


def exp_ellipse(tpv):
    """Returns (set of acceptable (major, minor) unordered pairs as frozensets-of-tuples test, raw values)."""
    if "epx" in tpv and "epy" in tpv:
        a, b = _semi_axis(tpv["epx"]), _semi_axis(tpv["epy"])
        raw = (math.floor(tpv["epx"] * 100), math.floor(tpv["epy"] * 100))
        return a, b, raw
    return None


def exp_heading(tpv):
    if "track" not in tpv:
        return Exp({3601}, note="unavailable")
    x = tpv["track"] * 10
    return Exp({v % 3600 for v in _near(x)}, raw=math.floor(x), lo=0, hi=3601)


def exp_heading_conf(tpv):
    if "epd" not in tpv:
        return Exp({127}, note="unavailable")
    e = tpv["epd"]
    x = e * 10
    if e > 12.5 + 1e-9:
        acc = {126}
        if x < 126:
            acc |= {125}
        return Exp(acc, raw=math.floor(x), lo=1, hi=127)
    acc = {max(1, v) for v in _near(x) if v <= 125}
    return Exp(acc, raw=math.floor(x), lo=1, hi=127)


def exp_speed(tpv):
    if "speed" not in tpv:
        return Exp({16383}, note="unavailable")
    x = tpv["speed"] * 100
    if x >= 16382 + 1:
        return Exp({16382}, raw=math.floor(x), lo=0, hi=16383)
    if x >= 16382 - 1:
        return Exp({16381, 16382}, raw=math.floor(x), lo=0, hi=16383)
    return Exp({v for v in _near(x) if 0 <= v <= 16381}, raw=math.floor(x), lo=0, hi=16383)


# ------------------------------------------------------------------------------------------------ judge
def _edge_probes(sim, tpv):
    if abs(tpv.get("lat", 0)) == 90.0:
        sim.probe("edge:lat=+-90")
    if abs(tpv.get("lon", 0)) == 180.0:
        sim.probe("edge:lon=+-180")
    a = tpv.get("altHAE")
    if a is not None:
        if a >= 8000:
            sim.probe("edge:alt>=8000")
        elif a > 6130:
            sim.probe("edge:alt-6130-8000")
        if a <= -1000:
            sim.probe("edge:alt<=-1000")
    if tpv.get("speed", 0) >= 163.82:
        sim.probe("edge:speed>=163.82")
    if tpv.get("track") == 360.0:
        sim.probe("edge:track=360.0")
    if max(tpv.get("epx", 0), tpv.get("epy", 0)) >= 40.94:
        sim.probe("edge:epx>=40.94")
    d = tpv.get("epd")
    if d is not None:
        if d > 12.5:
            sim.probe("edge:epd>12.5")
        if d < 0.1:
            sim.probe("edge:epd<0.1")
    v = tpv.get("epv")
    if v is not None:
        if v > 200:
            sim.probe("edge:epv>200")
        if v in ALT_EDGES:
            sim.probe("edge:epv-bucket-edge")


def judge(sim: FacSim, h: History) -> list:
    cfg = sim.cfg
    nominal_us = 1_000_000 // cfg.get("rate_hz", 10)
    trace = []
    t0 = sim.kernel.t0_us
    for o in sim.plan["ops"]:
        if o["op"] == "tpv":
            sim.probe("fields:" + o.get("cls", "full"))
            _edge_probes(sim, o["tpv"])
    hca, hvru = sim.host.get("ca", {}), sim.host.get("vru", {})
    if hca.get("station_type", 5) != 5 or hvru.get("station_type", 1) != 1:
        sim.probe("station-type-nondefault")
    if hca.get("role", 0) != 0:
        sim.probe("role-nondefault")

    def rel(t):
        return f"+{(t - t0) / 1e6:.3f}s"

    # ---- exceptions escaping generation
    seen_exc = set()
    for e in sim.log:
        if e["k"] == "exc":
            w = e["where"]
            if w.startswith("rx:"):
                mm = next((x for x in h.msgs if x["n"] == e.get("n")), None)
                if mm is None or mm["msg"] is None:
                    sim.probe("rx-raised-on-undecodable-payload")     # robustness of the receive path is C04
                    continue
                sim.violate(ID, "generation-time-reconstruction", ("CAM" if w.endswith("2001") else "VAM") + "/receiver-raised:" + exc_key(e["exc"]),
                            f"reception callback raised {e['exc']!r} at {rel(e['t'])}", e["t"])
                continue
            if isinstance(e["exc"], fs._Injected):
                sim.probe("send-error-propagated:" + w.split(".")[0])
                continue
            typ = {"vru.location": "VAM", "ca.location": "CAM", "eva.trigger": "DENM", "den.request": "DENM", "den.crw": "DENM",
                   "denreq.build": "DENM"}.get(w, "DENM" if w.startswith("task:thread") else ("CAM" if w.startswith("task:timer") else w))
            key = f"{typ}/{fs.exc_label(sim, e, typ)}"
            if w.startswith("cluster.") or w in ("vru.start", "ca.start", "ca.stop"):
                key = f"{w}/{exc_key(e['exc'])}"
            trace.append(("exc", key))
            if key not in seen_exc:
                seen_exc.add(key)
                sim.violate(ID, "generation-raised", key, f"{w} raised {e['exc']!r} at {rel(e['t'])}" + _culprit_text(sim, e), e["t"])
        elif e["k"] == "logexc" and e["logger"] == "ca_basic_service":
            if isinstance(e["exc"], fs._Injected):
                continue
            key = f"CAM/{fs.exc_label(sim, e, 'CAM')}"
            trace.append(("logexc", key))
            if key not in seen_exc:
                seen_exc.add(key)
                sim.violate(ID, "generation-raised", key, f"CAM construction raised {e['exc']!r} at {rel(e['t'])} (caught and logged by "
                            f"the service; the CAM was skipped)" + _culprit_text(sim, e), e["t"])

    # ---- liveness: C10's max gap keeps holding after any report
    for st in fs.cam_stalls(h, nominal_us):
        cause = _stall_cause(sim, st["t1"], st["t2"], "ca_basic_service")
        sim.violate(ID, "generation-stalled", "CAM/" + cause, f"no CAM for {st['gap'] / 1000:.0f} ms ({st['kind']}) from {rel(st['t1'])} while position "
                    f"reports kept arriving; cause: {cause}", st["t2"])
    for st in fs.vam_stalls(h, nominal_us):
        cause = _stall_cause(sim, st["t1"], st["t2"], "vru.location")
        sim.violate(ID, "generation-stalled", "VAM/" + cause, f"no VAM for {st['gap'] / 1000:.0f} ms from {rel(st['t1'])} while position reports kept "
                    f"arriving at an active VBS; cause: {cause}", st["t2"])
    for r in h.reports:
        if r.get("vbs") == "VRU_IDLE":
            sim.probe("vbs:idle")
            break

    # ---- every payload
    for m in h.msgs:
        port = m["port"]
        typ = {2001: "CAM", 2018: "VAM", 2002: "DENM"}.get(port)
        if typ is None:
            continue
        sim.probe(typ.lower())
        rep = m.get("trigger") if typ == "VAM" else m.get("latest")
        if m["msg"] is None:
            culprit = fs.culprit(rep["tpv"]) if (rep is not None and typ != "DENM") else "?"
            trace.append((typ, "undecodable", culprit))
            sim.violate(ID, "undecodable", f"{typ}/{culprit}", f"{typ} payload ({len(m['e']['data'])} B) handed to BTP at {rel(m['t'])} does not decode: "
                        f"{m['err']!r}" + (f"; report #{rep['i']}: {_brief(rep['tpv'])}" if rep is not None and typ != "DENM" else ""), m["t"])
            continue
        try:
            if typ == "CAM":
                tr = _judge_cam(sim, m, rep, rel)
            elif typ == "VAM":
                tr = _judge_vam(sim, m, rep, rel)
            else:
                tr = _judge_denm(sim, h, m, rel)
        except (KeyError, TypeError, IndexError) as e:
            # the payload decodes, but not into the structure the service builds (a wrapped value spilled into a CHOICE / presence bit)
            tr = (typ, "structure-differs")
            sim.violate(ID, "undecodable", f"{typ}/structure", f"{typ} handed to BTP at {rel(m['t'])} decodes into a different structure than the "
                        f"service built ({type(e).__name__}: {e})", m["t"])
        trace.append(tr)

    _judge_rx(sim, h, rel)
    return trace[:400]


def _brief(tpv: dict) -> str:
    return ", ".join(f"{k}={tpv[k]}" for k in ("lat", "lon", "altHAE", "speed", "track", "epx", "epy", "epv", "epd") if k in tpv)


def _culprit_text(sim, e) -> str:
    for back in reversed(sim.log[:e.get("pos", len(sim.log))]):
        if back["k"] == "tpv":
            return f"; latest report #{back['i']}: {_brief(back['tpv'])} fields={sorted(back['tpv'])[:20]}"
    return ""


def _stall_cause(sim, t1, t2, who) -> str:
    for e in sim.log:
        if t1 <= e["t"] <= t2:
            if e["k"] == "logexc" and who == e["logger"] and not isinstance(e["exc"], fs._Injected):
                return "raised:" + fs.exc_label(sim, e, "CAM")
            if e["k"] == "exc" and e["where"] == who and not isinstance(e["exc"], fs._Injected):
                return "raised:" + fs.exc_label(sim, e, "VAM")
    return "silent"


def _check(sim, typ, path, v, exp: Exp, m, rep, rel, suffix="") -> str:
    sim.probe("element-checked")
    if exp.ok(v):
        return ""
    if m.get("garbage") and path != "heading.confidence":
        # a value below its element's lower bound (confidence 0) corrupts the whole bit string: one root cause, one finding
        sim.probe("collateral-of-underflow")
        if not m.get("garbage_reported"):
            m["garbage_reported"] = True
            sim.violate(ID, "wrapped-value", f"{typ}/heading.confidence", f"{typ} at {rel(m['t'])}: heading confidence computed as 0 (below 1..127) "
                        f"corrupts the encoding: {path} = {v!r}, expected one of {sorted(exp.accept, key=str)[:4]}"
                        + (f"; report #{rep['i']}: {_brief(rep['tpv'])}" if rep is not None else ""), m["t"])
        return "~" + path.split(".")[-1]
    if not exp.wrapped() and m.get("overflow"):
        # an element whose scaled value does not fit its bit field spills into its neighbours: report the root cause only
        sim.probe("collateral-of-overflow")
        return "~" + path.split(".")[-1]
    rule = "wrapped-value" if exp.wrapped() else "field-differs"
    key = f"{typ}/{path}{suffix}"
    sim.violate(ID, rule, key, f"{typ} at {rel(m['t'])}: {path} = {v!r}, expected one of {sorted(exp.accept, key=str)[:4]}"
                + (f" (naive scaled value {exp.raw} is outside {exp.lo}..{exp.hi})" if exp.wrapped() else "")
                + (f"; report #{rep['i']}: {_brief(rep['tpv'])}" if rep is not None else ""), m["t"])
    return "!" + path.split(".")[-1]


def _check_ellipse(sim, typ, pce, tpv, m, rep, rel) -> str:
    e = exp_ellipse(tpv)
    maj, mnr = pce["semiMajorAxisLength"], pce["semiMinorAxisLength"]
    sim.probe("element-checked")
    if e is None:
        if "epx" in tpv or "epy" in tpv:
            sim.probe("ellipse-one-axis-only")
            return ""
        if (maj, mnr) != (4095, 4095):
            sim.violate(ID, "field-differs", f"{typ}/positionConfidenceEllipse", f"{typ} at {rel(m['t'])}: ellipse {maj}/{mnr} although the report "
                        f"has no epx/epy", m["t"])
            return "!ellipse"
        return ""
    a, b, raw = e
    if (maj in a and mnr in b) or (maj in b and mnr in a):
        if maj < mnr:
            sim.probe("semi-major-smaller-than-semi-minor:" + typ)
        return ""
    wrapped = max(raw) > 4095
    if m.get("garbage"):
        sim.probe("collateral-of-underflow")
        return "~ellipse"
    if not wrapped and m.get("overflow"):
        sim.probe("collateral-of-overflow")
        return "~ellipse"
    rule = "wrapped-value" if wrapped else "field-differs"
    sim.violate(ID, rule, f"{typ}/positionConfidenceEllipse.semiAxisLength", f"{typ} at {rel(m['t'])}: semi axes {maj}/{mnr}, expected {sorted(a)[:3]}/"
                f"{sorted(b)[:3]} (epx={tpv['epx']}, epy={tpv['epy']}; SemiAxisLength 4094 = outOfRange)", m["t"])
    return "!ellipse"


def _judge_common(sim, typ, m, rep, rel, gdt, basic, head_v, head_c, speed_v) -> list:
    flags = []
    if rep is None:
        return flags
    tpv = rep["tpv"]
    rp = basic["referencePosition"]
    el = exp_ellipse(tpv)
    ehc = exp_heading_conf(tpv)
    m["garbage"] = ehc.raw is not None and ehc.raw < ehc.lo
    m["overflow"] = any(x.wrapped() for x in (exp_heading(tpv), exp_heading_conf(tpv), exp_speed(tpv), exp_alt(tpv), exp_lat(tpv), exp_lon(tpv))) \
        or (el is not None and max(el[2]) > 4095)
    g = gdt_of_tpv(tpv)
    if g is not None:
        flags.append(_check(sim, typ, "generationDeltaTime", gdt, Exp({g}), m, rep, rel))
    flags.append(_check(sim, typ, "referencePosition.latitude", rp["latitude"], exp_lat(tpv), m, rep, rel))
    flags.append(_check(sim, typ, "referencePosition.longitude", rp["longitude"], exp_lon(tpv), m, rep, rel))
    ea = exp_alt(tpv)
    sfx = ""
    if "altHAE" in tpv and 6130 < tpv["altHAE"] < 8000:
        sfx = "/6130..8000m"
    flags.append(_check(sim, typ, "altitude.altitudeValue", rp["altitude"]["altitudeValue"], ea, m, rep, rel, sfx))
    flags.append(_check(sim, typ, "altitude.altitudeConfidence", rp["altitude"]["altitudeConfidence"], exp_alt_conf(tpv), m, rep, rel))
    flags.append(_check_ellipse(sim, typ, rp["positionConfidenceEllipse"], tpv, m, rep, rel))
    eh = exp_heading(tpv)
    flags.append(_check(sim, typ, "heading.value", head_v, eh, m, rep, rel, "/track=360" if tpv.get("track", 0) >= 360.0 else ""))
    flags.append(_check(sim, typ, "heading.confidence", head_c, exp_heading_conf(tpv), m, rep, rel))
    flags.append(_check(sim, typ, "speed.speedValue", speed_v, exp_speed(tpv), m, rep, rel))
    return [f for f in flags if f]


def _judge_cam(sim, m, rep, rel):
    msg = m["msg"]
    cam = msg["cam"]
    par = cam["camParameters"]
    hca = sim.host.get("ca", {})
    hf = par["highFrequencyContainer"][1]
    flags = _judge_common(sim, "CAM", m, rep, rel, cam["generationDeltaTime"], par["basicContainer"],
                          hf["heading"]["headingValue"], hf["heading"]["headingConfidence"], hf["speed"]["speedValue"])
    flags.append(_check(sim, "CAM", "header.stationId", msg["header"]["stationId"], Exp({hca.get("station_id", 1)}), m, rep, rel))
    flags.append(_check(sim, "CAM", "header.messageId", msg["header"]["messageId"], Exp({2}), m, rep, rel))
    flags.append(_check(sim, "CAM", "basicContainer.stationType", par["basicContainer"]["stationType"], Exp({hca.get("station_type", 5)}), m, rep, rel))
    flags.append(_check(sim, "CAM", "driveDirection", hf["driveDirection"], Exp({hca.get("drive_direction", "forward")}), m, rep, rel))
    flags.append(_check(sim, "CAM", "vehicleLength.vehicleLengthValue", hf["vehicleLength"]["vehicleLengthValue"], Exp({hca.get("length", 1023)}), m, rep, rel))
    flags.append(_check(sim, "CAM", "vehicleWidth", hf["vehicleWidth"], Exp({hca.get("width", 62)}), m, rep, rel))
    cont = []
    if "lowFrequencyContainer" in par:
        sim.probe("cam:lf")
        cont.append("LF")
        lf = par["lowFrequencyContainer"][1]
        flags.append(_check(sim, "CAM", "lowFrequencyContainer.vehicleRole", lf["vehicleRole"], Exp({VEHICLE_ROLES[hca.get("role", 0)]}), m, rep, rel))
        flags.append(_check(sim, "CAM", "lowFrequencyContainer.exteriorLights", bytes(lf["exteriorLights"][0]), Exp({bytes([hca.get("lights", 0)])}), m, rep, rel))
        for pp in lf["pathHistory"]:
            d = pp["pathPosition"]
            if not (-131071 <= d["deltaLatitude"] <= 131072 and -131071 <= d["deltaLongitude"] <= 131072):
                sim.violate(ID, "field-differs", "CAM/pathHistory.pathPosition", f"path point {d} outside the delta range", m["t"])
        ph = _judge_path_history(sim, m, rep, lf["pathHistory"], rel, suspect=any(f[:1] in "!~" for f in flags if f))
        if ph:
            flags.append(ph)
    if "specialVehicleContainer" in par:
        sim.probe("cam:special")
        cont.append("SV")
        want = hca.get("special")
        got = par["specialVehicleContainer"][0]
        if want is None or not got.startswith(want):
            sim.violate(ID, "field-differs", "CAM/specialVehicleContainer", f"special vehicle container {got} for configured {want}", m["t"])
    for x in par.get("extensionContainers", []):
        if x["containerId"] == 1:
            sim.probe("cam:two-wheeler")
            cont.append("TW")
        elif x["containerId"] == 3:
            cont.append("VLF")
    return ("CAM", "+".join(cont), ",".join(f for f in flags if f))


# ---- content of the low-frequency container's pathHistory ------------------------------------------------------------------
PH_POS_TOL = 2            # units of 1e-7 degree (resolution of DeltaLatitude / DeltaLongitude: 1; float scaling + rounding)
PH_TIME_TOL = 1           # units of 10 ms (resolution of PathDeltaTime; the service subtracts floor(ms) clock readings)
PH_WINDOW = 64            # candidates searched for a point that carries no pathDeltaTime


def _judge_path_history(sim, m, rep, path, rel, suspect=False) -> str:
    """Every path point must be an earlier position of the station, expressed to the resolution of its data elements.

    Reference = the CAMs handed to BTP earlier in the same activation (newest first) together with the reports they were built
    from.  What the implementation is free to choose is not judged: how many points it keeps, which earlier CAMs it keeps (any
    subsequence in newest-first order is accepted, probe `pathhistory-subsampled`), and whether a point is expressed relative to
    the CAM's reference position (what the service does) or to the previous path point (what the Path DF of TS 102 894-2 says) -
    both conventions are accepted per point (probes `pathhistory-convention:*`).  Judged: sign and magnitude of deltaLatitude /
    deltaLongitude (+-2 units), pathDeltaTime (+-1 unit of 10 ms, saturating at 65534/65535), and that there are not more points
    than earlier CAMs."""
    act = m.get("act")
    if not path:
        if act is not None and any(c["e"]["pos"] < m["e"]["pos"] for c in act["cams"]):
            sim.probe("pathhistory-empty-with-predecessors")
        return ""
    if act is None or rep is None or not fs.is_position_report(rep["tpv"]):
        sim.probe("pathhistory-no-verdict:no-reference")
        return ""
    if suspect:
        sim.probe("pathhistory-no-verdict:collateral")      # another element of this CAM already differs (a wrapped value may have spilled)
        return ""
    cur = rep["tpv"]
    cands = [c for c in reversed(act["cams"]) if c["e"]["pos"] < m["e"]["pos"] and c.get("latest") is not None
             and fs.is_position_report(c["latest"]["tpv"])]
    sim.probe("pathhistory-judged")

    def delta(a, b):
        return round((a - b) * 10_000_000)

    def time_ok(pdt, dt_us):
        exp = dt_us / 10_000
        if exp >= 65534 - PH_TIME_TOL:
            return pdt >= 65534 - PH_TIME_TOL
        return abs(pdt - max(1.0, exp)) <= PH_TIME_TOL + 1e-9

    k_prev = -1
    prev_lat, prev_lon, prev_t = cur["lat"], cur["lon"], m["t"]
    cum_pdt = 0
    for j, pp in enumerate(path):
        d = pp["pathPosition"]
        pdt = pp.get("pathDeltaTime")
        if pdt is not None:
            cum_pdt += pdt
        saturated = pdt is not None and pdt >= 65534 - PH_TIME_TOL
        horizon_us = None if (pdt is None or saturated) else (max(pdt, cum_pdt) + j + 2 + PH_TIME_TOL) * 10_000
        found = None
        pos_only = None
        scanned = 0
        for k in range(k_prev + 1, len(cands)):
            c = cands[k]
            age = m["t"] - c["t"]
            if horizon_us is not None and age > horizon_us:
                break
            if pdt is None and scanned >= PH_WINDOW:
                break
            scanned += 1
            t = c["latest"]["tpv"]
            abs_ok = abs(d["deltaLatitude"] - delta(t["lat"], cur["lat"])) <= PH_POS_TOL and \
                abs(d["deltaLongitude"] - delta(t["lon"], cur["lon"])) <= PH_POS_TOL
            ch_ok = abs(d["deltaLatitude"] - delta(t["lat"], prev_lat)) <= PH_POS_TOL and \
                abs(d["deltaLongitude"] - delta(t["lon"], prev_lon)) <= PH_POS_TOL
            if not (abs_ok or ch_ok):
                continue
            if pos_only is None:
                pos_only = (k, c)
            if pdt is None:
                found = (k, c, "absolute" if abs_ok else "chained")
                sim.probe("pathhistory-point-without-time")
                break
            if abs_ok and time_ok(pdt, age):
                found = (k, c, "absolute")
                break
            if ch_ok and time_ok(pdt, prev_t - c["t"]):
                found = (k, c, "chained")
                break
        if found is not None:
            k, c, conv = found
            if j > 0:
                sim.probe("pathhistory-convention:" + conv)
            if k != k_prev + 1:
                sim.probe("pathhistory-subsampled")
            k_prev = k
            prev_lat, prev_lon, prev_t = c["latest"]["tpv"]["lat"], c["latest"]["tpv"]["lon"], c["t"]
            sim.probe("element-checked", 3)
            continue
        where = f"CAM at {rel(m['t'])}: path point {j} of {len(path)} = {dict(d, pathDeltaTime=pdt)}"
        if pos_only is not None:
            k, c = pos_only
            sim.violate(ID, "field-differs", "CAM/pathHistory.pathDeltaTime",
                        f"{where} lies at the position of the CAM sent {(m['t'] - c['t']) / 1000:.1f} ms earlier (report #{c['latest']['i']}), "
                        f"pathDeltaTime {pdt} x 10 ms does not say so (expected {max(1, round((m['t'] - c['t']) / 10_000))}"
                        + (f", or {max(1, round((prev_t - c['t']) / 10_000))} relative to the previous point" if j else "") + ")", m["t"])
            return "!pathDeltaTime"
        if k_prev + 1 >= len(cands):
            sim.violate(ID, "field-differs", "CAM/pathHistory.length",
                        f"{where}: only {len(cands)} CAM(s) with a position were sent earlier in this activation, the path has {len(path)} points", m["t"])
            return "!pathLength"
        c = cands[k_prev + 1]
        t = c["latest"]["tpv"]
        e_lat, e_lon = delta(t["lat"], cur["lat"]), delta(t["lon"], cur["lon"])
        lat_bad = abs(d["deltaLatitude"] - e_lat) > PH_POS_TOL and abs(d["deltaLatitude"] - delta(t["lat"], prev_lat)) > PH_POS_TOL
        elem = "deltaLatitude" if lat_bad else "deltaLongitude"
        sim.violate(ID, "field-differs", "CAM/pathHistory." + elem,
                    f"{where} is not the position of any earlier CAM of this activation; the next older CAM (sent {(m['t'] - c['t']) / 1000:.1f} ms "
                    f"earlier, report #{c['latest']['i']}: lat={t['lat']}, lon={t['lon']}) lies at deltaLatitude {e_lat}, deltaLongitude {e_lon} "
                    f"from this CAM's position (lat={cur['lat']}, lon={cur['lon']})", m["t"])
        return "!" + elem
    n_in_range = 0
    for c in cands:
        t = c["latest"]["tpv"]
        if not (-131071 <= delta(t["lat"], cur["lat"]) <= 131072 and -131071 <= delta(t["lon"], cur["lon"]) <= 131072):
            break
        n_in_range += 1
    if len(path) < min(23, n_in_range):
        sim.probe("pathhistory-shorter-than-available")
    return ""


def _judge_vam(sim, m, rep, rel):
    msg = m["msg"]
    vam = msg["vam"]
    par = vam["vamParameters"]
    hv = sim.host.get("vru", {})
    hf = par["vruHighFrequencyContainer"]
    flags = _judge_common(sim, "VAM", m, rep, rel, vam["generationDeltaTime"], par["basicContainer"],
                          hf["heading"]["value"], hf["heading"]["confidence"], hf["speed"]["speedValue"])
    flags.append(_check(sim, "VAM", "header.stationId", msg["header"]["stationId"], Exp({hv.get("station_id", 2)}), m, rep, rel))
    flags.append(_check(sim, "VAM", "header.messageId", msg["header"]["messageId"], Exp({16}), m, rep, rel))
    flags.append(_check(sim, "VAM", "basicContainer.stationType", par["basicContainer"]["stationType"], Exp({hv.get("station_type", 1)}), m, rep, rel))
    cont = []
    if "vruLowFrequencyContainer" in par:
        sim.probe("vam:lf")
        cont.append("LF")
    if "vruClusterInformationContainer" in par:
        sim.probe("vam:cluster-info")
        cont.append("CI")
    if "vruClusterOperationContainer" in par:
        sim.probe("vam:cluster-op")
        cont.append("CO")
        op = par["vruClusterOperationContainer"]
        ji = op.get("clusterJoinInfo")
        if ji is not None and not (0 <= ji["joinTime"] <= 12):
            sim.violate(ID, "field-differs", "VAM/clusterJoinInfo.joinTime", f"joinTime {ji['joinTime']} quarter-seconds exceeds the 3 s notification time", m["t"])
    return ("VAM", "+".join(cont), ",".join(f for f in flags if f))


# ------------------------------------------------------------------------------------------------ DENM
def _denm_sources(h: History, m):
    """The DEN triggers (eva / denreq ops) that happened before this DENM, newest first."""
    out = []
    for e in reversed(h.log[:m["e"]["pos"]]):
        if e["k"] in ("eva", "denreq"):
            out.append(e)
    return out


def _judge_denm(sim, h, m, rel):
    msg = m["msg"]
    mg = msg["denm"]["management"]
    hca = sim.host.get("ca", {})
    srcs = _denm_sources(h, m)
    flags = []
    if not srcs:
        sim.violate(ID, "field-differs", "DENM/unrequested", f"DENM at {rel(m['t'])} without any DEN request", m["t"])
        return ("DENM", "?", "")
    flags.append(_check(sim, "DENM", "header.stationId", msg["header"]["stationId"], Exp({hca.get("station_id", 1)}), m, None, rel))
    flags.append(_check(sim, "DENM", "header.messageId", msg["header"]["messageId"], Exp({1}), m, None, rel))
    flags.append(_check(sim, "DENM", "actionId.originatingStationId", mg["actionId"]["originatingStationId"], Exp({hca.get("station_id", 1)}), m, None, rel))
    now_its = its_ms_of_unix_ms(sim.kernel.station_now_us(FacSim.TX) // 1000 - (sim.kernel.now_us - m["t"]) // 1000)
    flags.append(_check(sim, "DENM", "referenceTime", mg["referenceTime"], Exp({now_its - 1, now_its, now_its + 1}), m, None, rel))
    ep = mg["eventPosition"]
    cc = tuple(msg["denm"].get("situation", {}).get("eventType", {}).get("ccAndScc", (None, None)))
    mode = "crw" if cc[0] == "collisionRisk97" else "rhs"
    reqs = [s for s in srcs if s["k"] == "denreq" and s["mode"] == mode]
    evas = [s for s in srcs if s["k"] == "eva"]
    matched = next((s for s in reqs if not _req_diffs(s["req"], msg, strict=False)), None)
    if matched is not None:
        kind = mode
        sim.probe("denm:" + kind)
        sim.probe("element-checked", 8)
        for path, got, want in _req_diffs(matched["req"], msg, strict=True):
            flags.append("!" + path)
            sim.violate(ID, "field-differs", "DENM/" + path, f"{kind} DENM at {rel(m['t'])}: {path} = {got!r} in the decoded message, the "
                        f"request says {want!r}", m["t"])
    elif evas and mode == "rhs":
        kind = "eva"
        sim.probe("denm:eva")
        # eventPosition: mapping of the report of one of the triggers so far (the service keeps one shared position)
        ok_lat = ok_lon = ok_alt = False
        for s in evas:
            tpv = s["tpv"]
            ok_lat |= exp_lat(tpv).ok(ep["latitude"]) and "lat" in tpv
            ok_lon |= exp_lon(tpv).ok(ep["longitude"]) and "lon" in tpv
            ok_alt |= "altHAE" in tpv and exp_alt(tpv).ok(ep["altitude"]["altitudeValue"])
        newest = evas[0]["tpv"]
        e_lat, e_lon, e_alt = exp_lat(newest), exp_lon(newest), exp_alt(newest)
        for name, ok, ex, v in (("latitude", ok_lat, e_lat, ep["latitude"]), ("longitude", ok_lon, e_lon, ep["longitude"]),
                                ("altitude.altitudeValue", ok_alt, e_alt, ep["altitude"]["altitudeValue"])):
            sim.probe("element-checked")
            if ex.ok(v):
                continue
            src_field = {"latitude": "lat", "longitude": "lon", "altitude.altitudeValue": "altHAE"}[name]
            if ok or (src_field not in newest and any(src_field in s_["tpv"] for s_ in evas[1:])):
                # the application keeps one shared event position: an element missing from this report keeps an earlier trigger's value
                sim.probe("denm-field-from-earlier-trigger")
                continue
            sfx = "/6130..8000m" if name.startswith("alt") and "altHAE" in newest and 6130 < newest["altHAE"] < 8000 else ""
            flags.append(_check(sim, "DENM", "eventPosition." + name, v, ex, m, {"i": evas[0]["i"], "tpv": newest}, rel, sfx))
        created = getattr(sim, "eva_created_ms", None)
        if created is not None:
            d_its = its_ms_of_unix_ms(created)
            flags.append(_check(sim, "DENM", "management.detectionTime", mg["detectionTime"], Exp({d_its - 1, d_its, d_its + 1}), m, None, rel))
        eva_req = {"denm_interval": 1000, "quality": 7, "relevance_distance": "lessThan200m", "relevance_traffic_direction": "upstreamTraffic",
                   "rhs_cause_code": "emergencyVehicleApproaching95", "rhs_subcause_code": 1, "rhs_event_speed": 30, "rhs_vehicle_type": 0,
                   "heading": 0, "confidence": 2}
        for path, got, want in _req_diffs(eva_req, msg, strict=True, skip=("management.detectionTime", "management.eventPosition")):
            flags.append("!" + path)
            sim.violate(ID, "field-differs", "DENM/" + path, f"EVA DENM at {rel(m['t'])}: {path} = {got!r} in the decoded message, the "
                        f"request built by the application says {want!r}", m["t"])
    else:
        kind = mode
        if not reqs:
            sim.violate(ID, "field-differs", "DENM/unrequested", f"{kind} DENM at {rel(m['t'])} without such a request", m["t"])
        else:
            d = _req_diffs(reqs[0]["req"], msg, strict=False)[0]
            sim.violate(ID, "field-differs", "DENM/" + d[0], f"{kind} DENM at {rel(m['t'])}: {d[0]} = {d[1]!r}, the request says {d[2]!r}", m["t"])
            flags.append("!" + d[0])
    return ("DENM", kind, ",".join(f for f in flags if f))


# names under which the decoded (v2) management container carries what the request calls relevance* / denm_interval
_ALIASES = {"management.relevanceDistance": "management.awarenessDistance", "management.relevanceTrafficDirection": "management.trafficDirection",
            "management.TransmissionInterval": "management.transmissionInterval"}
_LOSSY = tuple(_ALIASES)


def _req_fields(req: dict, mode_rhs: bool):
    f = [("management.detectionTime", req.get("detection_time", 0)),
         ("management.eventPosition", req.get("event_position")),
         ("management.TransmissionInterval", req.get("denm_interval", 100)),
         ("situation.informationQuality", req.get("quality", 7))]
    if mode_rhs:
        f += [("management.relevanceDistance", req.get("relevance_distance")),
              ("management.relevanceTrafficDirection", req.get("relevance_traffic_direction")),
              ("management.stationType", req.get("rhs_vehicle_type")),
              ("situation.eventType.ccAndScc", (req.get("rhs_cause_code"), req.get("rhs_subcause_code"))),
              ("location.eventSpeed.speedValue", req.get("rhs_event_speed")),
              ("location.eventPositionHeading.value", req.get("heading", 0)),
              ("location.eventPositionHeading.confidence", req.get("confidence", 2))]
    else:
        f += [("situation.eventType.ccAndScc", (req.get("lcrw_cause_code"), req.get("lcrw_subcause_code")))]
    return f


def _get(msg, path):
    o = msg["denm"]
    for p in path.split("."):
        if not isinstance(o, dict) or p not in o:
            return None
        o = o[p]
    return o


def _req_diffs(req, msg, strict=True, skip=()):
    """All (path, decoded, requested) differences.  strict=False ignores the three management elements that may be lost."""
    rhs = "rhs_cause_code" in req
    out = []
    for path, want in _req_fields(req, rhs):
        if path in skip or (not strict and path in _LOSSY):
            continue
        got = _get(msg, path)
        if got is None and path in _ALIASES:
            got = _get(msg, _ALIASES[path])
        if isinstance(want, tuple):
            got = tuple(got) if got is not None else None
        if got != want:
            out.append((path, got, want))
    return out


# ------------------------------------------------------------------------------------------------ receiver side
def _judge_rx(sim, h: History, rel) -> None:
    by_n = {m["n"]: m for m in h.msgs}
    skew = sim.cfg.get("clock_offset_ms", {}).get("rx", 0)
    for e in sim.log:
        if e["k"] != "rx":
            continue
        m = by_n.get(e["n"])
        if m is None or m["msg"] is None:
            continue
        typ = "CAM" if e["port"] == 2001 else "VAM"
        rep = m.get("trigger") if typ == "VAM" else m.get("latest")
        if rep is None or "time" not in rep["tpv"]:
            continue
        sim.probe("rx:" + typ.lower())
        if skew > 0:
            sim.probe("rx-skew-positive")
        elif skew < 0:
            sim.probe("rx-skew-negative")
        gen_ms = parse_iso_ms(rep["tpv"]["time"])
        gdt = m["msg"][typ.lower()]["generationDeltaTime"]
        if gdt != its_ms_of_unix_ms(gen_ms) % 65536:
            continue                                  # wrong generationDeltaTime is judged on the sending side
        age = e["clock_ms"] - gen_ms
        if age > 1000:
            sim.probe("rx-age>1s")
        if (its_ms_of_unix_ms(e["clock_ms"]) // 65536) != (its_ms_of_unix_ms(gen_ms) // 65536) and 0 <= age < 65000:
            sim.probe("gdt-wrap-between-tx-and-rx")
        if e["utc"] is None:
            sim.violate(ID, "generation-time-reconstruction", typ + "/no-timestamp", f"receiver attached no utc_timestamp to the {typ}", e["t"])
            continue
        if 2 <= age < 65000:
            if abs(e["utc"] - gen_ms) > 0.5:
                sim.violate(ID, "generation-time-reconstruction", typ + "/age<65s",
                            f"{typ} generated at {gen_ms} (Unix ms, report time {rep['tpv']['time']}) received when the receiver clock read "
                            f"{e['clock_ms']} (age {age} ms): reconstructed {e['utc']} (error {e['utc'] - gen_ms} ms)", e["t"])
        elif -1000 < age < 0:
            if abs(e["utc"] - gen_ms) > 0.5:
                # The statement bounds the age ("younger than 65 s"); a message that looks younger than 0 ms because the receiver's
                # clock is behind the sender's is outside it.  Counted, not judged (the reconstruction is then 65 536 ms off).
                sim.probe("rx-clock-behind-reconstruction-off-by-one-cycle")
            else:
                sim.probe("rx-clock-behind-ok")
        else:
            sim.probe("rx-no-verdict:age-outside")
