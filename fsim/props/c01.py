"""C01 - end-to-end payload delivery between stations through BTP and GeoNetworking."""
from __future__ import annotations

import random
from collections import Counter

from .. import refcodec as rc
from .. import netplan as npl
from ..netsim import NetSim
from ..refmodels import RefDPL
from ..result import finish

ID = "C01"
ENGINE = "net"
RUNS = {"quick": 6000, "thorough": 150000}
RULE_TEXT = ("one run = one seeded plan (2-5 real GN+BTP stations in mutual range, 5-30 timed ops: SHB/GBC/GAC/GUC requests, "
             "position refreshes, bursts of GUC while an LS lookup is pending; fault-free or lossy ether) executed in virtual time; "
             "non-trivial = at least one request reached a handler or was judged; distinct = distinct abstract traces "
             "(sequence of (op kind, transport type, LS state, outcome class per receiver))")
COMPONENTS = {"real": ["geonet.Router", "geonet.LocationTable", "geonet header classes", "btp.Router", "btp/geonet SAP classes"],
              "stub": ["SimLinkLayer (radio)", "virtual clock", "SimTimer/SimThread/SimEvent", "GNSS reports", "PRNG"]}
ASSUMPTIONS = ["single-hop topology: every station is in radio range of every other (relaying is C06)",
               "requests with the store-carry-forward bit set are only checked for safety (buffering is unimplemented in the stack)",
               "ordering is demanded per (sender, receiver) among broadcast-type requests and among unicast requests separately"]
EXPECTED_PROBES = ["relookup-second-ls", "secure-run-request", "delivered:shb", "delivered:gbc", "delivered:gac", "delivered:guc", "guc-via-ls", "guc-while-ls-pending",
                   "area-receiver-outside", "hemi-neg"]

TYPES = ["shb", "gbc", "gac", "guc"]


def gen_plan(run_seed: int, tier: str) -> dict:
    r = random.Random(run_seed)
    lossy = r.random() < 0.3
    clean_hemi = r.random() < 0.5          # finding-trigger knob: negative coordinates off in half of the runs
    hemi = "NE" if clean_hemi else r.choice(npl.HEMIS)
    n = r.randint(2, 5)
    blat, blon = npl.base_point(r, hemi)
    macs = npl.unique_macs(r, n + 1)
    ports = npl.rand_ports(r)
    near = npl.neighbours_of_ports(ports)
    mib = npl.rand_mib(r, dpl=(8, 16))
    if "itsGnLifetimeLocTE" in mib and mib["itsGnLifetimeLocTE"] < 5:
        mib["itsGnLifetimeLocTE"] = 5
    stations = []
    for i in range(n):
        lat, lon = rc.offset_position(blat, blon, r.uniform(-150, 150), r.uniform(-150, 150))
        if hemi == "NE":
            lat, lon = abs(lat), abs(lon)
        sp = list(ports) if r.random() < 0.6 else r.sample(ports, r.randint(1, len(ports)))
        if near and r.random() < 0.5:
            sp += r.sample(near, min(len(near), r.randint(1, 2)))
        stations.append({"mac": macs[i], "st": r.randint(0, 12), "m": r.randint(0, 1) if r.random() < 0.2 else 0,
                         "pos": [lat, lon], "speed": round(r.uniform(0, 30), 2), "track": round(r.uniform(0, 359.9), 1),
                         "mib": dict(mib), "ports": sorted(set(sp))})
    ops = []
    t = 0
    if r.random() < 0.6:
        for i in range(n):
            if r.random() < 0.8:
                t += r.randint(0, 3000)
                ops.append({"op": "req", "t": t, "st": i, "type": "shb", "btp": "b", "dport": r.choice(ports),
                            "dpinfo": 0, "payload": npl.rand_payload(r, 0xA0000000 + i, 40), "tc": 0, "hl": 1, "lt": None})
    n_ops = r.randint(4, 24)
    tag = 0
    phantom = {"mac": macs[n], "st": 5}
    for _ in range(n_ops):
        c = r.random()
        gap = 0 if r.random() < 0.25 else (r.randint(0, 5000) if r.random() < 0.7 else r.randint(5000, 400_000))
        t += gap
        i = r.randrange(n)
        if c < 0.12:
            lat, lon = rc.offset_position(stations[i]["pos"][0], stations[i]["pos"][1], r.uniform(-0.3, 0.3), r.uniform(-0.3, 0.3))
            if hemi == "NE":
                lat, lon = abs(lat), abs(lon)
            ops.append({"op": "gnss", "t": t, "st": i, "lat": lat, "lon": lon, "speed": round(r.uniform(0, 30), 2),
                        "track": round(r.uniform(0, 359.9), 1)})
            continue
        tag += 1
        typ = r.choice(TYPES)
        op = {"op": "req", "t": t, "st": i, "type": typ, "btp": r.choice("ab"), "dport": r.choice(ports if r.random() < 0.85 or not near else near),
              "payload": npl.rand_payload(r, tag), "tc": npl.rand_tc(r), "hl": npl.rand_hop_limit(r),
              "lt": None if r.random() < 0.5 else r.choice([1.0, 2.0, 5.0, 10.0, 60.0, 600.0])}
        if op["btp"] == "a":
            op["sport"] = r.choice([0, 1, 65535, r.randrange(65536)])
        else:
            op["dpinfo"] = r.choice([0, 1, 65535, r.randrange(65536)])
        if typ in ("gbc", "gac"):
            shape = r.randrange(3)
            # centre near one of the stations or between them; sizes so that some stations are in, some out
            j = r.randrange(n)
            clat, clon = rc.offset_position(stations[j]["pos"][0], stations[j]["pos"][1], r.uniform(-120, 120), r.uniform(-120, 120))
            if hemi == "NE":
                clat, clon = abs(clat), abs(clon)
            a = r.choice([r.randint(20, 400), r.randint(1, 60), r.randint(200, 1500)])
            b = r.choice([r.randint(20, 400), r.randint(1, 60), a])
            op["area"] = {"shape": shape, "lat": clat, "lon": clon, "a": a, "b": b, "angle": r.choice([0, 0, r.randint(0, 359)])}
        if typ == "guc":
            others = [j for j in range(n) if j != i]
            op["dest"] = phantom if r.random() < 0.08 else r.choice(others)
            # bursts to the same destination (before / while / after an LS lookup)
            ops.append(op)
            for _ in range(r.choice([0, 0, 1, 2, 3])):
                tag += 1
                t += r.choice([0, 0, r.randint(0, 800), r.randint(0, 20000)])
                o2 = dict(op)
                o2["t"] = t
                o2["payload"] = npl.rand_payload(r, tag, 200)
                ops.append(o2)
            continue
        ops.append(op)
    rs = random.Random(run_seed ^ 0x5EC5EC)
    secure = rs.random() < 0.12
    relookup = (not lossy) and n >= 3 and rs.random() < 0.12
    if relookup:
        # A destination that falls silent, whose LocTE at the sender expires and is purged, is looked up AGAIN by the location service
        # while the destination still remembers the sender (duplicate packet list alive): unicast, silence, third-party reception, unicast.
        life = 5
        for s_ in stations:
            s_["mib"].pop("itsGnBeaconServiceRetransmitTimer", None)
            s_["mib"]["itsGnLifetimeLocTE"] = life
        i_, j_ = rs.sample(range(n), 2)
        k_ = rs.choice([x for x in range(n) if x not in (i_, j_)])
        ops = [o for o in ops if o.get("st") != j_ and not (o["op"] == "req" and o["type"] == "guc")][: rs.randint(0, 6)]
        t = max([o["t"] for o in ops] + [0]) + 1000

        def guc(tt, tagx):
            return {"op": "req", "t": tt, "st": i_, "type": "guc", "btp": "b", "dport": rs.choice([p_ for p_ in stations[j_]["ports"]]), "dpinfo": 7,
                    "payload": npl.rand_payload(rs, 0xB0000000 + tagx, 80), "tc": rs.randrange(64), "hl": rs.choice([0, 2, 5]), "lt": None, "dest": j_}
        ops.append(guc(t, 1))
        for q in range(1, 5):
            ops.append({"op": "req", "t": t + q * 1_400_000, "st": i_, "type": "shb", "btp": "b", "dport": rs.choice(ports), "dpinfo": 0,
                        "payload": npl.rand_payload(rs, 0xB1000000 + q, 30), "tc": 0, "hl": 1, "lt": None})
        t2 = t + life * 1_000_000 + 1_300_000
        ops.append({"op": "req", "t": t2, "st": k_, "type": "shb", "btp": "b", "dport": rs.choice(ports), "dpinfo": 0,
                    "payload": npl.rand_payload(rs, 0xB2000000, 30), "tc": 0, "hl": 1, "lt": None})
        ops.append(guc(t2 + rs.randint(5_000, 300_000), 2))
        # every station's GNSS keeps refreshing its ego position vector (1 Hz), so no PV in the exchange is older than the LocTE lifetime
        for x in range(n):
            tt = 300_000 + rs.randint(0, 300_000)
            while tt < t2 + 400_000:
                ops.append({"op": "gnss", "t": tt, "st": x, "lat": stations[x]["pos"][0], "lon": stations[x]["pos"][1],
                            "speed": stations[x]["speed"], "track": stations[x]["track"]})
                tt += 1_000_000
        ops.sort(key=lambda o: o["t"])
        t = ops[-1]["t"]
    if secure:
        # MIB variant "security on with a common trust root": every station holds a ticket and knows the others' tickets
        for i, s_ in enumerate(stations):
            s_["secure"], s_["ticket"], s_["preload"] = True, i, [j for j in range(n) if j != i]
            s_["mib"]["itsGnSecurity"] = "ENABLED"
        for o in ops:
            if o["op"] == "req":
                if o["type"] == "shb":
                    o["profile"], o["its_aid"] = rs.choice([("COOPERATIVE_AWARENESS_MESSAGE", 36), ("VRU_AWARENESS_MESSAGE", 638)])
                elif o["type"] == "gbc":
                    o["profile"], o["its_aid"] = "DECENTRALIZED_ENVIRONMENTAL_NOTIFICATION_MESSAGE", 37
    ls_wait = (mib.get("itsGnLocationServiceRetransmitTimer", 1000) * (mib.get("itsGnLocationServiceMaxRetrans", 10) + 2)) * 1000
    cfg = {"t0_us": 1_767_225_600_000_000 + r.randrange(0, 86_400_000) * 1000, "net_seed": r.getrandbits(32),
           "latency_us": [100, 2000], "fifo": True, "topology": "mesh", "run_limit_us": t + ls_wait + 2_000_000,
           "fault_class": "lossy" if lossy else "none", "hemi": hemi, "relookup": relookup}
    if secure:
        cfg["secure"] = True
        cfg["pki_seed"] = rs.randrange(3)
        cfg["psid_sets"] = [[36, 37, 638]] * n
    if lossy:
        cfg["rates"] = {"drop": r.choice([0.01, 0.05, 0.2]), "dup": r.choice([0, 0.05, 0.2]), "delay": r.choice([0, 0.05, 0.2])}
        cfg["fifo"] = False
        k = r.randint(0, 3)
        for _ in range(k):
            ft = r.randint(0, max(1, t))
            c = r.random()
            if c < 0.4:
                a_, b_ = r.sample(range(n), 2)
                ops.append({"op": "link", "t": ft, "a": a_, "b": b_, "up": False})
                ops.append({"op": "link", "t": ft + r.randint(1000, 500_000), "a": a_, "b": b_, "up": True})
            elif c < 0.7:
                ops.append({"op": "send_error", "t": ft, "st": r.randrange(n), "kind": r.choice(["sending", "toolong"])})
            else:
                ops.append({"op": "restart", "t": ft, "st": r.randrange(n)})
        ops.sort(key=lambda o: o["t"])
    return {"engine": ENGINE, "property": ID, "config": cfg, "stations": stations, "ops": ops}


# --------------------------------------------------------------------------------------------- oracle
def _hemi_key(*coords):
    return "NE" if all(c >= 0 for c in coords) else "neg-coord"


def pv_tuple(pv):
    return (pv.gn_addr.mid.mid, pv.tst.msec, pv.latitude, pv.longitude, bool(pv.pai), pv.s, pv.h)


class C01Sim(NetSim):
    def __init__(self, plan):
        super().__init__(plan)
        self.dpl = RefDPL()
        self.monitors.append(self.dpl)
        self.ego_hist: dict[int, list] = {}
        self.confirms: dict[int, list] = {}

    def wire_facilities(self, station):
        orig = station.gn.gn_data_request
        sim = self

        def wrapped(request):
            cause = sim.kernel.current_cause
            res = orig(request)
            if cause and cause[0] == "op":
                sim.confirms.setdefault(cause[1], []).append(res.result_code.name)
            return res
        station.gn.gn_data_request = wrapped

    def on_gnss(self, station, tpv):
        self.ego_hist.setdefault(station.idx, []).append((self.kernel.events_run, pv_tuple(station.ego())))


def make_sim(plan: dict):
    if plan["config"].get("secure"):
        from ..secnet import SecNetSim
        return SecNetSim(plan)
    return C01Sim(plan)


def execute(plan: dict) -> dict:
    sim = make_sim(plan)
    sim.run()
    judge(sim)
    return finish(sim, trace_of(sim))


def trace_of(sim):
    tr = []
    for o in sim.hist.ops:
        op = o["op"]
        tr.append((op["op"], op.get("type"), o.get("ls_state"), o.get("outcome")))
    return tr


def judge(sim: C01Sim) -> None:
    plan, hist = sim.plan, sim.hist
    lossy = plan["config"].get("fault_class", "none") != "none"
    mac_to_idx = {s.mac: s.idx for s in sim.stations}
    inds = []
    for e in hist.ind:
        ind = e["ind"]
        inds.append({"st": e["st"], "port": e["port"], "src": mac_to_idx.get(ind.gn_source_position_vector.gn_addr.mid.mid),
                     "data": bytes(ind.data), "ind": ind, "t": e["t"], "ev": e["ev"], "cause": e["cause"]})
    reqs = [o for o in hist.ops if o["op"]["op"] == "req" and not o["skipped"]]
    # ---- phase 1: classify every (request, receiver)
    for o in reqs:
        op = o["op"]
        st = sim.stations[op["st"]]
        typ = op["type"]
        coords = list(st.pos)
        if op.get("area"):
            coords += [op["area"]["lat"], op["area"]["lon"]]
        hemi = _hemi_key(*coords)
        if hemi != "NE":
            sim.probe("hemi-neg")
        key_base = f"{typ}/{hemi}"
        if plan["config"].get("secure"):
            sim.probe("secure-run-request")
            key_base = f"{typ}/secure"
        if typ in ("gbc", "gac") and op["area"]["shape"] != 0 and op["area"]["angle"] % 180 != 0 and not plan["config"].get("secure"):
            key_base += "/rotated"
        o["key_base"] = key_base
        o["cls"] = {}
        o["got"] = {}
        o["payload"] = bytes.fromhex(op["payload"])
        if o["exc"] is not None:
            o["outcome"] = "raised"
            sim.violate(ID, "request-raised", f"{typ}/{type(o['exc']).__name__}/{hemi}",
                        f"op {o['idx']} {typ} request from station {op['st']} raised {o['exc']!r}")
            continue
        conf = sim.confirms.get(o["idx"], [])
        o["conf"] = conf
        accepted = bool(conf) and conf[0] == "ACCEPTED"
        if typ == "guc":
            kinds = []
            for t in hist.tx[o["tx_from"]:o["tx_to"]]:
                if t["st"] != op["st"]:
                    continue
                try:
                    kinds.append(rc.ptype(rc.parse_packet(t["frame"])))
                except rc.Malformed:
                    kinds.append("?")
            if "GUC" in kinds:
                ls_state = "direct"
            elif "LSREQ" in kinds:
                ls_state = "ls"
                sim.probe("guc-via-ls")
                if any(p_["op"]["st"] == op["st"] and p_["op"].get("dest") == op["dest"] and p_.get("ls_state") == "ls" and p_["idx"] < o["idx"] for p_ in reqs):
                    sim.probe("relookup-second-ls")
            else:
                ls_state = "ls-pending"
                sim.probe("guc-while-ls-pending")
            o["ls_state"] = ls_state
            # a position vector older than itsGnLifetimeLocTE makes the location table entry built from it expire at once: such a
            # request is outside the property's premise (a live GNSS feed) and its non-delivery is not judged
            life_us = int(st.spec["mib"].get("itsGnLifetimeLocTE", 20)) * 1_000_000
            ages = []
            for who in ([op["st"], op["dest"]] if isinstance(op["dest"], int) else [op["st"]]):
                last = max([0] + [g["op"]["t"] for g in hist.ops if g["op"]["op"] == "gnss" and g["op"]["st"] == who and g["idx"] < o["idx"]])
                ages.append(op["t"] - last)
            o["stale_pv"] = max(ages) + 1_500_000 >= life_us
            if o["stale_pv"]:
                sim.probe("guc-stale-pv-excused")
            if not plan["config"].get("secure"):
                key_base = key_base + "/" + ls_state
            o["key_base"] = key_base
        for rcv in sim.stations:
            if rcv.role != "stack":
                continue
            if rcv.idx == op["st"]:
                o["cls"][rcv.idx] = "self"
            elif typ == "shb":
                o["cls"][rcv.idx] = "expected" if accepted else "forbidden"
            elif typ in ("gbc", "gac"):
                v = rc.area_verdict(op["area"]["shape"], op["area"], rcv.pos[0], rcv.pos[1])
                if not accepted:
                    o["cls"][rcv.idx] = "forbidden"
                elif v == "inside":
                    o["cls"][rcv.idx] = "expected"
                elif v == "outside":
                    o["cls"][rcv.idx] = "forbidden"
                    sim.probe("area-receiver-outside")
                else:
                    o["cls"][rcv.idx] = "noverdict"
            else:
                o["cls"][rcv.idx] = "expected" if (isinstance(op["dest"], int) and rcv.idx == op["dest"] and accepted) else "forbidden"
    live = [o for o in reqs if o["exc"] is None]
    # ---- phase 2: attribute every indication to a request (time order, request order)
    for x in sorted(inds, key=lambda z: z["ev"]):
        cands = [o for o in live if o["op"]["st"] == x["src"] and o["payload"] == x["data"] and o["ev"] < x["ev"]]
        if not cands:
            sim.violate(ID, "payload-differs", "unknown-payload", f"station {x['st']} port {x['port']} received {len(x['data'])} B that no request of "
                        f"station {x['src']} carried")
            continue
        typed = [o for o in cands if _type_matches(x["ind"], o["op"])]
        if not typed:
            o = cands[0]
            sim.violate(ID, "wrong-metadata", f"{o['op']['type']}/transport-type", f"payload of op {o['idx']} indicated with transport type "
                        f"{x['ind'].gn_packet_transport_type}")
            continue
        ported = [o for o in typed if o["op"]["dport"] == x["port"]]
        if not ported:
            o = typed[0]
            sim.violate(ID, "wrong-port", o["key_base"] + "/btp-" + o["op"]["btp"],
                        f"op {o['idx']}: payload for port {o['op']['dport']} reached handler of port {x['port']} on station {x['st']}")
            continue
        rank = {"expected": 0, "noverdict": 1, "forbidden": 2, "self": 3}
        # which BTP header and traffic class the frame behind this indication carried (read from the wire, reference parser)
        wire_btp = wire_tc = None
        c_ = x.get("cause")
        if isinstance(c_, tuple) and len(c_) == 2 and c_[0] == "rx" and isinstance(c_[1], int) and c_[1] < len(hist.rx):
            try:
                pw = rc.parse_packet(hist.rx[c_[1]]["frame"])
                if "secured" not in pw:
                    wire_btp = {1: "a", 2: "b"}.get(pw["common"]["nh"])
                    wire_tc = pw["common"]["tc"]
            except rc.Malformed:
                pass

        def meta_ok(o):
            if wire_btp is not None and o["op"]["btp"] != wire_btp:
                return False
            if o["op"]["btp"] == "a":
                return x["ind"].source_port == o["op"].get("sport", 0)
            return x["ind"].destination_port_info == o["op"].get("dpinfo", 0)
        ported.sort(key=lambda o: (not meta_ok(o), wire_tc is not None and o["op"].get("tc", 0) != wire_tc,
                                   len(o["got"].get(x["st"], [])) > 0, rank[o["cls"].get(x["st"], "forbidden")], o["idx"]))
        o = ported[0]
        o["got"].setdefault(x["st"], []).append(x)
        x["req"] = o["idx"]
    # requests of one sender with the same payload for the same port cannot be told apart at a receiver (a copy of one of them may
    # legitimately arrive again after the duplicate window moved on, one of them may legitimately never be sent): no verdict on them
    by_body: dict[tuple, list] = {}
    for o in live:
        by_body.setdefault((o["op"]["st"], o["op"]["dport"], o["payload"]), []).append(o["idx"])
    twins = {i for lst in by_body.values() if len(lst) > 1 for i in lst}
    if twins:
        sim.probe("verdict-skipped-identical-requests", len(twins))
    # ---- phase 3: judge every (request, receiver)
    for o in live:
        if o["idx"] in twins:
            o["outcome"] = "t"
            continue
        op, typ, key_base = o["op"], o["op"]["type"], o["key_base"]
        scf = bool(op.get("tc", 0) & 0x80)
        outcome = []
        for rcv in sim.stations:
            if rcv.role != "stack":
                continue
            cls = o["cls"][rcv.idx]
            got = o["got"].get(rcv.idx, [])
            if cls == "self":
                if got:
                    sim.violate(ID, "delivered-to-self", key_base, f"op {o['idx']}: sender {rcv.idx} received its own payload")
                continue
            if cls == "forbidden":
                outcome.append("x")
                if got and not (lossy and _rx_dpl(sim, got[0]) != "dup" and False):
                    sim.violate(ID, "wrong-station", key_base, f"op {o['idx']}: {typ} delivered to station {rcv.idx} which is not addressed "
                                f"(confirm={o['conf']})")
                continue
            if cls == "noverdict":
                outcome.append("?")
                continue
            if op["dport"] not in rcv.spec["ports"]:
                outcome.append("n")
                continue
            if not got:
                outcome.append("m")
                if not lossy and not scf and not o.get("stale_pv"):
                    sim.violate(ID, "not-delivered", key_base, f"op {o['idx']}: {typ} payload ({len(o['payload'])} B) from station {op['st']} "
                                f"never reached port {op['dport']} on station {rcv.idx}; confirm={o['conf']}")
                continue
            outcome.append("o")
            sim.probe("delivered:" + typ)
            if len(got) > 1:
                extra = got[1:]
                if typ == "shb":
                    judged = not lossy       # SHB has no sequence number: network duplicates are legitimately delivered again
                else:
                    judged = any(_rx_dpl(sim, y) == "dup" for y in extra)
                if judged:
                    sim.violate(ID, "delivered-twice", key_base, f"op {o['idx']}: {typ} payload delivered {len(got)} times on station {rcv.idx}")
            _check_metadata(sim, o, got[0], key_base)
        o["outcome"] = "".join(outcome)
    # ---- order.  Multi-hop packets may overtake each other through relays, so request order is judged
    #      (a) on the wire at the sender: first emission of each request, per destination class;
    #      (b) at the receiver for SHB only (single path, FIFO link).
    if not lossy:
        byidx = {o["idx"]: o for o in live}
        first_tx: dict[int, int] = {}
        seen_bodies: dict[tuple, int] = {}
        for o in live:
            hdr = rc.enc_btp(o["op"]["dport"], o["op"].get("sport", 0) if o["op"]["btp"] == "a" else o["op"].get("dpinfo", 0))
            kb = (o["op"]["st"], o["op"]["type"], hdr + o["payload"])
            seen_bodies[kb] = seen_bodies.get(kb, 0) + 1
        ambiguous = {kb for kb, c in seen_bodies.items() if c > 1}
        if ambiguous:
            sim.probe("order-not-judged-identical-requests", len(ambiguous))
        for t in hist.tx:
            if t["injected"]:
                continue
            st = sim.stations[t["st"]]
            try:
                p = rc.parse_packet(t["frame"])
            except rc.Malformed:
                continue
            if "secured" in p or p["so"]["addr"]["mid"] != st.mac or rc.ptype(p) in ("BEACON", "LSREQ", "LSREP"):
                continue
            body = p["payload"]
            for o in live:
                hdr = rc.enc_btp(o["op"]["dport"], o["op"].get("sport", 0) if o["op"]["btp"] == "a" else o["op"].get("dpinfo", 0))
                if (o["op"]["st"], o["op"]["type"], hdr + o["payload"]) in ambiguous:
                    continue        # two requests of one station with identical transport type, BTP header and payload: a frame cannot
                                    # be attributed to one of them (one of them may legitimately never be emitted, e.g. SCF without neighbour)
                if o["op"]["st"] == t["st"] and o["idx"] not in first_tx and hdr + o["payload"] == body and o["ev"] <= t.get("ev", 1 << 60) \
                        and rc.ptype(p).lower() == o["op"]["type"]:
                    first_tx[o["idx"]] = t["i"]
                    break
        groups: dict[tuple, list] = {}
        for idx, txi in sorted(first_tx.items(), key=lambda kv: kv[1]):
            o = byidx[idx]
            cls = ("uc", str(o["op"].get("dest"))) if o["op"]["type"] == "guc" else ("bc", "")
            groups.setdefault((o["op"]["st"],) + cls, []).append(idx)
        for (s_, cls, dest), seq in groups.items():
            if seq != sorted(seq):
                sim.violate(ID, "out-of-order", "guc" if cls == "uc" else "broadcast",
                            f"station {s_} emitted its requests {sorted(seq)} in order {seq}" + (f" (destination {dest})" if cls == "uc" else ""))
        by_pair: dict[tuple, list] = {}
        for x in sorted((x for x in inds if "req" in x), key=lambda z: z["ev"]):
            o = byidx[x["req"]]
            if o["op"]["type"] != "shb" or o["got"].get(x["st"], [None])[0] is not x:
                continue
            by_pair.setdefault((o["op"]["st"], x["st"]), []).append(x["req"])
        for (s_, rcv), seq in by_pair.items():
            if seq != sorted(seq):
                sim.violate(ID, "out-of-order", "shb-at-receiver",
                            f"station {rcv} received SHB payloads of station {s_} in order {seq} (request order {sorted(seq)})")


def _rx_dpl(sim, x):
    c = x.get("cause")
    if c and c[0] == "rx" and c[1] < len(sim.hist.rx):
        return sim.hist.rx[c[1]].get("dpl")
    return None


def _type_matches(ind, op) -> bool:
    ptt = ind.gn_packet_transport_type
    ht = ptt.header_type.name
    typ = op["type"]
    if typ == "shb":
        return ht == "TSB" and ptt.header_subtype.name == "SINGLE_HOP"
    if typ == "gbc":
        return ht == "GEOBROADCAST" and ptt.header_subtype.value == op["area"]["shape"]
    if typ == "gac":
        return ht == "GEOANYCAST" and ptt.header_subtype.value == op["area"]["shape"]
    return ht == "GEOUNICAST"


def _check_metadata(sim, o, x, key_base) -> None:
    op = o["op"]
    ind = x["ind"]
    if op["btp"] == "b":
        if ind.destination_port_info != op.get("dpinfo", 0) or ind.destination_port != op["dport"]:
            sim.violate(ID, "wrong-metadata", key_base + "/btp-b-port-info",
                        f"op {o['idx']}: indicated port/info {ind.destination_port}/{ind.destination_port_info}, requested {op['dport']}/{op.get('dpinfo', 0)}")
    else:
        if ind.source_port != op.get("sport", 0) or ind.destination_port != op["dport"]:
            sim.violate(ID, "wrong-metadata", key_base + "/btp-a-source-port",
                        f"op {o['idx']}: indicated dst/src port {ind.destination_port}/{ind.source_port}, requested {op['dport']}/{op.get('sport', 0)}")
    # source position vector: one the sender held between the request and the reception
    held = [pv for (ev, pv) in sim.ego_hist.get(op["st"], []) if ev <= x["ev"]]
    got = pv_tuple(ind.gn_source_position_vector)
    # the value in force at request time is the last one reported before the request event
    before = [pv for (ev, pv) in sim.ego_hist.get(op["st"], []) if ev < o["ev"]]
    window = set(held[len(before) - 1:]) if before else set(held)
    if got not in window:
        exp = sorted(window)[0] if window else None
        field = "?"
        if exp:
            names = ["gn_addr", "tst", "latitude", "longitude", "pai", "speed", "heading"]
            field = next((names[i] for i in range(7) if got[i] != exp[i]), "?")
        sim.violate(ID, "wrong-metadata", key_base + "/source-pv." + field,
                    f"op {o['idx']}: indicated source PV {got[1:]} is none of the sender's ego PVs {sorted(w[1:] for w in window)[:2]}")
    if ind.length != len(x["data"]):
        sim.violate(ID, "wrong-metadata", key_base + "/length", f"op {o['idx']}: length {ind.length} != {len(x['data'])}")
