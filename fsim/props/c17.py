"""C17 - DEN service repeats an event's DENM on schedule with a stable, unique identity; received DENMs are
stored in the LDM at the event position.

Reading of the statement (documented decisions)
* A request (interval i, duration T>0) is judged against exactly ceil(T/i) DENMs handed to the BTP router at
  t0 + k*i (k = 0 .. ceil(T/i)-1) in *virtual* time (tolerance 1 ms; the repetition sleeps on the simulated clock,
  so a station-clock jump moves reference times, not the cadence).  T < i therefore means one DENM.
* T = 0 is ambiguous ("at once" says one, ceil(0/i) says none): zero or one DENM is accepted (probe `t-zero`).
  The collision-risk request of the service access point carries no duration/interval: it is a T = 0 request.
* "circle centred on the event position": GeoBroadcast/circle whose centre equals the requested position
  (+-1 unit of 1e-7 deg for the float TPV of the emergency-vehicle application) and the event position the DENM
  itself carries.  The radius is not constrained by the statement (only a probe when it is 0).
* When one EmergencyVehicleApproachingService object is triggered again while an earlier event is still being
  repeated, the centre may be that of any later trigger of the same object (relaxed, probe
  `reused-service-position-aliased`): the statement does not say whether a second trigger is a new event or an update.
* identity: (header.stationId, actionId.originatingStationId, actionId.sequenceNumber) constant within an event;
  actionId pairwise different between events of one station (events that produced at least one DENM).
* reception: right after the port-2002 callback returned, IF.LDM.4 must return a DENM object with the same
  header/actionId/referenceTime whose stored location has the DENM's eventPosition latitude/longitude.
"""
from __future__ import annotations

import math
import random

from .. import refcodec as rc
from .. import netplan as npl
from ..densim import DenSim, denm_coder
from ..result import finish

ID = "C17"
ENGINE = "fac"
RUNS = {"quick": 2400, "thorough": 60000}
RULE_TEXT = ("one run = one seeded plan: 2-3 real GN+BTP stations each with the real DEN service (receivers with an LDM), "
             "1-6 DEN requests (emergency-vehicle application, direct DENRequest, collision-risk) with interval 100..10000 ms, "
             "duration 0..60 s, positions near the stations and over the signed WGS-84 range, overlapping in time, plus clock jumps, "
             "link send errors, position refreshes and reference-encoded DENMs injected at receivers; repetition threads are parked "
             "SimThreads on the virtual clock; non-trivial = at least one DENM was handed to a BTP router or indicated on port 2002; "
             "distinct = distinct abstract traces (per event: kind, T/i class, count outcome, judged rules; per reception: LDM outcome)")
COMPONENTS = {"real": ["DecentralizedEnvironmentalNotificationService", "DENMTransmissionManagement", "DENMReceptionManagement",
                       "DENMCoder", "EmergencyVehicleApproachingService", "DENRequest", "btp.Router", "geonet.Router",
                       "LDMFactory/LDMFacility (Reactive maintenance+service, Dictionary back-end)"],
              "stub": ["SimLinkLayer (radio)", "virtual clock", "time.sleep / threading.Thread (SimThread)", "GNSS reports",
                       "pass-through security entity (sec=null runs)"]}
ASSUMPTIONS = ["T = 0 accepts zero or one DENM; T < i means exactly one",
               "cadence is judged on the simulated (monotonic) clock with 1 ms tolerance",
               "a collision-risk request through DENRequest.with_collision_risk_warning is a T = 0 request",
               "re-triggering the same EmergencyVehicleApproachingService object while an event is active may move the centre (relaxed)",
               "in sec=none runs the GN router has no SignService (the repository's example wiring); in sec=null runs a pass-through "
               "security entity stands in so that the real GN path carries DENMs to the receivers",
               "LDM presence is demanded immediately after the reception callback returned (time validity of the record is 3 s)"]
EXPECTED_PROBES = ["overlapping-events", "t-not-multiple-of-i", "t-less-than-i", "t-zero", "southern-event", "western-event",
                   "several-events-one-station", "denm-received-via-gn", "ldm-checked", "clock-jump-during-event",
                   "send-error-during-event", "injected-denm", "long-event", "count-judged", "far-event"]

_OPT_DIST = ["lessThan50m", "lessThan100m", "lessThan200m", "lessThan500m", "lessThan1000m", "lessThan5km", "lessThan10km", "over10km"]


def _interval(r):
    c = r.random()
    if c < 0.25:
        return r.choice([100, 10000, 101, 9999, 1000])
    if c < 0.6:
        return r.choice([100, 150, 200, 250, 300, 500, 750, 1000, 2000, 2500, 5000])
    return r.randint(100, 10000)


def _duration(r, i, long_ok):
    c = r.random()
    if c < 0.08:
        return 0
    if c < 0.18:
        return r.randint(1, i - 1)
    if c < 0.26:
        return r.choice([i, i + 1, 2 * i - 1, 2 * i, 2 * i + 1])
    kmax = max(1, min(40, 60000 // i))
    if long_ok and c > 0.97:
        return r.choice([60000, 59999, 60000 - i + 1])
    k = r.randint(1, kmax) if r.random() < 0.7 else r.randint(1, max(1, min(8, kmax)))
    if r.random() < 0.45:
        return min(60000, k * i)
    return min(60000, max(1, k * i - r.randint(1, i - 1)))


def _position(r, base, hemi_ne, stations):
    """(lat_i, lon_i, class)"""
    c = r.random()
    if c < 0.55:
        j = r.randrange(len(stations))
        lat, lon = rc.offset_position(stations[j]["pos"][0], stations[j]["pos"][1], r.uniform(-70, 70), r.uniform(-70, 70))
        cls = "near"
    elif c < 0.62:
        j = r.randrange(len(stations))
        lat, lon = stations[j]["pos"]
        cls = "at-station"
    elif c < 0.9:
        lat, lon = r.randint(-899_999_999, 899_999_999), r.randint(-1_799_999_999, 1_799_999_999)
        cls = "far"
    else:
        lat = r.choice([900_000_000, -900_000_000, 0, 1, -1, r.randint(-900_000_000, 900_000_000)])
        lon = r.choice([1_800_000_000, -1_799_999_999, 0, 1, -1, r.randint(-1_799_999_999, 1_800_000_000)])
        cls = "edge"
    if hemi_ne:
        lat, lon = abs(lat), abs(lon)
    return lat, lon, cls


def gen_plan(run_seed: int, tier: str) -> dict:
    r = random.Random(run_seed)
    sec = "null" if r.random() < 0.5 else "none"      # finding trigger: GN router without SignService
    multi = r.random() < 0.5                           # finding trigger: several events per station
    clean_hemi = r.random() < 0.35
    reuse_svc = r.random() < 0.25
    near_ldm = r.random() < 0.12                       # finding trigger: event on top of the receiver's LDM position
    int_altconf = False                               # integer altitude confidence for CRW: API typing ambiguity (annotation int, coder wants the enumeration name) - not part of the property, not generated
    hemi = "NE" if clean_hemi else r.choice(npl.HEMIS)
    n = r.randint(2, 3)
    blat, blon = npl.base_point(r, hemi)
    macs = npl.unique_macs(r, n)
    mib = {}
    if r.random() < 0.5:
        mib["itsGnDefaultHopLimit"] = r.choice([1, 2, 10])
    if r.random() < 0.4:
        mib["itsGnAreaForwardingAlgorithm"] = r.choice(["SIMPLE", "CBF", "UNSPECIFIED"])
    stations = []
    sids = r.sample(range(1, 4_294_967_295), n)
    if r.random() < 0.1:
        sids[0] = r.choice([0, 4_294_967_295, 1])
    for i in range(n):
        lat, lon = rc.offset_position(blat, blon, r.uniform(-40, 40), r.uniform(-40, 40))
        if hemi == "NE":
            lat, lon = abs(lat), abs(lon)
        stations.append({"mac": macs[i], "st": r.choice([5, 5, 6, 10, 12]), "pos": [lat, lon], "speed": round(r.uniform(0, 30), 2),
                         "track": round(r.uniform(0, 359.9), 1), "mib": dict(mib), "ports": [],
                         "station_id": sids[i], "stype": r.choice([5, 5, 10, 0, 15]), "ldm": r.random() < 0.8})
    ops = []
    n_orig = r.randint(1, n)
    originators = r.sample(range(n), n_orig)
    n_ev = n_orig if not multi else r.randint(2, 6)
    t = r.randint(0, 300_000)
    long_budget = 1
    end = 0
    for e in range(n_ev):
        st = originators[e % n_orig] if not multi else r.choice(originators)
        c = r.random()
        kind = "den_eva" if c < 0.5 else ("den_req" if c < 0.75 else "den_crw")
        i_ms = _interval(r)
        T = _duration(r, i_ms, long_budget > 0)
        if T >= 30000:
            long_budget -= 1
        lat, lon, cls = _position(r, (blat, blon), hemi == "NE", stations)
        op = {"op": kind, "t": t, "st": st, "lat": lat, "lon": lon, "pcls": cls}
        if kind != "den_crw":
            op["interval_ms"], op["duration_ms"] = i_ms, T
            end = max(end, t + (T + i_ms) * 1000)
        if kind == "den_eva":
            op["svc"] = ["shared", 0] if reuse_svc else ["fresh", e]
            if r.random() < 0.3:
                op["alt_m"] = r.choice([0.0, 0.05, 12.5, -50.0, 7000.0, -9000.0, round(r.uniform(-100, 3000), 2)])
        elif kind == "den_req":
            if r.random() < 0.3:
                op["alt"] = r.choice([0, 5, -100000, 800000, r.randint(-100000, 800000)])
            op["heading"] = r.choice([0, 900, 3600, 3601, r.randint(0, 3601)])
            op["speed"] = r.choice([0, 30, 16382, r.randint(0, 16383)])
        else:
            if r.random() < 0.3:
                op["alt"] = r.choice([0, 5, r.randint(-100000, 800000)])
            if int_altconf:
                op["altc"] = 15
        ops.append(op)
        t += r.choice([0, 0, r.randint(0, 400_000), r.randint(0, 3_000_000), r.randint(0, 800_000)])
    if near_ldm:
        rx = [i for i in range(n) if stations[i]["ldm"]]
        tx = [i for i in originators]
        if rx and tx:
            j = r.choice(rx)
            s = r.choice([x for x in tx if x != j] or tx)
            i_ms = r.choice([300, 500, 700])
            ops.append({"op": "den_eva", "t": r.randint(0, 500_000), "st": s, "lat": stations[j]["pos"][0], "lon": stations[j]["pos"][1],
                        "pcls": "at-ldm", "interval_ms": i_ms, "duration_ms": i_ms * r.randint(4, 8), "svc": ["fresh", 99],
                        "alt_m": r.choice([0.0, 0.02, 0.05])})
            end = max(end, 8_000_000)
    # faults / environment
    horizon = max(end, t) + 1
    for _ in range(r.choice([0, 0, 1, 2])):
        ops.append({"op": "clock", "t": r.randint(0, horizon), "st": r.randrange(n),
                    "jump_ms": r.choice([1, 50, 999, 1000, 5000, 3_600_000, r.randint(1, 100_000)])})
    for _ in range(r.choice([0, 0, 1, 3])):
        ops.append({"op": "send_error", "t": r.randint(0, horizon), "st": r.choice(originators), "kind": r.choice(["sending", "toolong"])})
    for _ in range(r.choice([0, 0, 1, 2])):
        i = r.randrange(n)
        lat, lon = rc.offset_position(stations[i]["pos"][0], stations[i]["pos"][1], r.uniform(-30, 30), r.uniform(-30, 30))
        if hemi == "NE":
            lat, lon = abs(lat), abs(lon)
        ops.append({"op": "gnss", "t": r.randint(0, horizon), "st": i, "lat": lat, "lon": lon, "speed": round(r.uniform(0, 30), 2),
                    "track": round(r.uniform(0, 359.9), 1)})
    # reference-encoded DENMs handed to receivers (every management-container content)
    for _ in range(r.choice([0, 1, 1, 2, 3])):
        lat, lon, cls = _position(r, (blat, blon), hemi == "NE", stations)
        if r.random() < 0.1:
            lat, lon = 900000001, 1800000001
        d = {"sid": r.choice([0, 1, 4_294_967_295, r.randrange(4_294_967_296)]), "seq": r.choice([0, 1, 65535, r.randrange(65536)]),
             "det": r.choice([0, 4398046511103, r.randrange(4398046511104)]), "ref": r.choice([0, 4398046511103, r.randrange(4398046511104)]),
             "lat": lat, "lon": lon, "stype": r.choice([0, 5, 15, 255, r.randrange(256)])}
        if r.random() < 0.5:
            d["alt"] = r.choice([-100000, 0, 800000, 800001, r.randint(-100000, 800001)])
            d["altc"] = r.choice(["unavailable", "alt-000-01", "alt-200-00"])
        if r.random() < 0.3:
            d["smaj"], d["smin"], d["sori"] = r.randint(0, 4095), r.randint(0, 4095), r.randint(0, 3601)
        if r.random() < 0.25:
            d["term"] = r.choice(["isCancellation", "isNegation"])
        if r.random() < 0.4:
            d["aware"] = r.choice(_OPT_DIST)
        if r.random() < 0.4:
            d["tdir"] = "allTrafficDirections"
        if r.random() < 0.5:
            d["valid"] = r.choice([0, 600, 86400, r.randint(0, 86400)])
        if r.random() < 0.4:
            d["tint"] = r.choice([1, 100, 10000, r.randint(1, 10000)])
        if r.random() < 0.15:
            d["hsid"] = r.randrange(4_294_967_296)
        if r.random() < 0.2:
            d["situation"] = False
        via = "gn" if (cls in ("near", "at-station") and r.random() < 0.4) else "direct"
        ops.append({"op": "rx_denm", "t": r.randint(0, horizon), "st": r.randrange(n), "denm": d, "via": via})
    ops.sort(key=lambda o: o["t"])
    cfg = {"t0_us": 1_767_225_600_000_000 + r.randrange(0, 86_400_000) * 1000, "net_seed": r.getrandbits(32),
           "latency_us": [100, 2000], "fifo": True, "topology": "mesh", "run_limit_us": horizon + 2_000_000, "max_events": 400_000,
           "sec": sec, "multi": multi, "hemi": hemi, "reuse_svc": reuse_svc, "near_ldm": near_ldm, "int_altconf": int_altconf}
    return {"engine": ENGINE, "property": ID, "config": cfg, "stations": stations, "ops": ops}


# --------------------------------------------------------------------------------------------- oracle
def execute(plan: dict) -> dict:
    sim = DenSim(plan)
    sim.run()
    trace = judge(sim)
    nontrivial = bool(sim.btp_log) or bool(sim.rx_log)
    return finish(sim, trace, nontrivial=nontrivial)


def _decode(data: bytes):
    try:
        return denm_coder().decode(data)
    except Exception:
        return None


def _ident(d: dict):
    m = d["denm"]["management"]
    return (d["header"]["stationId"], m["actionId"]["originatingStationId"], m["actionId"]["sequenceNumber"])


def _path(kind: str) -> str:
    """Code path of a request kind: eva and direct requests share the repetition thread."""
    return "crw" if kind == "crw" else "repeated"


def _exc_name(e) -> str:
    return type(e).__name__


def judge(sim: DenSim) -> list:
    k = sim.kernel
    trace = []
    end_us = k.now_us
    events = [sim.events[i] for i in sorted(sim.events)]
    by_cause: dict = {}
    for rec in sim.btp_log:
        if rec["req"].destination_port == 2002:
            by_cause.setdefault(rec["cause"], []).append(rec)
    thread_err = {}
    for cause, e in sim.thread_errors:
        thread_err.setdefault(cause, []).append(e)
    clock_ops = [o for o in sim.hist.ops if o["op"]["op"] == "clock"]
    senderr_ops = [o for o in sim.hist.ops if o["op"]["op"] == "send_error"]
    # ---- overlap probes
    spans = []
    for ev in events:
        n_exp = math.ceil(ev["duration"] / ev["interval"]) if ev["duration"] > 0 else 0
        ev["n_exp"] = n_exp
        ev["t_last"] = ev["t0"] + max(0, n_exp - 1) * ev["interval"] * 1000
        spans.append((ev["st"], ev["t0"], ev["t_last"]))
    for a in range(len(events)):
        for b in range(a + 1, len(events)):
            ea, eb = events[a], events[b]
            if ea["st"] == eb["st"]:
                sim.probe("several-events-one-station")
                if ea["n_exp"] > 1 and eb["n_exp"] >= 1 and eb["t0"] <= ea["t_last"] and ea["t0"] <= eb["t_last"]:
                    sim.probe("overlapping-events")
    idents_by_station: dict[int, list] = {}
    for ev in events:
        kind, i_ms, T = ev["kind"], ev["interval"], ev["duration"]
        recs = by_cause.get(("op", ev["idx"]), [])
        lat, lon = ev["pos"]
        if lat < 0:
            sim.probe("southern-event")
        if lon < 0:
            sim.probe("western-event")
        if ev["op"].get("pcls") in ("far", "edge"):
            sim.probe("far-event")
        hemi = "NE" if lat >= 0 and lon >= 0 else "neg-coord"
        tcls = "T=0" if T == 0 else ("T<i" if T < i_ms else ("T=k*i" if T % i_ms == 0 else "T!=k*i"))
        if T == 0:
            sim.probe("t-zero")
        elif T < i_ms:
            sim.probe("t-less-than-i")
        elif T % i_ms:
            sim.probe("t-not-multiple-of-i")
        if T >= 30000:
            sim.probe("long-event")
        flags = []
        # -- exceptions raised into the caller / the repetition thread
        excs = ([ev["exc"]] if ev["exc"] is not None else []) + thread_err.get(("op", ev["idx"]), [])
        raised = bool(excs)
        for e in excs[:1]:
            where = "transport" if any(r_["exc"] is e for r_ in recs) else "service"
            sit = ""
            if where == "transport" and sim.cfg.get("sec") != "null" and isinstance(e, NotImplementedError):
                sit = "/no-sign-service"
            sim.violate(ID, "request-raised", f"{_path(kind) if where == 'transport' else kind}/{_exc_name(e)}/{where}{sit}",
                        f"op {ev['idx']}: {kind} request (i={i_ms} ms, T={T} ms, position {lat},{lon}) on station {ev['st']}: "
                        f"{_exc_name(e)}: {str(e)[:160]} after {len(recs)} DENM(s) reached the BTP router")
            flags.append("raised:" + _exc_name(e))
        # -- decode
        dec = []
        for r_ in recs:
            d = _decode(bytes(r_["req"].data))
            dec.append(d)
            if d is None:
                sim.violate(ID, "count", f"{kind}/undecodable", f"op {ev['idx']}: BTP request {len(dec) - 1} of the event carries "
                            f"{len(r_['req'].data)} B that the DENM coder cannot decode")
        # -- count and cadence
        in_window = any(ev["t0"] <= o["t"] <= ev["t_last"] for o in clock_ops if o["op"]["st"] == ev["st"])
        if in_window and ev["n_exp"] > 1:
            sim.probe("clock-jump-during-event")
        if any(ev["t0"] <= o["t"] <= ev["t_last"] for o in senderr_ops if o["op"]["st"] == ev["st"]) and ev["n_exp"] >= 1:
            sim.probe("send-error-during-event")
        complete = end_us >= ev["t_last"] + 1_000_000 and not k.exhausted and ev["gen"] == sim.stations[ev["st"]].gen
        if not raised and complete:
            sim.probe("count-judged")
            n = len(recs)
            if T == 0:
                ok = n in (0, 1)
                exp_txt = "0 or 1"
            else:
                ok = n == ev["n_exp"]
                exp_txt = str(ev["n_exp"])
            if not ok:
                sim.violate(ID, "count", f"{kind}/{tcls}", f"op {ev['idx']}: {kind} request i={i_ms} ms T={T} ms on station {ev['st']} handed "
                            f"{n} DENM(s) to the BTP router, expected {exp_txt} (ceil(T/i))")
                flags.append("count")
            bad = None
            for j, r_ in enumerate(recs[: max(ev["n_exp"], 1)]):
                exp_t = ev["t0"] + j * i_ms * 1000
                if abs(r_["t"] - exp_t) > 1000:
                    bad = (j, r_["t"] - ev["t0"], exp_t - ev["t0"])
                    break
            if bad:
                sim.violate(ID, "cadence", f"{kind}/{'first' if bad[0] == 0 else 'repetition'}",
                            f"op {ev['idx']}: DENM {bad[0]} of the event was handed over {bad[1] / 1000:.3f} ms after the request, "
                            f"expected {bad[2] / 1000:.3f} ms (i={i_ms} ms, T={T} ms)")
                flags.append("cadence")
        # -- area, identity, reference time
        later_same_svc = [e2 for e2 in events if e2 is not ev and ev["svc"] is not None and e2["svc"] == ev["svc"]
                          and e2["st"] == ev["st"] and e2["ev0"] > ev["ev0"]]
        idents = []
        prev_ref = None
        area_done = ident_done = ref_done = False
        for j, (r_, d) in enumerate(zip(recs, dec)):
            req = r_["req"]
            ptt = req.gn_packet_transport_type
            a = req.gn_area
            allowed = [(lat, lon)] + [e2["pos"] for e2 in later_same_svc if e2["ev0"] <= r_["ev"]]
            tol = 1 if kind == "eva" else 0
            shape_ok = ptt.header_type.name == "GEOBROADCAST" and ptt.header_subtype.name == "GEOBROADCAST_CIRCLE"
            centre_ok = any(abs(a.latitude - p[0]) <= tol and abs(a.longitude - p[1]) <= tol for p in allowed)
            own_ok = abs(a.latitude - lat) <= tol and abs(a.longitude - lon) <= tol
            if centre_ok and not own_ok:
                sim.probe("reused-service-position-aliased")
            if a.a == 0:
                sim.probe("circle-radius-zero")
            if not area_done and not shape_ok:
                area_done = True
                sim.violate(ID, "area", f"{kind}/not-a-geobroadcast-circle", f"op {ev['idx']}: DENM {j} requested with transport type "
                            f"{ptt.header_type.name}/{ptt.header_subtype.name}")
                flags.append("area")
            elif not area_done and not centre_ok:
                area_done = True
                sim.violate(ID, "area", f"{kind}/centre/{hemi}", f"op {ev['idx']}: DENM {j} geo-broadcast to a circle centred on "
                            f"({a.latitude},{a.longitude}), event position is ({lat},{lon})")
                flags.append("area")
            if d is None:
                continue
            ep = d["denm"]["management"]["eventPosition"]
            if not area_done and not any(abs(ep["latitude"] - p[0]) <= tol and abs(ep["longitude"] - p[1]) <= tol for p in allowed):
                area_done = True
                sim.violate(ID, "area", f"{kind}/denm-event-position/{hemi}", f"op {ev['idx']}: DENM {j} carries event position "
                            f"({ep['latitude']},{ep['longitude']}), requested ({lat},{lon})")
                flags.append("area")
            if not area_done and shape_ok and (abs(a.latitude - ep["latitude"]) > tol or abs(a.longitude - ep["longitude"]) > tol):
                # whatever the event position is taken to be when one service object is re-triggered: the circle of THIS message
                # must be centred on the event position THIS message carries
                area_done = True
                sim.violate(ID, "area", f"{kind}/centre-vs-carried-position/{hemi}", f"op {ev['idx']}: DENM {j} carries event position "
                            f"({ep['latitude']},{ep['longitude']}) but is geo-broadcast to a circle centred on ({a.latitude},{a.longitude})")
                flags.append("area")
            idt = _ident(d)
            idents.append(idt)
            if not ident_done and idt != idents[0]:
                ident_done = True
                what = "station-id" if idt[0] != idents[0][0] or idt[1] != idents[0][1] else "sequence-number"
                sim.violate(ID, "identity-changed-within-event", f"{kind}/{what}", f"op {ev['idx']}: DENM {j} of the event carries "
                            f"(stationId, actionId) {idt}, DENM 0 carried {idents[0]}")
                flags.append("ident")
            ref = d["denm"]["management"]["referenceTime"]
            if not ref_done and prev_ref is not None and ref < prev_ref:
                ref_done = True
                sim.violate(ID, "reference-time-decreased", kind, f"op {ev['idx']}: DENM {j} has referenceTime {ref} after {prev_ref}")
                flags.append("reftime")
            prev_ref = ref
        if idents:
            idents_by_station.setdefault(ev["st"], []).append((ev, idents[0]))
        trace.append(("ev", kind, tcls, min(len(recs), 3), "+".join(flags) or "ok"))
    # ---- different events of one station carry different action identifiers
    for st, lst in sorted(idents_by_station.items()):
        seen = set()
        for a in range(len(lst)):
            for b in range(a + 1, len(lst)):
                (ea, ia), (eb, ib) = lst[a], lst[b]
                if ia[1:] == ib[1:]:
                    kinds = "+".join(sorted((_path(ea["kind"]), _path(eb["kind"]))))
                    if kinds in seen:
                        continue
                    seen.add(kinds)
                    sim.violate(ID, "identity-shared-across-events", kinds, f"station {st}: events of ops {ea['idx']} and {eb['idx']} both use "
                                f"actionId (originatingStationId={ia[1]}, sequenceNumber={ia[2]})")
                    trace.append(("shared-action-id", kinds))
    # ---- reception: stored in the LDM at the event position
    origin_of = {}
    for ev in events:
        for r_ in by_cause.get(("op", ev["idx"]), []):
            origin_of.setdefault(bytes(r_["req"].data), ev)
    for rx in sim.rx_log:
        d = _decode(rx["data"])
        ev = origin_of.get(rx["data"])
        origin = ev["kind"] if ev is not None else "injected"
        if ev is None:
            sim.probe("injected-denm")
        if rx["cause"] and rx["cause"][0] == "rx":
            sim.probe("denm-received-via-gn")
        if d is None:
            trace.append(("rx", origin, "undecodable"))
            continue
        if rx["exc"] is not None:
            sim.violate(ID, "request-raised", f"reception/{origin}/{_exc_name(rx['exc'])}", f"station {rx['st']}: reception callback raised "
                        f"{_exc_name(rx['exc'])}: {str(rx['exc'])[:160]} for a decodable DENM")
        if not rx["has_ldm"]:
            trace.append(("rx", origin, "no-ldm"))
            continue
        sim.probe("ldm-checked")
        m = d["denm"]["management"]
        ep = m["eventPosition"]
        st_pos = sim.stations[rx["st"]].spec["pos"]
        at_ldm = math.hypot(ep["latitude"] - st_pos[0], ep["longitude"] - st_pos[1]) < 1001 \
            and ep["altitude"]["altitudeValue"] < 64
        if at_ldm:
            sim.probe("event-within-10m-of-ldm-position")
        if rx["ldm_exc"] is not None:
            sim.violate(ID, "not-in-ldm", f"ldm-query-raised:{_exc_name(rx['ldm_exc'])}/{origin}", f"station {rx['st']}: IF.LDM.4 request raised "
                        f"{_exc_name(rx['ldm_exc'])}: {str(rx['ldm_exc'])[:160]}")
            trace.append(("rx", origin, "query-raised"))
            continue
        same = [o for o in rx["ldm"] if isinstance(o[3], dict) and _same_denm(o[3], d)]
        if not same:
            sim.violate(ID, "not-in-ldm", "absent/event-at-ldm-position" if at_ldm else f"absent/{origin}", f"station {rx['st']}: DENM (stationId {d['header']['stationId']}, actionId "
                        f"{m['actionId']['originatingStationId']}/{m['actionId']['sequenceNumber']}, referenceTime {m['referenceTime']}, "
                        f"event position {ep['latitude']},{ep['longitude']}, altitude {ep['altitude']['altitudeValue']}) is not returned by the LDM "
                        f"right after reception ({len(rx['ldm'])} DENM objects stored"
                        + (f"; callback raised {_exc_name(rx['exc'])}" if rx["exc"] is not None else "") + ")")
            trace.append(("rx", origin, "absent"))
            continue
        if not any(o[0] == ep["latitude"] and o[1] == ep["longitude"] for o in same):
            o = same[0]
            sim.violate(ID, "not-in-ldm", f"wrong-position/{origin}", f"station {rx['st']}: DENM stored at ({o[0]},{o[1]}), its event position is "
                        f"({ep['latitude']},{ep['longitude']})")
            trace.append(("rx", origin, "wrong-position"))
            continue
        if not any(o[2] == ep["altitude"]["altitudeValue"] for o in same):
            sim.probe("ldm-altitude-differs")
        trace.append(("rx", origin, "stored"))
    for cause, e in sim.thread_errors:
        if not (cause and cause[0] == "op" and cause[1] in sim.events):
            sim.violate(ID, "request-raised", f"thread/{_exc_name(e)}", f"a DEN thread not attributable to a request raised {_exc_name(e)}: {str(e)[:160]}")
    return trace


def _same_denm(stored: dict, d: dict) -> bool:
    try:
        return (stored["header"]["stationId"] == d["header"]["stationId"]
                and stored["denm"]["management"]["actionId"] == d["denm"]["management"]["actionId"]
                and stored["denm"]["management"]["referenceTime"] == d["denm"]["management"]["referenceTime"]
                and stored["denm"]["management"]["detectionTime"] == d["denm"]["management"]["detectionTime"])
    except (KeyError, TypeError):
        return False
