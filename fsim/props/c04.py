"""C04 - no received frame can stop or derail the receive path."""
from __future__ import annotations

import copy
import logging
import random

from .. import refcodec as rc
from .. import netplan as npl
from .. import facsim
from ..kernel import HarnessError
from ..patching import Patches
from ..rxsim import RxSim, Host, BCAST, ETHERTYPE
from ..result import finish

ID = "C04"
ENGINE = "rx"
RUNS = {"quick": 1600, "thorough": 20000}
RULE_TEXT = ("one run = a scripted stream of 20-120 link-layer frames fed to the REAL receive loop (RawLinkLayer.receive on a fake socket, or "
             "PythonCV2XLinkLayer.callback_handler_loop on a fake queue) of a station wired like examples/all_sender_and_receiver.py "
             "(GN+BTP, CA/DEN/VRU reception with or without LDM, security off or on): genuine CAM/VAM/DENM traffic of peer stacks and "
             "reference-encoded packets of every type, interleaved at seeded positions with random bytes, grammar-based malformed frames "
             "(reserved NH/HT/HST/ST, version != 1, RHL > MHL, zero-sized areas, truncation at every header boundary), bit/byte/length "
             "mutations of valid unsecured and secured frames, undecodable facility payloads, own-MAC and foreign-unicast frames; a twin "
             "station receives only the well-formed frames; non-trivial = at least one bad frame was followed by a well-formed one; "
             "distinct = distinct sequences of frame classes")
COMPONENTS = {"real": ["linklayer.RawLinkLayer (ctor, send, receive loop)", "linklayer.PythonCV2XLinkLayer (ctor, callback_handler_loop)",
                       "geonet.Router", "btp.Router", "CAM/VAM/DENM reception managements and LDM adaptation", "LDM (Dictionary, reactive)",
                       "VerifyService / CertificateLibrary when secured"],
              "stub": ["socket module", "cv2xlinklayer extension module", "multiprocessing (queue/process)", "clock", "threads"]}
ASSUMPTIONS = ["'malformed' is decided by the reference parser (fsim/refcodec.py) plus: station type > 12, zero-sized area; secured frames are "
               "well-formed iff the independent verifier accepts them under a known genuine ticket",
               "NotImplementedError raised by the router for unsupported-but-parsable packets and caught by the loop itself is the stack's "
               "designed discard path: counted, not judged; any exception that ends the loop is judged",
               "peer tickets are pre-loaded on both twins when security is on, so certificate learning cannot differ"]
EXPECTED_PROBES = ["bad:random", "bad:truncated", "bad:rhl>mhl", "bad:ht-unsupported", "bad:st-reserved", "bad:area-zero", "bad:version",
                   "bad:sec-invalid", "facility-undecodable", "mac:own-src", "mac:foreign-dst", "wellformed-after-bad", "link:raw", "link:cv2x",
                   "secure-run", "ldm-run"]

facsim_warm = False


def _warm():
    global facsim_warm
    if not facsim_warm:
        facsim.warm(["cam", "vam", "denm"])
        facsim_warm = True


GEN_KINDS = ["cam", "vam", "denm", "pkt"]


def gen_plan(run_seed: int, tier: str) -> dict:
    r = random.Random(run_seed ^ 0xC04C04)
    secure = r.random() < 0.3
    link = "raw" if r.random() < 0.8 else "cv2x"
    blat, blon = npl.base_point(r, r.choice(npl.HEMIS))
    macs = npl.unique_macs(r, 6)
    fac = r.choice([["ca", "den", "vru"], ["ca", "den", "vru"], ["ca"], ["den"], ["vru"], ["ca", "vru"], []])
    dut = {"mac": macs[0], "st": 5, "pos": [blat, blon], "facilities": fac, "ldm": r.random() < 0.5, "secure": secure, "station_id": 4242,
           "extra_ports": [r.randrange(65536)],
           "mib": {"itsGnAreaForwardingAlgorithm": r.choice(["SIMPLE", "CBF", "UNSPECIFIED"]), "itsGnLocationServiceRetransmitTimer": 100,
                   "itsGnLocationServiceMaxRetrans": 1}}
    peers = []
    for i in range(1, 4):
        lat, lon = rc.offset_position(blat, blon, r.uniform(-200, 200), r.uniform(-200, 200))
        peers.append({"mac": macs[i], "st": r.randint(0, 11), "pos": [lat, lon], "station_id": 1000 + i})
    ops = []
    t = 1000
    sn = r.randrange(60000)
    n = r.randint(20, 120)
    clean = r.random() < 0.15          # no bad frames at all (baseline differential must be silent)

    def valid_item():
        nonlocal sn
        c = r.random()
        peer = r.randrange(len(peers))
        if c < 0.25 and "ca" in fac or c < 0.1:
            return {"k": "cam", "peer": peer, "gdt": r.randrange(65536), "speed": r.randrange(0, 8000)}
        if c < 0.45 and "vru" in fac or c < 0.2:
            return {"k": "vam", "peer": peer, "gdt": r.randrange(65536)}
        if c < 0.6 and "den" in fac or c < 0.3:
            return {"k": "denm", "peer": peer, "seq": r.randrange(65536)}
        typ = r.choice(npl.PKT_TYPES)
        sn = (sn + 1) % 65536
        src = peers[peer]
        kw = {"sn": sn}
        if typ in ("GBC", "GAC"):
            kw["area"] = {"lat": blat, "lon": blon, "a": r.choice([50, 500, 1500]), "b": r.choice([50, 500, 1500]), "angle": r.choice([0, r.randint(0, 359)])}
        if typ in ("GUC", "LSREP", "LSREQ") and r.random() < 0.5:
            kw["dest_addr"] = rc.enc_addr(0, 5, bytes.fromhex(macs[0])).hex()
        so = npl.rand_lpv(r, rc.enc_addr(0, src["st"], bytes.fromhex(src["mac"])).hex(), pos=src["pos"], full_range=False)
        port = r.choice([2001, 2002, 2018, dut["extra_ports"][0], r.randrange(65536)])
        pkt = npl.rand_pkt(r, typ, src["mac"], so=so, dport=port, lt=r.choice([26, 40, 100, r.randrange(256)]), **kw)
        pkt["common"]["tc"] &= 0x7F
        return {"k": "pkt", "pkt": pkt}

    def malformed_pkt():
        """Grammar-based: a conformant description with one field pushed outside what the standard allows."""
        it = valid_item()
        while it["k"] != "pkt":
            it = valid_item()
        pkt = it["pkt"]
        c = r.choice(["bnh", "cnh", "ht", "hst", "version", "rhl>mhl", "area-zero", "st", "reserved-bits"])
        if c == "bnh":
            it["patch"] = [[0, 0xF0, r.choice([0, 3, 4, 7, 15])]]
        elif c == "cnh":
            it["patch"] = [[4, 0x0F, r.choice([4, 5, 8, 15]) << 4]]
        elif c == "ht":
            it["patch"] = [[5, 0x0F, r.choice([0, 7, 8, 15]) << 4]]
        elif c == "hst":
            it["patch"] = [[5, 0xF0, r.choice([3, 4, 7, 15]) if pkt["common"]["ht"] in (3, 4) else r.choice([2, 3, 15])]]
        elif c == "version":
            it["patch"] = [[0, 0x0F, r.choice([0, 2, 3, 15]) << 4]]
        elif c == "rhl>mhl":
            pkt["common"]["mhl"] = r.choice([0, 1, 5, 254])
            pkt["basic"]["rhl"] = r.choice([pkt["common"]["mhl"] + 1, 255])
        elif c == "area-zero":
            if "area" not in pkt:
                pkt = npl.rand_pkt(r, r.choice(["GBC", "GAC"]), peers[0]["mac"], so=pkt["so"], sn=r.randrange(65536), lt=26)
                it["pkt"] = pkt
            z = r.choice(["a", "b", "ab"])
            if "a" in z:
                pkt["area"]["a"] = 0
            if "b" in z:
                pkt["area"]["b"] = 0
        elif c == "st":
            a = bytearray(bytes.fromhex(pkt["so"]["addr"]))
            a[0] = (a[0] & 0x83) | (r.choice([13, 14, 15, 16, 31]) << 2)
            pkt["so"]["addr"] = bytes(a).hex()
        else:
            pkt["basic"]["reserved"] = r.randrange(1, 256)
            pkt["common"]["res1"] = r.randrange(16)
        return it

    for i in range(n):
        t += r.choice([0, r.randint(0, 2000), r.randint(0, 60000)])
        c = r.random()
        if clean or c < 0.45:
            op = valid_item()
        elif c < 0.55:
            op = {"k": "raw", "hex": bytes(r.getrandbits(8) for _ in range(r.choice([0, 1, 2, 3, 4, 7, 11, 12, 13, 35, 36, 40, r.randint(0, 200), r.randint(0, 1486)]))).hex()}
        elif c < 0.7:
            op = malformed_pkt()
        elif c < 0.9:
            base = valid_item()
            kind = r.choice(["bitflip", "bitflip", "byte", "trunc", "trunc-boundary", "extend"])
            op = {"k": "mut", "base": base, "mutation": {"kind": kind, "pos": r.random(), "val": r.randrange(256), "n": r.randint(1, 40)}}
        elif c < 0.95:
            op = {"k": "eth", "variant": r.choice(["own-src", "foreign-dst"]), "base": valid_item()}
        else:
            # valid GN + BTP towards a facility port, payload the facility cannot decode
            it = valid_item()
            while it["k"] != "pkt" or it["pkt"]["common"]["ht"] not in (4, 5) or "area" in it["pkt"] and False:
                it = valid_item()
            it["pkt"]["common"]["nh"] = 2
            it["pkt"]["payload"] = (rc.enc_btp(r.choice([2001, 2002, 2018]), 0) + bytes(r.getrandbits(8) for _ in range(r.choice([0, 1, 5, 40])))).hex()
            it["garbage_payload"] = True
            op = it
        op["t"] = t
        ops.append(op)
    cfg = {"t0_us": 1_767_225_600_000_000 + r.randrange(3600, 86_400_000) * 1000, "net_seed": r.getrandbits(32), "link": link,
           "secure": secure, "run_limit_us": t + 2_000_000, "clean": clean, "pki_seed": r.randrange(4)}
    return {"engine": ENGINE, "property": ID, "config": cfg, "dut": dut, "peers": peers, "ops": ops}


# ------------------------------------------------------------------------------------------------ execution
class Peer:
    """A genuine peer stack (real GN + BTP, capturing link layer) producing CAM / VAM / DENM frames."""

    def __init__(self, sim, idx: int, spec: dict, secure: bool):
        from flexstack.geonet.router import Router as GNRouter
        from flexstack.geonet.mib import MIB, GnSecurity
        from flexstack.geonet.gn_address import GNAddress, M, ST, MID
        from flexstack.btp.router import Router as BTPRouter
        from flexstack.linklayer.link_layer import LinkLayer
        from ..netsim import iso_time
        self.spec = spec
        self.sent = []
        kw = {"itsGnLocalGnAddr": GNAddress(m=M(0), st=ST(spec["st"]), mid=MID(bytes.fromhex(spec["mac"])))}
        sign = verify = None
        if secure:
            kw["itsGnSecurity"] = GnSecurity.ENABLED
            sign, verify = sim.pki.services_for(idx + 1)
        self.gn = GNRouter(MIB(**kw), sign_service=sign, verify_service=verify)
        peer = self

        class Cap(LinkLayer):
            def __init__(self):
                super().__init__(lambda b: None)

            def send(self, packet):
                peer.sent.append(bytes(packet))
        self.gn.link_layer = Cap()
        self.btp = BTPRouter(self.gn)
        self.btp.freeze_callbacks()
        self.gn.refresh_ego_position_vector({"class": "TPV", "lat": spec["pos"][0] / 1e7, "lon": spec["pos"][1] / 1e7, "speed": 1.0,
                                             "track": 10.0, "time": iso_time(sim.kernel.now_us)})

    def frame(self, sim, item: dict, dut_pos) -> bytes:
        from flexstack.btp.service_access_point import BTPDataRequest
        from flexstack.geonet.service_access_point import PacketTransportType, HeaderType, TopoBroadcastHST, GeoBroadcastHST, Area, CommonNH
        from flexstack.security.security_profiles import SecurityProfile
        from ..netsim import iso_time
        self.gn.refresh_ego_position_vector({"class": "TPV", "lat": self.spec["pos"][0] / 1e7, "lon": self.spec["pos"][1] / 1e7, "speed": 1.0,
                                             "track": 10.0, "time": iso_time(sim.kernel.now_us)})
        k = item["k"]
        if k == "cam":
            from flexstack.facilities.ca_basic_service.cam_transmission_management import CooperativeAwarenessMessage
            msg = copy.deepcopy(CooperativeAwarenessMessage.generate_white_cam_static())
            msg["header"]["stationId"] = self.spec["station_id"]
            msg["cam"]["generationDeltaTime"] = item.get("gdt", 0)
            data = facsim.coder("cam").encode(msg)
            req = BTPDataRequest(btp_type=CommonNH.BTP_B, destination_port=2001, gn_packet_transport_type=PacketTransportType(
                header_type=HeaderType.TSB, header_subtype=TopoBroadcastHST.SINGLE_HOP), security_profile=SecurityProfile.COOPERATIVE_AWARENESS_MESSAGE,
                its_aid=36, data=data, length=len(data))
        elif k == "vam":
            from flexstack.facilities.vru_awareness_service.vam_transmission_management import VAMMessage
            msg = copy.deepcopy(VAMMessage.generate_white_vam_static())
            msg["header"]["stationId"] = self.spec["station_id"]
            msg["vam"]["generationDeltaTime"] = item.get("gdt", 0)
            data = facsim.coder("vam").encode(msg)
            req = BTPDataRequest(btp_type=CommonNH.BTP_B, destination_port=2018, gn_packet_transport_type=PacketTransportType(
                header_type=HeaderType.TSB, header_subtype=TopoBroadcastHST.SINGLE_HOP), security_profile=SecurityProfile.VRU_AWARENESS_MESSAGE,
                its_aid=638, data=data, length=len(data))
        else:
            from flexstack.facilities.decentralized_environmental_notification_service.denm_transmission_management import \
                DecentralizedEnvironmentalNotificationMessage
            m = DecentralizedEnvironmentalNotificationMessage()
            msg = copy.deepcopy(m.denm)
            msg["header"]["stationId"] = self.spec["station_id"]
            msg["denm"]["management"]["actionId"] = {"originatingStationId": self.spec["station_id"], "sequenceNumber": item.get("seq", 0)}
            msg["denm"]["management"]["eventPosition"]["latitude"] = dut_pos[0]
            msg["denm"]["management"]["eventPosition"]["longitude"] = dut_pos[1]
            data = facsim.coder("denm").encode(msg)
            req = BTPDataRequest(btp_type=CommonNH.BTP_B, destination_port=2002, gn_packet_transport_type=PacketTransportType(
                header_type=HeaderType.GEOBROADCAST, header_subtype=GeoBroadcastHST.GEOBROADCAST_CIRCLE),
                gn_area=Area(a=1000, b=0, angle=0, latitude=dut_pos[0], longitude=dut_pos[1]), gn_max_hop_limit=2,
                security_profile=SecurityProfile.DECENTRALIZED_ENVIRONMENTAL_NOTIFICATION_MESSAGE, its_aid=37, data=data, length=len(data))
        n0 = len(self.sent)
        self.btp.btp_data_request(req)
        if len(self.sent) != n0 + 1:
            raise HarnessError("peer stack did not emit exactly one frame")
        return self.sent[-1]


def mutate(frame: bytes, m: dict) -> bytes:
    if not frame:
        return frame
    kind = m["kind"]
    pos = min(len(frame) - 1, int(m["pos"] * len(frame)))
    b = bytearray(frame)
    if kind == "bitflip":
        b[pos] ^= 1 << (m["val"] & 7)
    elif kind == "byte":
        b[pos] = m["val"]
    elif kind == "trunc":
        b = b[:pos]
    elif kind == "trunc-boundary":
        cuts = [0, 1, 3, 4, 5, 11, 12, 13, 35, 36, 39, 40, 55, 56, 59, 60]
        b = b[:cuts[int(m["pos"] * len(cuts)) % len(cuts)]]
    elif kind == "extend":
        b = b + bytes([(m["val"] + i) & 0xFF for i in range(m["n"])])
    return bytes(b)


class Sim(RxSim):
    def build_gn(self, item: dict, peers, dut_pos) -> bytes:
        k = item["k"]
        if k in ("cam", "vam", "denm"):
            return peers[item["peer"]].frame(self, item, dut_pos)
        if k == "pkt":
            b = bytearray(rc.build_packet(_resolve(self, item["pkt"])))
            for off, keep, val in item.get("patch", []):
                if off < len(b):
                    b[off] = (b[off] & keep) | val
            return bytes(b)
        if k == "raw":
            return bytes.fromhex(item["hex"])
        if k == "mut":
            return mutate(self.build_gn(item["base"], peers, dut_pos), item["mutation"])
        if k == "eth":
            return self.build_gn(item["base"], peers, dut_pos)
        raise HarnessError("bad item " + k)

    def classify(self, item: dict, gn: bytes, secure: bool) -> str:
        """'ok' (well-formed: goes to both twins) or 'bad:<class>'."""
        if item["k"] == "raw":
            base = "random"
        try:
            p = rc.parse_packet(gn)
        except rc.Malformed as e:
            if item["k"] == "raw":
                return "bad:random"
            kl = e.klass
            if kl.startswith("short"):
                return "bad:truncated"
            return "bad:" + {"bnh-unsupported": "bnh-unsupported", "cnh-reserved": "cnh-reserved"}.get(kl, kl)
        if "secured" in p:
            if not secure:
                return "ok"          # no verify service: discarded silently by both
            from .. import seccrypto as sc
            for tb in self.pki.ticket_bytes[1:]:
                try:
                    res = sc.verify_signed_message(p["secured"], tb)
                except Exception:
                    res = None
                if res is not None and res.ok:
                    try:
                        inner = rc.parse_common_on(res.payload)
                    except rc.Malformed:
                        return "bad:sec-inner-malformed"
                    except Exception:
                        return "bad:sec-invalid"
                    return self._semantic(inner) or "ok"
            return "bad:sec-invalid"
        return self._semantic(p) or "ok"

    @staticmethod
    def _semantic(p: dict):
        if p["so"]["addr"]["st"] > 12:
            return "bad:st-reserved"
        for kx in ("de",):
            if kx in p and p[kx]["addr"]["st"] > 12:
                return "bad:st-reserved"
        if "req_addr" in p and ((p["req_addr"][0] >> 2) & 0x1F) > 12:
            return "bad:st-reserved"
        if "area" in p:
            shape = p["common"]["hst"]
            if p["area"]["a"] == 0 or (shape != 0 and p["area"]["b"] == 0):
                return "bad:area-zero"
        return None       # (reserved bits set: receivers ignore them; well-formed for our purposes)


def _resolve(sim, pkt):
    now_ms = sim.kernel.now_us // 1000

    def pv(d):
        o = dict(d)
        o["addr"] = bytes.fromhex(d["addr"])
        if "tst" not in o:
            o["tst"] = rc.tst_from_unix_ms(now_ms + d.get("tst_off_ms", 0))
        return o
    p = {"basic": dict(pkt["basic"]), "common": dict(pkt["common"]), "so": pv(pkt["so"])}
    for kx in ("sn", "ext_reserved"):
        if kx in pkt:
            p[kx] = pkt[kx]
    if "de" in pkt:
        p["de"] = pv(pkt["de"])
    if "area" in pkt:
        p["area"] = dict(pkt["area"])
    if "req_addr" in pkt:
        p["req_addr"] = bytes.fromhex(pkt["req_addr"])
    p["payload"] = bytes.fromhex(pkt.get("payload", ""))
    return p


def execute(plan: dict) -> dict:
    _warm()
    sim = Sim(plan)
    cfg = plan["config"]
    k = sim.kernel
    secure = cfg.get("secure", False)
    logging.disable(logging.CRITICAL)
    trace = []
    with Patches() as p:
        p.mute_stdout()
        sim.patches(p)
        try:
            if secure:
                from .. import seccrypto as sc
                sim.pki = sc.make_pki(("c04", cfg.get("pki_seed", 0)), n_tickets=1 + len(plan["peers"]), now=sc.its_s(cfg["t0_us"] // 1_000_000 - 3600))
                sim.probe("secure-run")
            dut = Host(sim, "dut", plan["dut"], cfg["link"])
            twin = Host(sim, "twin", plan["dut"], cfg["link"])
            peers = [Peer(sim, i, s, secure) for i, s in enumerate(plan["peers"])]
            sim.probe("link:" + cfg["link"])
            if plan["dut"].get("ldm"):
                sim.probe("ldm-run")
            k.run(k.now_us + 10)
            state = {"dead": False, "bad_seen": False, "n": 0}
            dut_mac = dut.mac

            def step(idx, item):
                if state["dead"]:
                    return
                gn = sim.build_gn(item, peers, plan["dut"]["pos"])
                src_mac = bytes.fromhex(plan["peers"][item.get("peer", 0) % len(plan["peers"])]["mac"])
                dst = BCAST
                cls = sim.classify(item, gn, secure)
                if item["k"] == "eth" and cfg["link"] == "raw":     # (the C-V2X link layer carries no MAC addresses)
                    if item["variant"] == "own-src":
                        src_mac = dut_mac
                        cls = "mac:own-src"
                    else:
                        dst = bytes.fromhex(plan["peers"][0]["mac"])
                        cls = "mac:foreign-dst"
                if item.get("garbage_payload") and cls == "ok":
                    sim.probe("facility-undecodable")
                eth = dst + src_mac + ETHERTYPE + gn
                k.record("frame", idx, cls, gn)
                trace.append((cls,))
                calls0 = len(dut.router_calls)
                esc0 = len(dut.escaped)
                before = None
                dut.feed(eth)
                if cls == "ok":
                    twin.feed(eth)
                    if state["bad_seen"]:
                        sim.probe("wellformed-after-bad")
                else:
                    sim.probe(cls)
                    sim.fault(cls.split(":")[0] + ":" + cls.split(":")[1] if ":" in cls else cls)
                    state["bad_seen"] = True
                state["last"] = (idx, item, cls, calls0, esc0, before)

            def check(idx, item):
                if state["dead"]:
                    return
                _, _, cls, calls0, esc0, before = state["last"]
                judged_cv2x = cfg["link"] == "cv2x"
                for (ci, e) in dut.escaped[esc0:]:
                    if isinstance(e, NotImplementedError):
                        sim.probe("exception-handled-by-loop:NotImplementedError")
                    else:
                        sim.probe("exception-into-loop:" + type(e).__name__)
                if not dut.alive():
                    state["dead"] = True
                    exc = dut.escaped[-1][1] if dut.escaped else None
                    sim.violate(ID, "rx-thread-died", f"{type(exc).__name__ if exc else 'unknown'}/{cls}/{cfg['link']}",
                                f"frame #{idx} ({cls}, {item['k']}) ended the {cfg['link']} receive loop: {exc!r}")
                    return
                if not twin.alive():
                    state["dead"] = True
                    exc = twin.escaped[-1][1] if twin.escaped else None
                    sim.violate(ID, "rx-thread-died", f"{type(exc).__name__ if exc else 'unknown'}/well-formed/{cfg['link']}",
                                f"well-formed frame #{idx} ({item['k']}) ended the receive loop of the twin: {exc!r}")
                    return
                if cls.startswith("mac:") and cfg["link"] == "raw":
                    if len(dut.router_calls) != calls0:
                        sim.violate(ID, "own-or-foreign-mac-delivered", cls, f"frame #{idx} ({cls}) was handed to the GN router")
                if cls != "ok" and not (cls.startswith("mac:") and judged_cv2x):
                    # the twin did not get this frame; both have the same timers, so anything the bad frame left behind is a difference
                    d = diff(snapshot(twin), snapshot(dut))
                    if d:
                        state["dead"] = True
                        sim.violate(ID, "state-changed-by-bad-frame", f"{cls}/{d[0]}", f"bad frame #{idx} ({cls}) changed the station: {d[0]}: {d[1]}")
                if cls == "ok":
                    a, b = snapshot(dut), snapshot(twin)
                    d = diff(b, a)
                    if d:
                        state["dead"] = True      # the twins have diverged: later comparisons would only repeat it
                        sim.violate(ID, "valid-frame-handled-differently", f"{d[0]}/{item['k']}",
                                    f"after well-formed frame #{idx} ({item['k']}) the station differs from its twin (which never saw the bad frames) in {d[0]}: {d[1]}")

            for idx, item in enumerate(plan["ops"]):
                k.run(max(k.now_us, k.t0_us + item["t"]))      # virtual time passes (timers of both twins fire)
                k.current_cause = ("op", idx)
                step(idx, item)
                k.current_cause = None
                k.run(k.now_us + 50)                           # let the receive threads process the frame (zero virtual cost)
                if "last" in state and state["last"][0] == idx:
                    check(idx, item)
            # end of script: the loops leave only through the scripted end
            dut.end()
            twin.end()
            k.run(k.now_us + 1000)
            if not state["dead"] and dut.alive():
                sim.violate(ID, "rx-thread-died", "did-not-end/" + cfg["link"], "the receive loop did not end at the scripted end of stream")
        finally:
            k.shutdown()
            logging.disable(logging.NOTSET)
    nontrivial = bool(sim.probes.get("wellformed-after-bad"))
    return finish(sim, trace, nontrivial=nontrivial)


def snapshot(h: Host) -> dict:
    return {"handled": [(p, d, e) for (p, d, e) in h.handled], "emitted": h.emitted(), "loct": h.loct(), "trust": h.trust(), "ldm": h.ldm_count()}


def diff(a: dict, b: dict):
    for key in ("handled", "emitted", "loct", "trust", "ldm"):
        if a[key] != b[key]:
            x, y = a[key], b[key]
            if isinstance(x, list) and isinstance(y, list):
                n = min(len(x), len(y))
                i = next((i for i in range(n) if x[i] != y[i]), n)
                return key, f"first difference at index {i}: {_short(x[i]) if i < len(x) else 'missing'} vs {_short(y[i]) if i < len(y) else 'missing'} (lengths {len(x)}/{len(y)})"
            return key, f"{x!r} vs {y!r}"
    return None


def _short(v):
    s = repr(v)
    return s if len(s) < 160 else s[:157] + "..."
