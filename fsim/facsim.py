"""`fac` engine: CA / VRU / DEN facilities on the virtual clock, driven by a simulated GNSS.

Real code: CooperativeAwarenessBasicService + CAMTransmissionManagement (T_CheckCamGen timer loop),
VRUAwarenessService + VAMTransmissionManagement + VBSClusteringManager, DEN service +
EmergencyVehicleApproachingService, CAM/VAM reception managements (receiver side), the three UPER coders.
Stubs: BTP router (records every BTPDataRequest, time-stamped by the virtual clock), GNSS (plan ops carrying
gpsd-shaped TPV dicts), clock, timers, threads, PRNG.

Observation point (properties C10/C11): the BTPDataRequest objects handed to the BTP router.  Everything the
oracles use is in `FacSim.log`, an ordered list of observations:
  {"k": "svc",  "t", "svc": "ca"|"vru", "action"}         service (de)activation by the plan
  {"k": "tpv",  "t", "i", "tpv", "to": [...]}              report handed to the location callbacks
  {"k": "tick", "t"}                                       T_CheckCamGen expiry (timer seam)
  {"k": "btp",  "t", "n", "port", "data", "req"}           BTPDataRequest reached the BTP router
  {"k": "exc",  "t", "where", "exc"}                       exception escaped code under test at the harness boundary
  {"k": "logexc", "t", "logger", "exc"}                    exception swallowed + logged by the service (logging seam)
  {"k": "fault","t", "kind"}                               injected fault fired
  {"k": "rx",   "t", "n", "port", "clock_ms", "utc"}       receiver-side reconstruction result
  {"k": "state","t", "vbs": "..."}                         VBS state sampled by the harness before a report
"""
from __future__ import annotations

import logging
import math
import random
import time as _time_mod
from typing import Any, Optional

from .kernel import make_classes, ThreadingFacade, TimeFacade
from .patching import patch_core, RandomFacade
from .netsim import NetSim, keyed_unit, iso_time

ITS_EPOCH_MS = 1_072_915_200_000      # 2004-01-01T00:00:00Z in Unix ms
LEAP_MS = 5_000                       # TAI-UTC change since 2004 (what the repo's time_service adds)
GDT_MOD = 65_536

T0_2026_US = 1_767_225_600_000_000

# ------------------------------------------------------------------------------------------ time helpers


def _days_from_civil(y: int, m: int, d: int) -> int:
    y -= m <= 2
    era = (y if y >= 0 else y - 399) // 400
    yoe = y - era * 400
    doy = (153 * (m + (-3 if m > 2 else 9)) + 2) // 5 + d - 1
    doe = yoe * 365 + yoe // 4 - yoe // 100 + doy
    return era * 146097 + doe - 719468


def parse_iso_ms(s: str) -> int:
    """'YYYY-MM-DDTHH:MM:SS[.fff]Z' -> Unix milliseconds (integer arithmetic only; independent of dateutil)."""
    s = s.strip()
    if s.endswith("Z"):
        s = s[:-1]
    date, tm = s.split("T")
    y, mo, d = (int(x) for x in date.split("-"))
    hh, mm, ss = tm.split(":")
    if "." in ss:
        sec, frac = ss.split(".")
        ms = int((frac + "000")[:3])
    else:
        sec, ms = ss, 0
    days = _days_from_civil(y, mo, d)
    return ((days * 24 + int(hh)) * 60 + int(mm)) * 60_000 + int(sec) * 1000 + ms


def its_ms_of_unix_ms(unix_ms: int) -> int:
    return unix_ms - ITS_EPOCH_MS + LEAP_MS


def gdt_of_tpv(tpv: dict) -> Optional[int]:
    if "time" not in tpv:
        return None
    return its_ms_of_unix_ms(parse_iso_ms(tpv["time"])) % GDT_MOD


# ------------------------------------------------------------------------------------------ coders (pure singletons)
_CODERS: dict[str, Any] = {}


def coder(name: str):
    """Process-wide lazily built coder ('cam' | 'vam' | 'denm').  ASN.1 compilation costs seconds; the objects are pure."""
    c = _CODERS.get(name)
    if c is None:
        if name == "cam":
            from flexstack.facilities.ca_basic_service.cam_coder import CAMCoder
            c = CAMCoder()
        elif name == "vam":
            from flexstack.facilities.vru_awareness_service.vam_coder import VAMCoder
            c = VAMCoder()
        elif name == "denm":
            from flexstack.facilities.decentralized_environmental_notification_service.denm_coder import DENMCoder
            c = DENMCoder()
        else:
            raise KeyError(name)
        _CODERS[name] = c
    return c


def warm(names) -> None:
    """Build coders now (called at import of a property module so that forked workers inherit them)."""
    for n in names:
        coder(n)


# ------------------------------------------------------------------------------------------ geometry (oracle side)
def gc_distance_m(lat1, lon1, lat2, lon2) -> float:
    """Great-circle distance on the mean-radius sphere (oracle side; verdicts use a tolerance band)."""
    p1, p2 = math.radians(lat1), math.radians(lat2)
    dl = math.radians(lon2 - lon1)
    dp = p2 - p1
    a = math.sin(dp / 2) ** 2 + math.cos(p1) * math.cos(p2) * math.sin(dl / 2) ** 2
    return 6_371_008.8 * 2 * math.asin(min(1.0, math.sqrt(a)))


def heading_diff(a: float, b: float) -> float:
    d = abs((a % 360.0) - (b % 360.0))
    return 360.0 - d if d > 180.0 else d


# ------------------------------------------------------------------------------------------ stubs
class _Injected(Exception):
    """Stands for the SendingException a link layer raises through GN and BTP."""


class StubBTP:
    """Recording stand-in for btp.Router: the observation point of C10/C11."""

    def __init__(self, sim: "FacSim", who: str):
        self.sim = sim
        self.who = who
        self.callbacks: dict[int, Any] = {}
        self.fail_next = 0
        self.forward = None           # real btp.Router below (config stack == "real")

    def register_indication_callback_btp(self, port, callback):
        self.callbacks[port] = callback

    def freeze_callbacks(self):
        pass

    def btp_data_request(self, request):
        if self.fail_next > 0:
            self.fail_next -= 1
            self.sim.fault("send_error")
            self.sim.log.append({"k": "fault", "t": self.sim.kernel.now_us, "kind": "send_error"})
            raise _Injected("injected send error")
        self.sim.on_btp(self.who, request)
        if self.who == "tx":
            self.sim.maybe_report_during_send(request)
        if self.forward is not None:
            try:
                self.forward.btp_data_request(request)
            except Exception as e:  # noqa: BLE001 - the layers below are judged by C01/C02, not here
                self.sim.probe("real-stack-request-raised:" + type(e).__name__)


class _LogCatcher(logging.Handler):
    def __init__(self, sim):
        super().__init__(level=logging.WARNING)
        self.sim = sim

    def emit(self, record):
        if record.exc_info and record.exc_info[1] is not None:
            if self.sim.kernel.current_station == FacSim.RX:
                return                      # receiver-side logging (undecodable payloads) is not an observation of generation
            self.sim.log.append({"k": "logexc", "t": self.sim.kernel.now_us, "logger": record.name, "exc": record.exc_info[1]})
            self.sim.kernel.record("logexc", record.name, type(record.exc_info[1]).__name__)


class _RecLdm:
    """Receiver-side VAM sink (stands for VRUBasicServiceLDM)."""

    def __init__(self):
        self.last = None

    def add_provider_data_to_ldm(self, vam):
        self.last = vam


_LOGGERS = ("ca_basic_service", "vru_basic_service", "denm_service", "vru_clustering",
            "flexstack.facilities.vru_awareness_service.vru_clustering")

# TS 102 894-2 V2.1.1 VehicleRole names (oracle side; the value space is 0..15)
VEHICLE_ROLES = ["default", "publicTransport", "specialTransport", "dangerousGoods", "roadWork", "rescue", "emergency",
                 "safetyCar", "agriculture", "commercial", "military", "roadOperator", "taxi", "uvar", "rfu1", "rfu2"]


def exc_key(e: BaseException) -> str:
    """Coarse, hash-seed independent description of an exception raised by the code under test."""
    name = type(e).__name__
    if isinstance(e, KeyError) and e.args:
        return f"{name}:{'lat/lon' if e.args[0] in ('lat', 'lon') else e.args[0]}"
    msg = str(e)
    # asn1tools errors start with the dotted ASN.1 path of the offending member
    head = msg.split(":")[0].strip()
    if "." in head and " " not in head:
        return f"{name}:{'.'.join(head.split('.')[-2:])}"
    return name


def culprit(tpv: dict) -> str:
    """Which report property makes the naive scaling leave the element's range (coarse, for keys)."""
    if "epd" in tpv and tpv["epd"] < 0.1:
        return "epd<0.1"                  # int(epd*10) = 0 lies below HeadingConfidence / Wgs84AngleConfidence (1..127)
    if max(tpv.get("epx", 0), tpv.get("epy", 0)) * 100 >= 4096 and "epx" in tpv and "epy" in tpv:
        return "epx/epy>40.95"
    return "?"


ROLE_NAMES = set(VEHICLE_ROLES) | {"agricultural", "reserved1", "reserved2", "reserved3"}


def exc_label(sim, e, typ) -> str:
    """Finding-key part for an exception of the code under test: type (+ ASN.1 path / missing key) + root-cause class."""
    ex = e["exc"]
    if isinstance(ex, KeyError) and ex.args and ex.args[0] in ROLE_NAMES:
        return "KeyError:vehicleRole-name"
    label = exc_key(ex)
    if label in ("KeyError:lat", "KeyError:lon"):
        label = "KeyError:lat/lon"
    cul = culprit_of_entry(sim, e)
    if label == "Error" and cul != "?" and typ in ("CAM", "VAM"):
        label += "/" + cul              # asn1tools' bare Error('Odd-length string') = a value below its element's lower bound
    return label


def culprit_of_entry(sim, e) -> str:
    cl = e.get("cluster")
    if cl and not isinstance(e["exc"], KeyError):
        op = cl.get("op") or {}
        if op.get("clusterJoinInfo", {}).get("joinTime", 1) < 1:
            return "clusterJoinInfo.joinTime=0"
        if op.get("clusterBreakupInfo", {}).get("breakupTime", 1) < 1:
            return "clusterBreakupInfo.breakupTime=0"
        if cl.get("info"):
            return "vruClusterInformationContainer"
    for back in reversed(sim.log[:e.get("pos", len(sim.log))]):
        if back["k"] == "tpv":
            return culprit(back["tpv"])
    return "?"



# ------------------------------------------------------------------------------------------ the simulation
class FacSim(NetSim):
    """One transmitting host (CA + VRU + DEN services over a recording BTP stub) and one receiving host."""

    TX, RX = 0, 1

    def __init__(self, plan: dict):
        super().__init__(plan)
        self.log: list[dict] = []
        self.host = plan.get("host", {})
        self.btp = StubBTP(self, "tx")
        self.rx_btp = StubBTP(self, "rx")
        self.ca = None
        self.vru = None
        self.vru_active = False
        self.den = None
        self.eva = None
        self.n_btp = 0
        self.n_timer = 0
        self._early_done: set = set()      # tpv ops delivered early (while a CAM was being sent): skipped at their scheduled time
        self._in_mid_send = False
        self.rx_last = None
        self._rx_cam = None
        self._rx_vam = None
        self._rx_ldm = _RecLdm()

    # -------------------------------------------------------------- observation
    def on_btp(self, who: str, request) -> None:
        k = self.kernel
        n = self.n_btp
        self.n_btp += 1
        data = bytes(request.data)
        port = request.destination_port
        self.log.append({"k": "btp", "t": k.now_us, "n": n, "port": port, "data": data, "req": request})
        k.record("btp", port, data)
        rx = self.cfg.get("rx")
        if rx and port in (2001, 2018) and self.cfg.get("stack") != "real":
            u = keyed_unit(self.net_seed, "rxd", n)
            lo, hi = rx["delay_us"]
            if u < rx.get("p_far", 0.0):
                d = int(rx["far_us"][0] + keyed_unit(self.net_seed, "rxf", n) * (rx["far_us"][1] - rx["far_us"][0]))
            else:
                d = int(lo + keyed_unit(self.net_seed, "rxn", n) * (hi - lo))
            k.call_later(d, self._rx_deliver, n, port, data, station=self.RX, kind="rx", cause=("rx", n))

    def _rx_deliver(self, n: int, port: int, data: bytes, ind=None) -> None:
        from flexstack.btp.service_access_point import BTPDataIndication
        k = self.kernel
        cb = self.rx_btp.callbacks.get(port)
        if cb is None:
            return
        self.rx_last = None
        self._rx_ldm.last = None
        clock_ms = k.station_now_us(self.RX) // 1000
        try:
            cb(ind if ind is not None else BTPDataIndication(destination_port=port, length=len(data), data=data))
        except Exception as e:  # noqa: BLE001 - judged by the oracle
            self.log.append({"k": "exc", "t": k.now_us, "where": f"rx:{port}", "exc": e, "n": n})
            k.record("exc", "rx", port, type(e).__name__)
            return
        got = self.rx_last if port == 2001 else self._rx_ldm.last
        utc = got.get("utc_timestamp") if isinstance(got, dict) else None
        self.log.append({"k": "rx", "t": k.now_us, "n": n, "port": port, "clock_ms": clock_ms, "utc": utc})
        k.record("rx", n, port, utc)

    def violate(self, prop: str, rule: str, key: str, detail: str, t_abs_us: Optional[int] = None) -> None:
        t = (t_abs_us if t_abs_us is not None else self.kernel.now_us) - self.kernel.t0_us
        self.violations.append({"property": prop, "rule": rule, "key": key, "detail": detail, "t_us": t})

    def _tick(self) -> None:
        self.log.append({"k": "tick", "t": self.kernel.now_us})
        self.kernel.record("tick")

    def _guard(self, where: str, fn, *args):
        """Harness boundary of one operation: exceptions of the code under test are recorded, never propagated."""
        try:
            return fn(*args)
        except Exception as e:  # noqa: BLE001
            self.log.append({"k": "exc", "t": self.kernel.now_us, "where": where, "exc": e})
            self.kernel.record("exc", where, type(e).__name__)
            return None

    # -------------------------------------------------------------- construction of services (real code)
    def _build_ca(self):
        from flexstack.facilities.ca_basic_service.ca_basic_service import CooperativeAwarenessBasicService
        from flexstack.facilities.ca_basic_service.cam_transmission_management import VehicleData
        h = self.host.get("ca", {})
        svd = h.get("special")
        if svd is not None:
            svd = _special_container(svd)
        vd = VehicleData(station_id=h.get("station_id", 1), station_type=h.get("station_type", 5),
                         drive_direction=h.get("drive_direction", "forward"),
                         vehicle_length={"vehicleLengthValue": h.get("length", 1023),
                                         "vehicleLengthConfidenceIndication": h.get("length_conf", "unavailable")},
                         vehicle_width=h.get("width", 62), vehicle_role=h.get("role", 0),
                         exterior_lights=bytes([h.get("lights", 0)]), special_vehicle_data=svd)
        self.vehicle_data = vd
        self.ca = CooperativeAwarenessBasicService(btp_router=self.btp, vehicle_data=vd, ldm=None)

    def _build_vru(self):
        from flexstack.facilities.vru_awareness_service.vru_awareness_service import VRUAwarenessService
        from flexstack.facilities.vru_awareness_service.vam_transmission_management import DeviceDataProvider
        h = self.host.get("vru", {})
        ddp = DeviceDataProvider(station_id=h.get("station_id", 2), station_type=h.get("station_type", 1))
        self.vru = VRUAwarenessService(btp_router=self.btp, device_data_provider=ddp, ldm=None,
                                       cluster_support=h.get("cluster", True), own_vru_profile=h.get("profile", "pedestrian"))
        if self.vru.clustering_manager is not None:
            self.vru.clustering_manager._time_fn = self.kernel.time      # existing seam (ctor default bound at def time)

    def _build_den(self):
        from flexstack.facilities.decentralized_environmental_notification_service.den_service import (
            DecentralizedEnvironmentalNotificationService)
        from flexstack.applications.road_hazard_signalling_service.emergency_vehicle_approaching_service import (
            EmergencyVehicleApproachingService)
        if self.ca is None:
            self._build_ca()
        h = self.host.get("den", {})
        self.den = DecentralizedEnvironmentalNotificationService(btp_router=self.btp, vehicle_data=self.vehicle_data, ldm=None)
        self.eva = EmergencyVehicleApproachingService(self.den, duration=h.get("duration_ms", 3000))
        self.eva_created_ms = self.kernel.station_now_us(self.TX) // 1000

    def _build_rx(self, btp=None):
        from flexstack.facilities.ca_basic_service.cam_reception_management import CAMReceptionManagement
        from flexstack.facilities.vru_awareness_service.vam_reception_management import VAMReceptionManagement
        btp = btp if btp is not None else self.rx_btp
        self._rx_cam = CAMReceptionManagement(cam_coder=coder("cam"), btp_router=btp, ca_basic_service_ldm=None)
        self._rx_cam.add_application_callback(self._rx_cam_cb)
        self._rx_vam = VAMReceptionManagement(vam_coder=coder("vam"), btp_router=btp,
                                              vru_basic_service_ldm=self._rx_ldm, clustering_manager=None)
        if btp is not self.rx_btp:
            # real BTP router of the receiving station: keep the real callbacks, observe around them
            for port in (2001, 2018):
                orig = btp.pre_indication_callbacks[port]
                self.rx_btp.callbacks[port] = orig
                btp.pre_indication_callbacks[port] = (lambda ind, port=port: self._rx_real(port, ind))

    def _rx_real(self, port: int, ind) -> None:
        data = bytes(ind.data)
        n = next((e["n"] for e in reversed(self.log) if e["k"] == "btp" and e["port"] == port and e["data"] == data), None)
        if n is None:
            self.probe("rx-unknown-payload")
            return
        self.probe("rx-through-real-stack")
        self._rx_deliver(n, port, data, ind)

    def wire_facilities(self, station) -> None:
        if station.idx == self.RX and self.cfg.get("rx"):
            self._build_rx(station.btp)

    def _rx_cam_cb(self, cam):
        self.rx_last = cam

    # -------------------------------------------------------------- fault: a position report arrives while a CAM is being sent
    def maybe_report_during_send(self, request) -> None:
        """The GNSS client delivers reports on its own thread; the CA service sends CAMs on its timer thread.  A report that arrives
        while the timer thread is inside btp_data_request (CAM built, send state not yet updated) is a legal interleaving: the next
        scheduled report is delivered here, re-entrantly, instead of at its scheduled time."""
        ms = self.cfg.get("mid_send")
        if not ms or self._in_mid_send or request.destination_port != 2001 or self.ca is None:
            return
        k = self.kernel
        if keyed_unit(self.net_seed, "mid-send", self.n_btp) >= ms["rate"]:
            return
        nxt = None
        for idx, op in enumerate(self.plan["ops"]):
            if op["op"] == "tpv" and idx not in self._early_done and k.t0_us + op["t"] > k.now_us:
                nxt = (idx, op)
                break
        if nxt is None or (k.t0_us + nxt[1]["t"]) - k.now_us > ms["max_ahead_us"]:
            return
        lock = getattr(self.ca.cam_transmission_management, "_tpv_lock", None)
        if lock is not None:
            if not lock.acquire(blocking=False):       # the sender holds it: the GNSS thread would block here - not simulated
                self.probe("report-during-send-blocked")
                return
            lock.release()
        st, cause = k.current_station, k.current_cause
        self._in_mid_send = True
        try:
            self.fault("report_during_send")
            self._early_done.add(nxt[0])
            self._fac_op(nxt[0], nxt[1])
        finally:
            self._in_mid_send = False
            k.current_station, k.current_cause = st, cause

    # -------------------------------------------------------------- ops
    def _fac_op(self, idx: int, op: dict) -> None:
        k = self.kernel
        if idx in self._early_done and not self._in_mid_send:
            return
        k.current_station = self.TX
        k.current_cause = ("op", idx)
        kind = op["op"]
        if kind == "tpv":
            tpv = op["tpv"]
            to = []
            if self.vru is not None and self.vru.clustering_manager is not None and self.vru_active:
                self.log.append({"k": "state", "t": k.now_us, "vbs": self.vru.clustering_manager.state.name})
            ent = {"k": "tpv", "t": k.now_us, "i": idx, "tpv": tpv, "to": to}
            self.log.append(ent)
            k.record("tpv", idx)
            if self.stations:
                try:
                    self.stations[self.TX].gn.refresh_ego_position_vector(dict(tpv))
                except Exception as e:  # noqa: BLE001 - GN position handling is C01/C02/C08's subject
                    self.probe("real-stack-position-raised:" + type(e).__name__)
            if self.ca is not None:
                to.append("ca")
                self._guard("ca.location", self.ca.cam_transmission_management.location_service_callback, dict(tpv))
            if self.vru is not None and self.vru_active:
                to.append("vru")
                n_before = len(self.log)
                self._guard("vru.location", self.vru.vam_transmission_management.location_service_callback, dict(tpv))
                cm = self.vru.clustering_manager
                if cm is not None and len(self.log) > n_before and self.log[-1]["k"] == "exc":
                    # diagnostic only (finding keys): which cluster containers the manager hands out right now
                    try:
                        self.log[-1]["cluster"] = {"op": cm.get_cluster_operation_container(),
                                                   "info": cm.get_cluster_information_container() is not None}
                    except Exception:  # noqa: BLE001
                        pass
            ent["done"] = len(self.log)
        elif kind == "ca":
            k.record("svc", "ca", op["action"])
            if self.ca is None:
                return
            self.log.append({"k": "svc", "t": k.now_us, "svc": "ca", "action": op["action"]})
            if op["action"] == "start":
                self._guard("ca.start", self.ca.start)
            else:
                self._guard("ca.stop", self.ca.stop)
        elif kind == "vru":
            k.record("svc", "vru", op["action"])
            if "vru" not in self.host:
                return
            self.log.append({"k": "svc", "t": k.now_us, "svc": "vru", "action": op["action"]})
            if op["action"] == "start":
                # activation of the VBS = the service object is created and subscribed to the location service
                self.vru = None
                self._guard("vru.start", self._build_vru)
                self.vru_active = self.vru is not None
            else:
                self.vru_active = False
        elif kind == "cluster":
            k.record("cluster", op["call"])
            cm = self.vru.clustering_manager if self.vru is not None else None
            if cm is None or not self.vru_active:
                return
            self.log.append({"k": "cluster", "t": k.now_us, "call": op["call"]})
            call = op["call"]
            if call == "role_off":
                self._guard("cluster.role_off", cm.set_vru_role_off)
            elif call == "role_on":
                self._guard("cluster.role_on", cm.set_vru_role_on)
            elif call == "join":
                self._guard("cluster.join", cm.initiate_join, op.get("cluster_id", 7))
            elif call == "cancel_join":
                self._guard("cluster.cancel_join", cm.cancel_join)
            elif call == "update":
                self._guard("cluster.update", cm.update, op["lat"], op["lon"], op.get("speed", 1.0), op.get("track", 0.0))
            elif call == "create":
                res = self._guard("cluster.create", cm.try_create_cluster, op["lat"], op["lon"])
                self.log[-1]["result"] = bool(res)
            elif call == "breakup":
                self._guard("cluster.breakup", cm.trigger_breakup_cluster)
            elif call == "nearby":
                # a neighbouring VRU's VAM as the reception management delivers it (decoded dict)
                self._guard("cluster.nearby", cm.on_received_vam, _nearby_vam(op))
        elif kind == "eva":
            k.record("eva")
            if self.eva is None:
                return
            self.log.append({"k": "eva", "t": k.now_us, "i": idx, "tpv": op["tpv"]})
            self._guard("eva.trigger", self.eva.trigger_denm_sending, dict(op["tpv"]))
        elif kind == "denreq":
            k.record("denreq")
            if self.den is None:
                return
            from flexstack.applications.road_hazard_signalling_service.service_access_point import DENRequest
            self.log.append({"k": "denreq", "t": k.now_us, "i": idx, "req": op["req"], "mode": op.get("mode", "rhs")})
            req = self._guard("denreq.build", lambda: DENRequest(**op["req"]))
            if req is None:
                return
            tm = self.den.denm_transmission_management
            if op.get("mode") == "crw":
                self._guard("den.crw", tm.send_collision_risk_warning_denm, req)
            else:
                self._guard("den.request", tm.request_denm_sending, req)
        elif kind == "send_error":
            self.btp.fail_next += op.get("n", 1)
        elif kind == "noop":
            pass
        else:
            raise ValueError("unknown fac op " + kind)

    # -------------------------------------------------------------- run
    def run(self) -> None:
        cfg = self.cfg
        k = self.kernel
        sim = self
        jl, je = cfg.get("timer_late_us", 0), cfg.get("timer_early_us", 0)
        if jl or je:
            def skew(delay_s: float) -> float:
                sim.n_timer += 1
                u = keyed_unit(sim.net_seed, "tj", sim.n_timer)
                return max(0.0, delay_s + (u * (jl + je) - je) / 1e6)
            k.timer_skew = skew
        handler = _LogCatcher(self)
        saved = []
        with self.patches as p:
            p.mute_stdout()
            patch_core(p, k, self.net_seed)
            import flexstack.facilities.ca_basic_service.cam_transmission_management as camtm
            import flexstack.facilities.ca_basic_service.ca_basic_service as cabs
            import flexstack.facilities.vru_awareness_service.vru_awareness_service as vas
            import flexstack.facilities.vru_awareness_service.vru_clustering as vcl
            T, Th, E = make_classes(k)

            class RecTimer(T):  # T_CheckCamGen expiry is observed at the timer seam
                def _fire(self_):
                    if self_._cancelled:
                        return
                    if getattr(self_.function, "__name__", "") == "_check_cam_conditions":
                        sim._tick()
                    T._fire(self_)

            thf = ThreadingFacade(k)
            thf.Timer = RecTimer
            p.set(camtm, "threading", thf)
            p.set(camtm, "random", RandomFacade(self.net_seed ^ 0xCA))
            p.set(cabs, "CAMCoder", lambda: coder("cam"))
            p.set(vas, "VAMCoder", lambda: coder("vam"))
            p.set(vcl, "random", RandomFacade(self.net_seed ^ 0xC1))
            p.set(vcl, "time", TimeFacade(k))
            p.set(_time_mod, "time", k.time)      # vam_transmission_management reads time.time() through a local import
            if "den" in self.host:
                import flexstack.facilities.decentralized_environmental_notification_service.denm_transmission_management as dtm
                import flexstack.facilities.decentralized_environmental_notification_service.den_service as dsv
                p.set(dtm, "time", TimeFacade(k))
                p.set(dtm, "threading", ThreadingFacade(k))
                p.set(dsv, "DENMCoder", lambda: coder("denm"))
            for name in _LOGGERS:
                lg = logging.getLogger(name)
                saved.append((lg, lg.propagate, lg.level))
                lg.addHandler(handler)
                lg.propagate = False
            try:
                off = cfg.get("clock_offset_ms", {})
                if off.get("tx"):
                    k.offsets_us[self.TX] = off["tx"] * 1000
                if off.get("rx"):
                    k.offsets_us[self.RX] = off["rx"] * 1000
                    self.fault("clock_skew")
                if cfg.get("stack") == "real":
                    from .netsim import Station
                    for i, spec in enumerate(self.plan["stations"][:2]):
                        self.stations.append(Station(self, i, spec))
                    if len(self.stations) == 2:
                        self.set_link(0, 1, True)
                        self.btp.forward = self.stations[self.TX].btp
                k.current_station = self.TX
                if "ca" in self.host:
                    self._build_ca()
                if "den" in self.host:
                    self._build_den()
                if cfg.get("rx") and self._rx_cam is None:
                    k.current_station = self.RX
                    self._build_rx()
                k.current_station = None
                for idx, op in enumerate(self.plan["ops"]):
                    k.call_at(k.t0_us + op.get("t", 0), self._fac_op, idx, op, station=self.TX, kind="op", cause=("op", idx))
                k.run(k.t0_us + cfg.get("run_limit_us", 30_000_000))
                self.end_us = k.now_us
                for (kind, st, name, e) in k.task_errors:
                    self.log.append({"k": "exc", "t": k.now_us, "where": f"task:{kind}:{name}", "exc": e, "late": True})
            finally:
                k.shutdown()
                for lg, prop, lvl in saved:
                    lg.removeHandler(handler)
                    lg.propagate = prop


def _special_container(kind: str):
    if kind == "emergency":
        return ("emergencyContainer", {"lightBarSirenInUse": (b"\xc0", 2)})
    if kind == "publicTransport":
        return ("publicTransportContainer", {"embarkationStatus": False})
    if kind == "safetyCar":
        return ("safetyCarContainer", {"lightBarSirenInUse": (b"\x80", 2)})
    return None


def _nearby_vam(op: dict) -> dict:
    return {"header": {"protocolVersion": 3, "messageId": 16, "stationId": op["station_id"]},
            "vam": {"generationDeltaTime": op.get("gdt", 0), "vamParameters": {
                "basicContainer": {"stationType": 1, "referencePosition": {
                    "latitude": int(round(op["lat"] * 1e7)), "longitude": int(round(op["lon"] * 1e7)),
                    "positionConfidenceEllipse": {"semiMajorAxisLength": 4095, "semiMinorAxisLength": 4095,
                                                  "semiMajorAxisOrientation": 3601},
                    "altitude": {"altitudeValue": 800001, "altitudeConfidence": "unavailable"}}},
                "vruHighFrequencyContainer": {"heading": {"value": 0, "confidence": 127},
                                              "speed": {"speedValue": 100, "speedConfidence": 127},
                                              "longitudinalAcceleration": {"longitudinalAccelerationValue": 161,
                                                                           "longitudinalAccelerationConfidence": 102}}}}}


# ------------------------------------------------------------------------------------------ history analysis shared by C10/C11
CAM_MIN_US = 100_000
CAM_MAX_US = 1_000_000
CAM_CHECK_US = 100_000
VAM_MIN_MS = 100
VAM_MAX_US = 5_000_000
EPS_T_US = 1_500          # the services truncate the clock to whole milliseconds twice per comparison


def decode_msg(port: int, data: bytes):
    name = {2001: "cam", 2018: "vam", 2002: "denm"}[port]
    return coder(name).decode(data)


def is_position_report(tpv: dict) -> bool:
    return "lat" in tpv and "lon" in tpv


class History:
    """Activation windows, reports, ticks and messages of one run, in log order."""

    def __init__(self, sim: FacSim):
        self.sim = sim
        self.log = sim.log
        self.end_us = getattr(sim, "end_us", sim.kernel.now_us)
        self.jl = sim.cfg.get("timer_late_us", 0)
        self.je = sim.cfg.get("timer_early_us", 0)
        self.msgs: list[dict] = []         # every btp entry with decoded message (or decode error)
        self.ca_acts: list[dict] = []      # {"start","stop","cams":[...],"ticks":[...]}
        self.vru_acts: list[dict] = []     # {"start","stop","vams":[...],"reports":[...]}
        self.reports: list[dict] = []      # tpv entries with "pos" = index in log
        self._fault_ts = None
        self._build()

    def _build(self):
        ca_act = None
        vru_act = None
        ca_active = False
        last_tpv = None
        vbs = None
        for pos, e in enumerate(self.log):
            e["pos"] = pos
            k = e["k"]
            if k == "svc":
                if e["svc"] == "ca":
                    if e["action"] == "start" and not ca_active:
                        ca_active = True
                        ca_act = {"start": e["t"], "stop": None, "cams": [], "ticks": [], "start_pos": pos, "n": len(self.ca_acts)}
                        self.ca_acts.append(ca_act)
                    elif e["action"] == "stop" and ca_active:
                        ca_active = False
                        ca_act["stop"] = e["t"]
                        ca_act["stop_pos"] = pos
                else:
                    if e["action"] == "start":
                        if vru_act is not None and vru_act["stop"] is None:
                            vru_act["stop"] = e["t"]
                        vru_act = {"start": e["t"], "stop": None, "vams": [], "reports": [], "n": len(self.vru_acts), "idle": []}
                        self.vru_acts.append(vru_act)
                        vbs = None
                    elif vru_act is not None and vru_act["stop"] is None:
                        vru_act["stop"] = e["t"]
            elif k == "state":
                vbs = e["vbs"]
            elif k == "tpv":
                e["prev"] = last_tpv
                last_tpv = e
                e["vbs"] = vbs if "vru" in e["to"] else None
                self.reports.append(e)
                if "vru" in e["to"] and vru_act is not None and vru_act["stop"] is None:
                    vru_act["reports"].append(e)
                    e["vams"] = []
            elif k == "tick":
                if ca_active and ca_act is not None:
                    e["latest"] = last_tpv
                    e["cam"] = None
                    ca_act["ticks"].append(e)
            elif k == "btp":
                m = {"e": e, "t": e["t"], "port": e["port"], "n": e["n"], "msg": None, "err": None, "latest": last_tpv}
                try:
                    m["msg"] = decode_msg(e["port"], e["data"]) if e["port"] in (2001, 2018, 2002) else None
                except Exception as ex:  # noqa: BLE001 - decoding failure is an observation
                    m["err"] = ex
                self.msgs.append(m)
                if e["port"] == 2001:
                    m["act"] = ca_act if ca_active else None
                    if ca_active:
                        ca_act["cams"].append(m)
                        if ca_act["ticks"] and ca_act["ticks"][-1]["t"] == e["t"] and ca_act["ticks"][-1]["cam"] is None:
                            ca_act["ticks"][-1]["cam"] = m
                    m["last_act"] = ca_act
                elif e["port"] == 2018:
                    # a VAM is emitted synchronously inside the delivery of a report
                    trig = last_tpv if (last_tpv is not None and last_tpv.get("done", 1 << 60) > pos) else None
                    m["trigger"] = trig
                    m["act"] = vru_act if (vru_act is not None and vru_act["stop"] is None) else None
                    if m["act"] is not None:
                        vru_act["vams"].append(m)
                        if trig is not None and "vams" in trig:
                            trig["vams"].append(m)

    # ------------------------------------------------------------------ report availability
    def report_gaps(self, nominal_us: int) -> list[tuple[int, int]]:
        """Intervals without position reports (longer than 2 nominal periods + 100 ms), incl. before the first report."""
        lim = 2 * nominal_us + 100_000
        gaps = []
        pr = [r for r in self.reports if is_position_report(r["tpv"])]
        if not pr:
            return [(0, self.end_us + 1)]
        gaps.append((0, pr[0]["t"]))
        for a, b in zip(pr, pr[1:]):
            if b["t"] - a["t"] > lim:
                gaps.append((a["t"] + nominal_us, b["t"]))
        if self.end_us - pr[-1]["t"] > lim:
            gaps.append((pr[-1]["t"] + nominal_us, self.end_us + 1))
        return gaps

    def faults_between(self, t1: int, t2: int) -> int:
        if self._fault_ts is None:
            self._fault_ts = [e["t"] for e in self.log if e["k"] == "fault"]
        return sum(1 for t in self._fault_ts if t1 <= t <= t2)

    def cam_max_bound_us(self) -> int:
        return CAM_MAX_US + CAM_CHECK_US + 12 * self.jl + 2 * EPS_T_US


def overlaps(gaps, t1, t2) -> bool:
    return any(a < t2 and b > t1 for a, b in gaps)


def cam_has_lf(msg: dict) -> bool:
    return "lowFrequencyContainer" in msg["cam"]["camParameters"]


def vam_has_lf(msg: dict) -> bool:
    return "vruLowFrequencyContainer" in msg["vam"]["vamParameters"]


def cam_stalls(h: History, nominal_us: int) -> list[dict]:
    """CAM max-gap findings (shared by C10 `cam-gap-max` and C11 `generation-stalled`).
    Judged only while position reports are available and no injected fault lies in the interval."""
    out = []
    gaps = h.report_gaps(nominal_us)
    bound = h.cam_max_bound_us()
    for act in h.ca_acts:
        stop = act["stop"] if act["stop"] is not None else h.end_us
        cams = act["cams"]
        for a, b in zip(cams, cams[1:]):
            g = b["t"] - a["t"]
            if g > bound and not overlaps(gaps, a["t"], b["t"]) and not h.faults_between(a["t"], b["t"]):
                out.append({"kind": "between", "t1": a["t"], "t2": b["t"], "gap": g, "act": act})
        if cams:
            g = stop - cams[-1]["t"]
            if g > bound and not overlaps(gaps, cams[-1]["t"], stop) and not h.faults_between(cams[-1]["t"], stop):
                out.append({"kind": "tail", "t1": cams[-1]["t"], "t2": stop, "gap": g, "act": act})
        else:
            # no CAM at all in an activation: only the liveness clause of C11 uses this
            pr = [r for r in h.reports if is_position_report(r["tpv"]) and r["t"] <= stop]
            if pr:
                t1 = max(act["start"], pr[0]["t"])
                g = stop - t1
                if g > bound + CAM_CHECK_US and not overlaps(gaps, t1, stop) and not h.faults_between(t1, stop):
                    out.append({"kind": "none", "t1": t1, "t2": stop, "gap": g, "act": act})
    return out


def vam_stalls(h: History, nominal_us: int) -> list[dict]:
    """VAM max-gap findings: position reports keep arriving at an active (not idle / passive) VBS for more than
    T_GenVamMax + one report period (+ slack) without a VAM."""
    out = []
    for act in h.vru_acts:
        run_start = None      # start of the current stretch of "reports keep arriving, station active"
        last_vam_t = None
        prev_t = None
        maxp = 0
        for r in act["reports"]:
            # the VAM rules are stated on the reports' timestamps: a report without one does not count as position data
            ok = is_position_report(r["tpv"]) and "time" in r["tpv"] and r.get("vbs") not in ("VRU_IDLE", "VRU_PASSIVE")
            cont = ok and prev_t is not None and (r["t"] - prev_t) <= 2 * nominal_us + 100_000
            if not ok:
                run_start, prev_t, maxp, last_vam_t = None, None, 0, None
                continue
            if not cont:
                run_start, maxp, last_vam_t = r["t"], 0, None
            else:
                maxp = max(maxp, r["t"] - prev_t)
            prev_t = r["t"]
            if r.get("vams"):
                last_vam_t = r["t"]
                continue
            ref = last_vam_t if last_vam_t is not None else run_start
            if r["t"] - ref > VAM_MAX_US + max(maxp, nominal_us) + 50_000 and not h.faults_between(ref, r["t"]):
                out.append({"t1": ref, "t2": r["t"], "gap": r["t"] - ref, "act": act, "after_vam": last_vam_t is not None})
                last_vam_t = r["t"]       # report once per stretch of silence
    return out


# ------------------------------------------------------------------------------------------ plan generation
FIELD_CLASSES = ["full", "only-alt", "no-alt", "no-err", "no-epd", "one-ep", "no-speed", "no-track", "no-time", "no-latlon",
                 "minimal", "random"]
VAM_NEEDS = ("time", "lat", "lon", "speed")
OPTIONAL_FIELDS = ["time", "lat", "lon", "alt", "altHAE", "altMSL", "epx", "epy", "epv", "epd", "eps", "ept", "track",
                   "speed", "climb", "epc"]

EPV_EDGES = [0.01, 0.02, 0.05, 0.1, 0.2, 0.5, 1, 2, 5, 10, 20, 50, 100, 200]


def _apply_class(r: random.Random, tpv: dict, cls: str) -> dict:
    t = dict(tpv)

    def drop(*names):
        for n in names:
            t.pop(n, None)
    if cls == "only-alt":
        drop("altHAE", "altMSL")
    elif cls == "no-alt":
        drop("alt", "altHAE", "altMSL", "epv")
    elif cls == "no-err":
        drop("epx", "epy", "epv", "epd", "eps", "ept", "epc")
    elif cls == "no-epd":
        drop("epd")
    elif cls == "one-ep":
        drop(r.choice(["epx", "epy"]))
    elif cls == "no-speed":
        drop("speed", "eps")
    elif cls == "no-track":
        drop("track", "epd")
    elif cls == "no-time":
        drop("time", "ept")
    elif cls == "no-latlon":
        drop("lat", "lon", "alt", "altHAE", "altMSL", "epx", "epy", "epv")
        t["mode"] = 1
    elif cls == "minimal":
        for n in OPTIONAL_FIELDS:
            if n not in ("time", "lat", "lon"):
                t.pop(n, None)
        t["mode"] = 2
    elif cls == "random":
        for n in OPTIONAL_FIELDS:
            if r.random() < 0.3:
                t.pop(n, None)
    return t


def _round(x: float, nd: int) -> float:
    return float(round(x, nd))


class _Traj:
    """Kinematic point on a local tangent plane; emits (lat_i, lon_i, speed, track)."""

    def __init__(self, r, lat_i, lon_i, speed, head):
        self.r = r
        self.lat0 = lat_i / 1e7
        self.lon0 = lon_i / 1e7
        self.x = 0.0
        self.y = 0.0
        self.v = speed
        self.h = head % 360.0
        self.mlat = 111_320.0
        self.mlon = 111_320.0 * max(0.02, math.cos(math.radians(self.lat0)))

    def step(self, dt):
        self.x += self.v * dt * math.sin(math.radians(self.h))
        self.y += self.v * dt * math.cos(math.radians(self.h))

    def jump(self, dist, bearing):
        self.x += dist * math.sin(math.radians(bearing))
        self.y += dist * math.cos(math.radians(bearing))

    def pos(self):
        lat_i = int(round((self.lat0 + self.y / self.mlat) * 1e7))
        lon_i = int(round((self.lon0 + self.x / self.mlon) * 1e7))
        lat_i = max(-900_000_000, min(900_000_000, lat_i))
        lon_i = max(-1_800_000_000, min(1_800_000_000, lon_i))
        return lat_i, lon_i


TRAJ_KINDS = ["constant", "accelerating", "turning-wrap", "stop-and-go", "jitter-speed", "jitter-heading", "jitter-position",
              "static", "city"]


def _gen_segment(r: random.Random, tr: _Traj, kind: str, n: int, dt: float, allow360: bool):
    """Yield n samples (lat_i, lon_i, speed, track) for one trajectory segment."""
    out = []
    if kind == "constant":
        tr.v = r.choice([r.uniform(0.3, 3), r.uniform(3, 15), r.uniform(15, 45), r.uniform(45, 70)])
    elif kind == "accelerating":
        tr.v = r.uniform(0, 20)
        acc = r.choice([-1, 1]) * r.choice([0.3, 1.0, 2.5, 4.0, 8.0])
    elif kind == "turning-wrap":
        tr.v = r.uniform(2, 25)
        rate = r.choice([2, 5, 10, 20, 30, 45])
        if r.random() < 0.5:
            tr.h = r.uniform(340, 359.5)
        else:
            tr.h = r.uniform(0.5, 20)
            rate = -rate
    elif kind == "stop-and-go":
        tr.v = r.uniform(5, 15)
        phase_len = max(1, int(r.uniform(1.0, 4.0) / dt))
        acc = -r.uniform(1.5, 5)
    elif kind == "static":
        tr.v = 0.0
    elif kind == "city":
        tr.v = r.uniform(3, 14)
    elif kind.startswith("jitter"):
        tr.v = r.uniform(0.0, 0.3) if kind == "jitter-position" else r.uniform(4, 20)
        base_v, base_h = tr.v, tr.h
        delta = r.choice([0.02, 0.05, 0.1, 0.2])
        side = r.choice([-1, 1])
        hold = max(1, int(r.choice([0.05, 0.1, 0.2, 0.35, 0.7]) / dt))
    flip = False
    last_h = tr.h
    for i in range(n):
        if kind == "accelerating":
            tr.v = min(75.0, max(0.0, tr.v + acc * dt))
            if tr.v in (0.0, 75.0):
                acc = -acc
        elif kind == "turning-wrap":
            tr.h = (tr.h + rate * dt) % 360.0
        elif kind == "stop-and-go":
            tr.v = min(18.0, max(0.0, tr.v + acc * dt))
            if i % phase_len == phase_len - 1 and r.random() < 0.5:
                acc = -acc if tr.v in (0.0, 18.0) or r.random() < 0.5 else acc
        elif kind == "city":
            if r.random() < 0.05 * dt * 10:
                tr.h = (tr.h + r.choice([-90, 90, 45, -45, 10, -10])) % 360.0
            tr.v = min(20.0, max(0.0, tr.v + r.uniform(-1.5, 1.5) * dt))
        elif kind == "jitter-speed":
            if i % hold == 0:
                flip = not flip
                tr.v = base_v + (0.5 + side * delta if flip else 0.0)
        elif kind == "jitter-heading":
            if i % hold == 0:
                flip = not flip
                tr.h = (base_h + (4.0 + side * delta if flip else 0.0)) % 360.0
        elif kind == "jitter-position":
            if i % hold == 0:
                tr.jump(4.0 + side * r.choice([0.15, 0.3, 0.5]), r.uniform(0, 360))
        tr.step(dt)
        lat_i, lon_i = tr.pos()
        track = _round(tr.h, r.choice([1, 2, 4]))
        if track >= 360.0:
            track = 360.0 if allow360 else 0.0
        elif allow360 and ((last_h > 300 and tr.h < 60) or (last_h < 60 and tr.h > 300)) and r.random() < 0.5:
            track = 360.0                      # what "%.1f" of 359.96 looks like
        last_h = tr.h
        out.append((lat_i, lon_i, _round(tr.v, r.choice([2, 3])), track))
    return out


def _err_values(r: random.Random, big: bool, tiny_epd: bool):
    """Per-run base error estimates (metres / degrees)."""
    if big:
        epx = r.choice([r.uniform(0.3, 15), r.uniform(15, 40.8), 40.93, 40.94, 40.95, 40.96, r.uniform(41, 80), r.uniform(80, 700)])
        epy = r.choice([r.uniform(0.3, 15), r.uniform(15, 40.8), 40.94, 41.0, r.uniform(41, 80), r.uniform(80, 700)])
    else:
        epx = r.choice([r.uniform(0.02, 3), r.uniform(3, 15), r.uniform(15, 40.8)])
        epy = r.choice([r.uniform(0.02, 3), r.uniform(3, 15), r.uniform(15, 40.8)])
    epv = r.choice([r.choice(EPV_EDGES), r.uniform(0.005, 3), r.uniform(3, 60), r.uniform(60, 400), 0.0])
    if tiny_epd:
        epd = r.choice([0.0, 0.04, 0.09, 0.1, r.uniform(0.1, 12.4), 12.5, 12.6, r.uniform(12.6, 180)])
    else:
        epd = r.choice([0.1, 0.15, r.uniform(0.2, 12.4), 12.5, 12.6, r.uniform(12.6, 180)])
    eps = r.choice([0.0, r.uniform(0.01, 1.2), r.uniform(1.2, 30)])
    return _round(epx, 2 if r.random() < 0.7 else 3), _round(epy, 2 if r.random() < 0.7 else 3), _round(epv, 3), _round(epd, 3), _round(eps, 2)


def _wild_sample(r: random.Random, trig: dict):
    """One report drawn over the whole GNSS value space with boundary bias (C11 quantifier)."""
    lat = r.choice([r.uniform(-90, 90), r.uniform(-90, 90), 90.0, -90.0, 0.0, 89.9999999, -89.9999999, r.uniform(-0.001, 0.001)])
    lon = r.choice([r.uniform(-180, 180), r.uniform(-180, 180), 180.0, -180.0, 0.0, 179.9999999, -179.9999999, r.uniform(-0.001, 0.001)])
    lat_i = int(round(lat * 1e7))
    lon_i = int(round(lon * 1e7))
    hi_alt = 10000.0 if trig["alt_high"] else 6100.0
    alt = r.choice([r.uniform(-1000, hi_alt), r.uniform(-50, 900), -1000.0, -999.99, 0.0, min(hi_alt, 6129.99), min(hi_alt, 6130.01),
                    min(hi_alt, 7999.99), min(hi_alt, 8000.0), min(hi_alt, 8000.01), hi_alt])
    speed = r.choice([r.uniform(0, 200), r.uniform(0, 60), 0.0, 163.8, 163.81, 163.815, 163.82, 163.83, 200.0])
    track = r.choice([r.uniform(0, 360), r.uniform(0, 360), 0.0, 359.9, 359.94, 359.95, 359.99, 360.0])
    if track >= 360.0 and not trig["track360"]:
        track = 359.9
    return lat_i, lon_i, _round(alt, 2), _round(speed, 3), _round(track, 2) if track < 360.0 else 360.0


# swarm knobs that switch ON the inputs known / suspected to expose pervasive defects; all OFF in half of the runs
TRIGGERS = ["big_err", "tiny_epd", "track360", "vam_fast", "alt_high", "drop_vam_fields", "cluster_leader", "rx_behind",
            "no_time", "den", "odd_role", "cluster_join"]


def t0_for(r: random.Random, cls: str, first_wrap_s: float) -> int:
    """Run epoch (Unix us, whole ms): an ordinary 2026 instant, or one placed just before a generationDeltaTime wrap."""
    t0_ms = T0_2026_US // 1000 + r.randrange(0, 300 * 86_400_000)
    if cls == "gdt_wrap":
        its = its_ms_of_unix_ms(t0_ms)
        to_wrap = GDT_MOD - its % GDT_MOD
        t0_ms += to_wrap - int(first_wrap_s * 1000)
    return t0_ms * 1000


def gen_fac_plan(run_seed: int, tier: str, prop: str) -> dict:
    r = random.Random(run_seed * 2 + (1 if prop == "C11" else 0))
    c11 = prop == "C11"
    clean = r.random() < 0.5               # finding-trigger knobs all off in half of the runs
    trig = {n: (False if clean else r.random() < 0.55) for n in TRIGGERS}
    if not c11:
        # C10 explores timing; value-range extremes of the error estimates / altitude belong to C11's plans
        trig["big_err"] = trig["tiny_epd"] = trig["alt_high"] = False
    has_ca = r.random() < 0.85
    has_vru = r.random() < 0.7 or not has_ca
    has_den = c11 and trig["den"] and r.random() < 0.7
    rate = r.choice([1, 2, 5, 10, 10, 20, 25, 50])
    if has_vru and not trig["vam_fast"]:
        rate = min(rate, 10)
    long_run = tier == "thorough" and r.random() < 0.004
    if long_run:
        rate = min(rate, r.choice([1, 2, 5, 10]))
        dur_s = r.choice([600, 1200, 3700])
    else:
        max_s = {1: 60, 2: 60, 5: 45, 10: 30, 20: 20, 25: 16, 50: 10}[rate]
        dur_s = r.uniform(3, max_s) if r.random() < 0.8 else r.uniform(max_s * 0.7, max_s * 1.5)
    dt_us = 1_000_000 // rate
    t0_cls = "gdt_wrap" if r.random() < 0.35 else "plain"
    t0_us = t0_for(r, t0_cls, r.uniform(0.3, min(dur_s * 0.8, 25)))
    fix_age_ms = 0 if r.random() < 0.6 else r.choice([1, 7, 20, 50, 80, 120])
    sub_ms = r.random() < 0.2
    wild = c11 and r.random() < 0.45

    # ---- field policy
    allowed = [c for c in FIELD_CLASSES]
    if has_vru and not trig["drop_vam_fields"]:
        allowed = [c for c in allowed if c not in ("no-speed", "no-time", "no-latlon", "minimal", "random")]
    if not trig["no_time"]:
        allowed = [c for c in allowed if c != "no-time"]
    pol = r.random()
    if pol < 0.5:
        field_policy = ("fixed", "full")
    elif pol < 0.8:
        field_policy = ("fixed", r.choice(allowed))
    else:
        field_policy = ("sparse", r.choice([0.05, 0.2, 0.5]))

    # ---- trajectory
    if c11 and r.random() < 0.5:
        lat0 = r.choice([r.uniform(-89, 89), r.uniform(-60, 60), 89.9, -89.9, 0.0])
        lon0 = r.choice([r.uniform(-179.9, 179.9), 179.9995, -179.9995, 0.0])
    else:
        lat0 = r.uniform(-70, 70)
        lon0 = r.uniform(-179, 179)
    tr = _Traj(r, int(lat0 * 1e7), int(lon0 * 1e7), r.uniform(0, 20), r.uniform(0, 360))
    n_total = max(2, int(dur_s * rate))
    samples = []
    while len(samples) < n_total:
        kind = r.choice(TRAJ_KINDS)
        if not trig["vam_fast"] and has_vru and kind.startswith("jitter") and rate > 10:
            kind = "constant"
        seg_n = min(n_total - len(samples), max(2, int(r.uniform(2, 25) * rate)))
        for s in _gen_segment(r, tr, kind, seg_n, 1.0 / rate, trig["track360"]):
            samples.append((kind,) + s)
    epx, epy, epv, epd, eps = _err_values(r, trig["big_err"], trig["tiny_epd"])
    alt_base = r.choice([r.uniform(-50, 900), r.uniform(900, 4000), r.uniform(-400, 0)])
    if c11 and trig["alt_high"] and r.random() < 0.3:
        alt_base = r.choice([r.uniform(6000, 8100), r.uniform(8000, 10000), 6129.9, 6130.2, 7999.9])
    geoid = _round(r.uniform(-60, 60), 1)

    # ---- report gaps
    gaps = []
    if r.random() < 0.3 and n_total > 10:
        for _ in range(r.randint(1, 2)):
            g0 = r.randrange(2, n_total - 2)
            glen_s = r.choice([r.uniform(1.2, 3), r.uniform(3, 8), r.uniform(8, 20)]) if not long_run else r.choice([5, 30, 66, 70, 140])
            gaps.append((g0, g0 + max(2, int(glen_s * rate) + 2)))

    ops: list[dict] = []
    # ---- services
    svc_t = []
    end_us = n_total * dt_us
    if has_ca:
        t = r.choice([0, r.randrange(0, 1_000_000), r.randrange(0, max(1, min(end_us // 2, 4_000_000)))])
        ops.append({"op": "ca", "t": t, "action": "start"})
        cycles = r.choice([0, 0, 0, 1, 1, 2, 3]) if not long_run else r.choice([0, 2, 5])
        for _ in range(cycles):
            t1 = r.randrange(t + 1, max(t + 2, end_us))
            off = r.choice([0, r.randrange(1, 90_000), r.randrange(90_000, 600_000), r.randrange(600_000, 3_000_000)])
            ops.append({"op": "ca", "t": t1, "action": "stop"})
            ops.append({"op": "ca", "t": t1 + off, "action": "start"})
            t = t1 + off
        if r.random() < 0.3:
            ops.append({"op": "ca", "t": r.randrange(t + 1, max(t + 2, end_us)), "action": "stop"})
    if has_vru:
        t = r.choice([0, r.randrange(0, 1_000_000)])
        ops.append({"op": "vru", "t": t, "action": "start"})
        cycles = r.choice([0, 0, 0, 1, 2]) if not long_run else r.choice([0, 2, 4])
        for _ in range(cycles):
            t1 = r.randrange(t + 1, max(t + 2, end_us))
            off = r.choice([0, r.randrange(1, 90_000), r.randrange(90_000, 2_000_000)])
            ops.append({"op": "vru", "t": t1, "action": "stop"})
            ops.append({"op": "vru", "t": t1 + off, "action": "start"})
            t = t1 + off
    # stable order of same-time service ops: sort later by (t, original index)

    # ---- reports
    in_gap = set()
    for a, b in gaps:
        in_gap.update(range(a, min(b, n_total)))
    last_pos = (tr.lat0, tr.lon0)
    for i in range(n_total):
        if i in in_gap:
            continue
        kind, lat_i, lon_i, speed, track = samples[i]
        alt = _round(alt_base + r.uniform(-0.5, 0.5), 2)
        if wild and r.random() < 0.6:
            lat_i, lon_i, alt, speed, track = _wild_sample(r, trig)
        if not (c11 and trig["alt_high"]):
            alt = min(alt, 6100.0)
        t_us = i * dt_us + (r.randrange(0, 1000) if sub_ms else 0)
        stamp_us = t0_us + t_us - fix_age_ms * 1000
        tpv = {"class": "TPV", "device": "/dev/ttyACM0", "mode": 3, "time": iso_time(stamp_us), "ept": 0.005,
               "lat": lat_i / 1e7, "lon": lon_i / 1e7, "altHAE": alt, "altMSL": _round(alt - geoid, 2), "alt": _round(alt - geoid, 2),
               "epx": epx, "epy": epy, "epv": epv, "track": track, "speed": speed, "climb": 0.0, "eps": eps, "epd": epd, "epc": 0.5}
        if r.random() < 0.15:
            # error estimates drift during the run
            e2 = _err_values(r, trig["big_err"], trig["tiny_epd"])
            tpv.update({"epx": e2[0], "epy": e2[1], "epv": e2[2], "epd": e2[3], "eps": e2[4]})
        cls = field_policy[1] if field_policy[0] == "fixed" else (r.choice(allowed) if r.random() < field_policy[1] else "full")
        tpv = _apply_class(r, tpv, cls)
        if has_vru and not trig["drop_vam_fields"]:
            assert all(f in tpv for f in VAM_NEEDS)
        ops.append({"op": "tpv", "t": t_us, "tpv": tpv, "cls": cls, "traj": kind})
        last_pos = (lat_i / 1e7, lon_i / 1e7)

    # ---- clustering ops (VBS states: idle, join notification / cancelled join, leader)
    if has_vru and r.random() < 0.3:
        tcl = r.randrange(0, max(1, end_us))
        c = r.random()
        if c < 0.4:
            ops.append({"op": "cluster", "t": tcl, "call": "role_off"})
            ops.append({"op": "cluster", "t": tcl + r.choice([r.randrange(1, 2_000_000), r.randrange(2_000_000, 9_000_000)]), "call": "role_on"})
        elif c < 0.75 and trig["cluster_join"]:
            ops.append({"op": "cluster", "t": tcl, "call": "join", "cluster_id": r.randrange(0, 256)})
            if r.random() < 0.5:
                ops.append({"op": "cluster", "t": tcl + r.randrange(1, 2_500_000), "call": "cancel_join"})
            for j in range(1, r.choice([0, 10, 30])):
                ops.append({"op": "cluster", "t": tcl + j * 200_000, "call": "update", "lat": last_pos[0], "lon": last_pos[1]})
        elif trig["cluster_leader"]:
            for j in range(r.randint(3, 5)):
                ops.append({"op": "cluster", "t": tcl, "call": "nearby", "station_id": 100 + j, "lat": last_pos[0], "lon": last_pos[1]})
            ops.append({"op": "cluster", "t": tcl + 1000, "call": "create", "lat": last_pos[0], "lon": last_pos[1]})
            if r.random() < 0.5:
                ops.append({"op": "cluster", "t": tcl + r.randrange(200_000, 3_000_000), "call": "breakup"})

    # ---- DEN requests
    host: dict = {}
    if has_den:
        host["den"] = {"duration_ms": r.choice([1000, 2000, 3000, 5000])}
        for _ in range(r.randint(1, 3)):
            cand = [o for o in ops if o["op"] == "tpv"]
            src = r.choice(cand)
            tq = src["t"] + r.randrange(0, 50_000)
            c = r.random()
            if c < 0.6:
                ops.append({"op": "eva", "t": tq, "tpv": src["tpv"]})
            else:
                tpv = src["tpv"]
                evp = {"latitude": int(round(tpv["lat"] * 1e7)) if "lat" in tpv else 900000001,
                       "longitude": int(round(tpv["lon"] * 1e7)) if "lon" in tpv else 1800000001,
                       "positionConfidenceEllipse": {"semiMajorConfidence": r.choice([4095, 4094, r.randrange(0, 4094)]),
                                                     "semiMinorConfidence": r.choice([4095, r.randrange(0, 4094)]),
                                                     "semiMajorOrientation": r.choice([3601, r.randrange(0, 3600)])},
                       "altitude": {"altitudeValue": r.choice([800001, r.randrange(-100000, 800001)]), "altitudeConfidence": "unavailable"}}
                its_now = its_ms_of_unix_ms((t0_us + tq) // 1000)
                if c < 0.8:
                    req = {"denm_interval": r.choice([100, 250, 500, 1000]), "detection_time": its_now - r.randrange(0, 5000),
                           "time_period": r.choice([300, 1000, 2000]), "quality": r.randrange(0, 8), "event_position": evp,
                           "heading": r.choice([0, 3601, r.randrange(0, 3600)]), "confidence": r.choice([2, 3, 100, 126, 127]),
                           "relevance_distance": r.choice(["lessThan50m", "lessThan200m", "lessThan1000m", "over10km"]),
                           "relevance_traffic_direction": r.choice(["allTrafficDirections", "upstreamTraffic", "oppositeTraffic"]),
                           "rhs_cause_code": "emergencyVehicleApproaching95", "rhs_subcause_code": r.choice([0, 1, 2]),
                           "rhs_event_speed": r.choice([0, 30, 3000, 16382, 16383]), "rhs_vehicle_type": r.randrange(0, 16)}
                    ops.append({"op": "denreq", "t": tq, "req": req, "mode": "rhs"})
                else:
                    req = {"detection_time": its_now - r.randrange(0, 5000), "event_position": evp, "quality": r.randrange(0, 8),
                           "lcrw_cause_code": "collisionRisk97", "lcrw_subcause_code": r.choice([0, 1, 4])}
                    ops.append({"op": "denreq", "t": tq, "req": req, "mode": "crw"})

    # ---- faults
    fault_class = "none"
    if r.random() < 0.12:
        fault_class = "send_error"
        for _ in range(r.randint(1, 3)):
            ops.append({"op": "send_error", "t": r.randrange(0, max(1, end_us)), "n": r.choice([1, 1, 2])})

    ops = [o for _, _, o in sorted(((o["t"], i, o) for i, o in enumerate(ops)), key=lambda x: (x[0], x[1]))]

    if has_ca or has_den:
        role = r.choice([0, 0, 0, 1, 5, 6, 7, r.randrange(0, 16)])
        if role in (8, 13, 14, 15) and not trig["odd_role"]:
            role = r.choice([2, 3, 4, 9, 10, 11, 12])
        special = {1: "publicTransport", 6: "emergency", 7: "safetyCar"}.get(role) if r.random() < 0.7 else None
        host["ca"] = {"station_id": r.choice([1, 0, 4294967295, r.getrandbits(32)]),
                      "station_type": r.choice([5, 5, r.randrange(0, 16), 2, 3, 4]) if (c11 or r.random() < 0.3) else 5,
                      "drive_direction": r.choice(["forward", "backward", "unavailable"]),
                      "length": r.choice([1023, 42, 1]), "width": r.choice([62, 18, 1]), "role": role,
                      "lights": r.choice([0, 0x80, 0x55]), "special": special}
    if has_vru:
        host["vru"] = {"station_id": r.choice([2, 0, 4294967295, r.getrandbits(32)]),
                       "station_type": r.choice([1, 1, 2, r.randrange(0, 16)]), "cluster": r.random() < 0.8,
                       "profile": r.choice(["pedestrian", "bicyclistAndLightVruVehicle", "motorcyclist", "animal"])}

    tail_us = r.choice([1_500_000, 2_500_000])
    cfg = {"t0_us": t0_us, "net_seed": r.getrandbits(32), "run_limit_us": end_us + tail_us, "rate_hz": rate,
           "t0_class": t0_cls, "timer_late_us": r.choice([0, 0, 300, 2000]), "timer_early_us": r.choice([0, 0, 0, 400]),
           "fault_class": fault_class, "clean": clean, "triggers": trig, "fix_age_ms": fix_age_ms, "wild": wild,
           "field_policy": list(field_policy), "long": long_run,
           "max_events": int(n_total * 6 + (end_us + tail_us) / 1e6 * 40 + 20_000)}
    if c11:
        skew = r.choice([0, r.randrange(0, 999), r.randrange(0, 20)])
        if trig["rx_behind"] and r.random() < 0.6:
            skew = -r.choice([r.randrange(1, 20), r.randrange(20, 999)])
        cfg["rx"] = {"delay_us": [2_000, r.choice([5_000, 50_000, 400_000])], "p_far": r.choice([0.0, 0.05, 0.3]),
                     "far_us": [1_000_000, 64_000_000]}
        cfg["clock_offset_ms"] = {"rx": skew}
        if cfg["rx"]["p_far"] > 0 and not long_run:
            cfg["run_limit_us"] = end_us + r.choice([tail_us, 20_000_000, 66_000_000])
            cfg["max_events"] += 3000
    stations = []
    if c11 and not long_run and r.random() < 0.1:
        # a real GN + BTP stack below the services and a second real station as receiver (C11 receiver-side clause end to end)
        cfg["stack"] = "real"
        cfg["latency_us"] = [100, r.choice([2000, 20000])]
        first = next((o["tpv"] for o in ops if o["op"] == "tpv" and "lat" in o["tpv"] and "lon" in o["tpv"]), {"lat": 41.0, "lon": 2.0})
        pos = [int(round(first["lat"] * 1e7)), int(round(first["lon"] * 1e7))]
        stations = [{"mac": "02aabbccdd01", "st": 5, "pos": pos}, {"mac": "02aabbccdd02", "st": 5, "pos": pos}]
    # fault (own PRNG stream): the next position report is delivered while a CAM is being sent (GNSS thread vs CAM timer thread)
    rm = random.Random(run_seed ^ 0x3D5E9D)
    if has_ca and not c11 and rm.random() < 0.3:
        cfg["mid_send"] = {"rate": rm.choice([0.1, 0.3, 0.6]), "max_ahead_us": int(1.5 * dt_us)}
    return {"engine": "fac", "property": prop, "config": cfg, "stations": stations, "host": host, "ops": ops}


# ------------------------------------------------------------------------------------------ shrinkers
def shrink_candidates(plan: dict):
    """Extra shrinking after ddmin: defaults for swarm knobs that add noise, fewer optional report fields kept as is."""
    cfg = plan["config"]
    for key, val in (("timer_late_us", 0), ("timer_early_us", 0), ("rx", None), ("clock_offset_ms", {})):
        if cfg.get(key) not in (val, None):
            c = dict(plan)
            c["config"] = dict(cfg)
            if val is None:
                c["config"].pop(key, None)
            else:
                c["config"][key] = val
            yield c
    if plan["ops"]:
        last = max(o["t"] for o in plan["ops"])
        if cfg.get("run_limit_us", 0) > last + 2_600_000:
            c = dict(plan)
            c["config"] = dict(cfg)
            c["config"]["run_limit_us"] = last + 2_500_000
            yield c


def truncating_shrinker(execute, rule_pred=None):
    """Shrinker factory: cut the plan shortly after the first violation (time known from a trial execution)."""
    def shrink(plan):
        try:
            res = execute(plan)
        except Exception:  # noqa: BLE001
            return
        ts = sorted(v.get("t_us", 0) for v in res.get("violations", []) if v.get("t_us") is not None)
        for t in ts[:3]:
            cut = t + 1
            ops = [o for o in plan["ops"] if o["t"] <= cut]
            if len(ops) < len(plan["ops"]):
                c = dict(plan)
                c["ops"] = ops
                c["config"] = dict(plan["config"])
                c["config"]["run_limit_us"] = min(plan["config"].get("run_limit_us", cut), cut + 2_500_000)
                yield c
    return shrink
