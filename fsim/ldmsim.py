"""`ldm` engine: executes an explicit plan against the real Local Dynamic Map (IF.LDM.3 / IF.LDM.4 obtained from
LDMFactory) in virtual time and steps reference models in lock-step (C12 store, C13 queries, C14 subscriptions).

Layout of this file
  1. message templates (hand-written dictionaries with the shape the repo's CAM/VAM/DENM coders produce)
  2. reference side: canonical form, filter evaluator, ordering check
  3. Lane  = one real LDM (one back-end) + its reference model + spies (GC passes, attendances, callbacks)
  4. LdmSim = kernel, patches, scratch directory, plan executor
  5. plan generator shared by props/c12.py, c13.py, c14.py

Oracles are written from the property statements (tmp/w/prop_C1[234].json), never from the code under test.
Nothing that reaches kernel.record / trace / violations contains ids, hashes or addresses.
"""
from __future__ import annotations

import copy
import json
import math
import os
import random
import shutil
import tempfile

from .kernel import Kernel
from .patching import Patches, patch_module_time_threading
from .result import finish

ITS_EPOCH_S = 1072915200          # 2004-01-01T00:00:00Z
LEAP_S = 5                        # leap seconds since the ITS epoch (TS 102 894-2 TimestampIts is TAI based)
ALL_TYPES = tuple(range(1, 22))
AUDITOR_APP = 21                  # reserved consumer used by the harness for its after-op audit (never used by plans)
TYPE_NAME = {1: "denm", 2: "cam", 3: "poi", 6: "ivim", 16: "vam"}
RELEVANCE_M = {0: 50, 1: 100, 2: 200, 3: 500, 4: 1000, 5: 5000, 6: 10000}
OPS8 = ["==", "!=", ">", "<", ">=", "<=", "like", "notlike"]
OPCLASS = {"==": "eq", "!=": "eq", ">": "ord", "<": "ord", ">=": "ord", "<=": "ord", "like": "like", "notlike": "like"}


def its_ms(now_us: int) -> int:
    """ITS timestamp (ms) of a virtual instant."""
    return (now_us - ITS_EPOCH_S * 1_000_000 + LEAP_S * 1_000_000) // 1000


def its_ms_floor_s(now_us: int) -> int:
    """ITS timestamp of the instant read on a clock with one-second resolution."""
    return ((now_us // 1_000_000) - ITS_EPOCH_S + LEAP_S) * 1000


# ------------------------------------------------------------------------------------------ 1. templates
def _refpos(lat, lon, alt, denm=False):
    if denm:
        ell = {"semiMajorConfidence": 100, "semiMinorConfidence": 50, "semiMajorOrientation": 900}
    else:
        ell = {"semiMajorAxisLength": 100, "semiMinorAxisLength": 50, "semiMajorAxisOrientation": 900}
    return {"latitude": lat, "longitude": lon, "positionConfidenceEllipse": ell,
            "altitude": {"altitudeValue": alt, "altitudeConfidence": "alt-000-10"}}


def _cam(sid, serial, lat, lon, alt):
    return {"header": {"protocolVersion": 2, "messageId": 2, "stationId": sid},
            "cam": {"generationDeltaTime": serial, "camParameters": {
                "basicContainer": {"stationType": 5, "referencePosition": _refpos(lat, lon, alt)},
                "highFrequencyContainer": ("basicVehicleContainerHighFrequency", {
                    "heading": {"headingValue": 900, "headingConfidence": 10},
                    "speed": {"speedValue": 1200, "speedConfidence": 5},
                    "driveDirection": "forward",
                    "vehicleLength": {"vehicleLengthValue": 42, "vehicleLengthConfidenceIndication": "noTrailerPresent"},
                    "vehicleWidth": 18,
                    "longitudinalAcceleration": {"value": 3, "confidence": 10},
                    "curvature": {"curvatureValue": 0, "curvatureConfidence": "unavailable"},
                    "curvatureCalculationMode": "yawRateUsed",
                    "yawRate": {"yawRateValue": 0, "yawRateConfidence": "unavailable"}})}}}


def _vam(sid, serial, lat, lon, alt):
    return {"header": {"protocolVersion": 3, "messageId": 16, "stationId": sid},
            "vam": {"generationDeltaTime": serial, "vamParameters": {
                "basicContainer": {"stationType": 1, "referencePosition": _refpos(lat, lon, alt)},
                "vruHighFrequencyContainer": {
                    "heading": {"value": 1800, "confidence": 10},
                    "speed": {"speedValue": 150, "speedConfidence": 5},
                    "longitudinalAcceleration": {"longitudinalAccelerationValue": 0,
                                                 "longitudinalAccelerationConfidence": 102}}}}}


def _denm(sid, serial, lat, lon, alt):
    return {"header": {"protocolVersion": 2, "messageId": 1, "stationId": sid},
            "denm": {"management": {"actionId": {"originatingStationId": sid, "sequenceNumber": serial},
                                    "detectionTime": 700000000000, "referenceTime": 700000000001,
                                    "eventPosition": _refpos(lat, lon, alt, denm=True),
                                    "validityDuration": 600, "stationType": 5}}}


def make_content(tpl: str, sid: int, serial: int, lat: int, lon: int, alt: int, fields: dict | None = None) -> dict:
    """Build one message dictionary.  `serial` makes every content version unique inside a run."""
    if tpl.startswith("cam"):
        d = _cam(sid, serial, lat, lon, alt)
        p = d["cam"]["camParameters"]
        if tpl == "cam_pt":          # optional special-vehicle container (CHOICE -> tuple), JSON-safe
            p["specialVehicleContainer"] = ("publicTransportContainer", {"embarkationStatus": False})
        elif tpl == "cam_lf":        # optional LF container; its mandatory exteriorLights is a BIT STRING (bytes, nbits)
            p["lowFrequencyContainer"] = ("basicVehicleContainerLowFrequency",
                                          {"vehicleRole": "default", "exteriorLights": (b"\x80", 8), "pathHistory": []})
    elif tpl.startswith("vam"):
        d = _vam(sid, serial, lat, lon, alt)
        p = d["vam"]["vamParameters"]
        if tpl in ("vam_lf", "vam_lights"):
            p["vruLowFrequencyContainer"] = {"profileAndSubprofile": ("pedestrian", "ordinary-pedestrian"),
                                             "sizeClass": "medium"}
        if tpl == "vam_lights":
            p["vruLowFrequencyContainer"]["exteriorLights"] = {"vehicular": (b"\x00", 8), "vruSpecific": (b"\x40", 8)}
    elif tpl.startswith("denm"):
        d = _denm(sid, serial, lat, lon, alt)
        if tpl in ("denm_sit", "denm_ala"):
            d["denm"]["situation"] = {"informationQuality": 3, "eventType": {"ccAndScc": ("roadworks3", 0)}}
        if tpl == "denm_ala":
            d["denm"]["alacarte"] = {"lanePosition": 1, "externalTemperature": 20}
            d["denm"]["management"]["termination"] = "isCancellation"
    elif tpl == "poi":
        d = {"header": {"protocolVersion": 1, "messageId": 3, "stationId": sid},
             "poi": {"serial": serial, "name": "charging-point", "category": 2,
                     "position": {"latitude": lat, "longitude": lon}}}
    elif tpl == "ivim":
        d = {"header": {"protocolVersion": 2, "messageId": 6, "stationId": sid},
             "ivim": {"mandatory": {"serviceProviderId": {"countryCode": "ES", "providerIdentifier": 7},
                                    "iviIdentificationNumber": serial, "iviStatus": 1}}}
    else:
        raise ValueError("unknown template " + tpl)
    for path, val in sorted((fields or {}).items()):
        cur = d
        keys = path.split(".")
        ok = True
        for k in keys[:-1]:
            if isinstance(cur, dict) and isinstance(cur.get(k), dict):
                cur = cur[k]
            else:
                ok = False
                break
        if ok and isinstance(cur, dict) and keys[-1] in cur:   # only existing leaves are overridden (shape stays valid)
            cur[keys[-1]] = val
    return d


TPL_TYPE = {"cam": 2, "cam_pt": 2, "cam_lf": 2, "vam": 16, "vam_lf": 16, "vam_lights": 16,
            "denm": 1, "denm_sit": 1, "denm_ala": 1, "poi": 3, "ivim": 6}
TPL_BITS = {"cam_lf", "vam_lights"}            # contain BIT STRING values (bytes)

# attribute catalogue: path -> (kind, templates that carry it)
_ALL = set(TPL_TYPE)
_CAMS = {"cam", "cam_pt", "cam_lf"}
_VAMS = {"vam", "vam_lf", "vam_lights"}
_DENMS = {"denm", "denm_sit", "denm_ala"}
ATTRS = {
    "header.stationId": ("int", _ALL), "header.messageId": ("int", _ALL), "header.protocolVersion": ("int", _ALL),
    "cam.generationDeltaTime": ("int", _CAMS),
    "cam.camParameters.basicContainer.stationType": ("int", _CAMS),
    "cam.camParameters.basicContainer.referencePosition.altitude.altitudeConfidence": ("str", _CAMS),
    "vam.generationDeltaTime": ("int", _VAMS),
    "vam.vamParameters.basicContainer.stationType": ("int", _VAMS),
    "vam.vamParameters.vruHighFrequencyContainer.speed.speedValue": ("int", _VAMS),
    "vam.vamParameters.vruLowFrequencyContainer.sizeClass": ("str", {"vam_lf", "vam_lights"}),
    "denm.management.stationType": ("int", _DENMS),
    "denm.management.actionId.sequenceNumber": ("int", _DENMS),
    "denm.management.termination": ("str", {"denm_ala"}),
    "denm.situation.informationQuality": ("int", {"denm_sit", "denm_ala"}),
    "denm.alacarte.externalTemperature": ("int", {"denm_ala"}),
    "poi.name": ("str", {"poi"}), "poi.category": ("int", {"poi"}),
    "ivim.mandatory.iviStatus": ("int", {"ivim"}),
}
# order attributes are leaf names (OrderTupleValue docstring: '"generationDeltaTime" or "latitude"'); only names that are
# unique inside a stored record are used so that "the requested attribute" is unambiguous
ORDER_ATTRS = {"stationId": _ALL, "messageId": _ALL, "generationDeltaTime": _CAMS | _VAMS, "sequenceNumber": _DENMS,
               "informationQuality": {"denm_sit", "denm_ala"}, "speedValue": _VAMS, "sizeClass": {"vam_lf", "vam_lights"},
               "externalTemperature": {"denm_ala"}}


# ------------------------------------------------------------------------------------------ 2. reference side
def _jd(o):
    if isinstance(o, (bytes, bytearray)):
        return {"__bytes__": bytes(o).hex()}
    raise TypeError(type(o).__name__)


def canon(x) -> str:
    """Canonical text of a message/record (tuple == list: a JSON back-end may legitimately turn one into the other)."""
    try:
        return json.dumps(x, sort_keys=True, default=_jd, separators=(",", ":"))
    except (TypeError, ValueError):
        return "!uncanonical:" + type(x).__name__


MISSING = object()


def serial_of(content):
    """The run-unique serial number the harness put into a message (None if the shape is not one of the templates)."""
    try:
        if "cam" in content:
            return content["cam"]["generationDeltaTime"]
        if "vam" in content:
            return content["vam"]["generationDeltaTime"]
        if "denm" in content:
            return content["denm"]["management"]["actionId"]["sequenceNumber"]
        if "poi" in content:
            return content["poi"]["serial"]
        if "ivim" in content:
            return content["ivim"]["mandatory"]["iviIdentificationNumber"]
    except (KeyError, TypeError):
        return None
    return None


def get_path(content: dict, path: str):
    cur = content
    for k in path.split("."):
        if isinstance(cur, dict) and k in cur:
            cur = cur[k]
        else:
            return MISSING
    return cur


def find_leaf(d, name):
    """Value of the (unique) key `name` inside nested dictionaries, MISSING if absent."""
    if isinstance(d, dict):
        if name in d:
            return d[name]
        for k in sorted(d):
            v = find_leaf(d[k], name)
            if v is not MISSING:
                return v
    return MISSING


def _family(v):
    if isinstance(v, bool):
        return "bool"
    if isinstance(v, (int, float)):
        return "num"
    if isinstance(v, str):
        return "str"
    return "other"


def eval_statement(content: dict, st: dict):
    """True / False / None (None = the statement does not decide; no verdict).  Returns (value, missing, mismatch)."""
    v = get_path(content, st["attr"])
    if v is MISSING:
        return False, True, False          # 'an object lacking an attribute simply not matching'
    op, ref = st["op"], st["val"]
    fv, fr = _family(v), _family(ref)
    if fv in ("other", "bool") or fr in ("other", "bool"):
        return None, False, False
    if op in ("like", "notlike"):
        res = (fv == "str") and (str(ref) in v)
        return (res if op == "like" else not res), False, fv != "str"
    if fv != fr:
        if op == "==":
            return False, False, True
        if op == "!=":
            return True, False, True
        return False, False, True          # an ordering comparison between a number and a text is not true
    if op == "==":
        return v == ref, False, False
    if op == "!=":
        return v != ref, False, False
    if op == ">":
        return v > ref, False, False
    if op == "<":
        return v < ref, False, False
    if op == ">=":
        return v >= ref, False, False
    if op == "<=":
        return v <= ref, False, False
    raise ValueError(op)


def eval_filter(content: dict, flt: dict | None):
    """(verdict, some_missing, some_mismatch); verdict True/False/None."""
    if flt is None:
        return True, False, False
    a, ma, xa = eval_statement(content, flt["s1"])
    if flt.get("s2") is None:
        return a, ma, xa
    b, mb, xb = eval_statement(content, flt["s2"])
    miss, mism = ma or mb, xa or xb
    if flt["logic"] == "and":
        if a is False or b is False:
            return False, miss, mism
        if a is None or b is None:
            return None, miss, mism
        return True, miss, mism
    # or: when one side lacks its attribute the statement leaves open whether the other side alone suffices
    if ma or mb:
        if (ma and mb) or (a is False and b is False):
            return False, miss, mism
        return None, miss, mism
    if a is True or b is True:
        return True, miss, mism
    if a is None or b is None:
        return None, miss, mism
    return False, miss, mism


def order_violation(records: list, order: list):
    """records: list of stored-record dicts in returned order.  Returns a description of the first adjacent pair that
    contradicts the requested order, or None.  Pairs whose keys are not comparable / not all present give no verdict."""
    def keys(rec):
        out = []
        for attr, _d in order:
            v = find_leaf(rec.get("dataObject") if isinstance(rec, dict) else None, attr)
            if v is MISSING or _family(v) not in ("num", "str"):
                return None
            out.append(v)
        return out
    prev = None
    for i, rec in enumerate(records):
        k = keys(rec)
        if k is None:
            prev = None
            continue
        if prev is not None:
            for (attr, d), x, y in zip(order, prev, k):
                if _family(x) != _family(y):
                    break
                if x == y:
                    continue
                if (x < y) != (d == "asc"):
                    return f"position {i - 1}->{i}: {attr} {x!r} before {y!r} with direction {d}"
                break
        prev = k
    return None


# ------------------------------------------------------------------------------------------ 3. one real LDM + model
LOC_LEAVES = ["latitude", "longitude", "altitudeValue", "altitudeConfidence", "semiMajorConfidence", "semiMinorConfidence",
              "semiMajorOrientation", "radius", "relevanceDistance", "relevanceTrafficDirection"]
RECORD_KEYS = {"application_id", "timestamp", "location", "dataObject", "timeValidity"}
SUB_CODE = {"itsaid": 1, "type": 2, "priority": 3, "interval": 5, "multiplicity": 6}
OPNAME = {"register_provider": "register_data_provider", "deregister_provider": "deregister_data_provider",
          "register_consumer": "register_data_consumer", "deregister_consumer": "deregister_data_consumer",
          "add": "add_provider_data", "update": "update_provider_data", "delete": "delete_provider_data",
          "query": "request_data_objects", "subscribe": "subscribe_data_consumer",
          "unsubscribe": "unsubscribe_data_consumer", "advance": "advance", "collect_trash": "collect_trash",
          "attend": "attend_subscriptions"}


class Obj:
    __slots__ = ("label", "id", "app", "type", "ts_ms", "loc", "validity", "expiry_ms", "versions", "content", "zone",
                 "state", "tainted", "tpl")

    def __init__(self, **kw):
        for k, v in kw.items():
            setattr(self, k, v)


class Sub:
    __slots__ = ("label", "app", "types", "filter", "order", "notify_ms", "mult", "t_sub_us", "t_last_us", "alive",
                 "dead_reason", "cb", "flagged", "real_id", "sig")

    def __init__(self, **kw):
        for k, v in kw.items():
            setattr(self, k, v)


class Lane:
    def __init__(self, sim, backend: str, idx: int):
        self.sim = sim
        self.k = sim.kernel
        self.backend = backend
        self.idx = idx
        self.providers: set = set()
        self.consumers: set = set()
        self.objs: dict = {}              # label -> Obj
        self.by_content: dict = {}        # canonical content -> (label, version index)
        self.by_serial: dict = {}
        self.unexpected: set = set()
        self.unknown_seen: set = set()
        self.ids_seen: set = set()
        self.subs: dict = {}              # label -> Sub
        self.pending: list = []
        self.in_call = None
        self.explicit_attend = False
        self.cur_att = None
        self.last_query = None
        self.n_gc = 0
        self.ldm = None
        self.corrupt = False             # store holds a mangled record (C12 reports it); C13/C14 verdicts stop on this lane

    # ---------------------------------------------------------------- set-up
    def setup(self):
        sim, cfg = self.sim, self.sim.cfg
        C = sim.C
        lat, lon, alt = cfg["ldm_pos"]
        loc = C.Location.initializer(latitude=lat, longitude=lon, altitude_value=alt, relevance_distance=cfg["relevance"])
        sim.tinydb_dir = os.path.join(sim.scratch, f"lane{self.idx}") if sim.scratch else None
        self.ldm = sim.factory_mod.LDMFactory().create_ldm(loc, ldm_maintenance_type=cfg["maintenance"],
                                                           ldm_service_type=cfg["service"], ldm_database_type=self.backend)
        self.if3, self.if4 = self.ldm.if_ldm_3, self.ldm.if_ldm_4
        self.service, self.maint = self.ldm.ldm_service, self.ldm.ldm_maintenance
        lane = self
        orig_ct = self.maint.collect_trash
        orig_att = self.service.attend_subscriptions

        def spy_collect_trash():
            t = lane.k.now_us
            try:
                orig_ct()
            except Exception as e:      # code under test raised: recorded, judged, re-raised unchanged
                lane.event(("gc", t, e))
                raise
            lane.event(("gc", t, None))

        def spy_attend():
            rec = {"t": lane.k.now_us, "kind": lane.att_kind(), "calls": [], "exc": None}
            outer, lane.cur_att = lane.cur_att, rec
            try:
                orig_att()
            except Exception as e:
                rec["exc"] = e
                raise
            finally:
                lane.cur_att = outer
                lane.event(("att", rec))

        self.maint.collect_trash = spy_collect_trash
        self.service.attend_subscriptions = spy_attend
        r = self.if4.register_data_consumer(C.RegisterDataConsumerReq(AUDITOR_APP, tuple(C.AccessPermission(i) for i in ALL_TYPES),
                                                                      C.GeometricArea(None, None, None)))
        if int(r.result) != 0:
            sim.probe("auditor-registration-refused")
        self.consumers.add(AUDITOR_APP)

    def close(self):
        try:
            db = self.maint.data_containers
            if self.backend == "TinyDB":
                db.database.close()
        except Exception:
            pass

    def att_kind(self):
        if self.explicit_attend:
            return "explicit"
        if self.in_call == "add":
            return "reactive"
        return "periodic"

    # ---------------------------------------------------------------- plumbing
    def violate(self, prop, rule, key, detail):
        if self.corrupt and prop in ("C13", "C14"):
            self.sim.probe("verdict-skipped-on-corrupted-store")
            return
        self.sim.violate(prop, rule, key, f"[{self.backend}/{self.sim.cfg['maintenance']}/{self.sim.cfg['service']}] " + detail)

    def call(self, name, fn, *args):
        """Harness boundary of one operation: exceptions of the code under test are caught here."""
        self.in_call = name
        try:
            return fn(*args), None
        except Exception as e:          # noqa: BLE001
            return None, e
        finally:
            self.in_call = None

    def event(self, ev):
        if self.in_call is not None:
            self.pending.append(ev)
            return
        try:
            self.process(ev)
        except Exception as e:          # harness failure inside a simulated thread: re-raised by execute()
            if self.sim.harness_exc is None:
                self.sim.harness_exc = e

    def drain(self):
        evs, self.pending = self.pending, []
        for ev in evs:
            self.process(ev)

    def process(self, ev):
        if ev[0] == "gc":
            self.process_gc(ev[1], ev[2])
        else:
            self.process_att(ev[1])

    def status(self, o: Obj, now_us: int) -> str:
        """must / may / no : is the object to be returned by an unfiltered query for its type right now?"""
        if o.tainted:
            return "may"
        if o.state != "live":
            return "no"
        if o.zone == "outside":
            return "may"                 # maintenance may legitimately discard objects outside its area
        return "must" if its_ms(now_us) < o.expiry_ms else "may"

    def flat_loc(self, loc):
        try:                                # usual shape first (speed); any other shape is searched by leaf name
            rp, ra = loc["referencePosition"], loc["referenceArea"]
            el, al = rp["positionConfidenceEllipse"], rp["altitude"]
            return {"latitude": rp["latitude"], "longitude": rp["longitude"], "altitudeValue": al["altitudeValue"],
                    "altitudeConfidence": al["altitudeConfidence"], "semiMajorConfidence": el["semiMajorConfidence"],
                    "semiMinorConfidence": el["semiMinorConfidence"], "semiMajorOrientation": el["semiMajorOrientation"],
                    "radius": ra["geometricArea"]["circle"]["radius"],
                    "relevanceDistance": ra["relevanceArea"]["relevanceDistance"],
                    "relevanceTrafficDirection": ra["relevanceArea"]["relevanceTrafficDirection"]}
        except (KeyError, TypeError):
            pass
        out = {}
        for name in LOC_LEAVES:
            v = find_leaf(loc, name)
            out[name] = None if v is MISSING else v
        return out

    def index(self, o: Obj):
        for i, c in enumerate(o.versions):
            self.by_content[c] = (o.label, i)
        # fast path for identification: serial number -> (label, version, content as given, content after a JSON round trip)
        ser = serial_of(o.content)
        if ser is not None:
            try:
                js = json.loads(json.dumps(o.content))
            except (TypeError, ValueError):
                js = None
            self.by_serial[ser] = (o.label, len(o.versions) - 1, o.content, js)

    # ---------------------------------------------------------------- maintenance passes
    def process_gc(self, t_us, exc):
        self.n_gc += 1
        if exc is not None:
            self.sim.probe("gc-raised")
            where = self.sim.cur_opname or "collect_trash"
            self.violate("C12", "operation-raised", f"collect_trash/{self.backend}/{type(exc).__name__}",
                         f"maintenance pass (during {where}) raised {exc!r}")
            return
        edge = its_ms_floor_s(t_us)
        for o in self.objs.values():
            if o.state == "live" and not o.tainted and o.expiry_ms < edge:
                o.state = "gone"
                self.sim.probe("gc-collected-expired")
            elif o.state == "live" and not o.tainted and o.expiry_ms < its_ms(t_us):
                self.sim.probe("gc-within-expiry-second")
        # what the pass did to the store is judged at once, so that losses are attributed to the maintenance pass
        # and the objects concerned carry no further verdicts in the query / subscription oracles
        self.audit("collect_trash")

    # ---------------------------------------------------------------- identification of returned records
    def identify(self, rec):
        """-> (label, version index, kind) ; kind in record / bare / unknown"""
        if isinstance(rec, dict) and isinstance(rec.get("dataObject"), dict):
            do = rec["dataObject"]
            ser = serial_of(do)
            fast = self.by_serial.get(ser) if isinstance(ser, int) else None
            if fast is not None and (do == fast[2] or do == fast[3]):
                return fast[0], fast[1], "record"
            hit = self.by_content.get(canon(do))
            if hit:
                return hit[0], hit[1], "record"
            return None, None, "unknown"
        hit = self.by_content.get(canon(rec))
        if hit:
            return hit[0], hit[1], "bare"
        return None, None, "unknown"

    def compare_record(self, o: Obj, rec) -> list:
        diffs = []
        if rec.get("application_id") != o.app:
            diffs.append("application_id")
        if rec.get("timestamp") != o.ts_ms:
            diffs.append("timestamp")
        if rec.get("timeValidity") != o.validity:
            diffs.append("timeValidity")
        fl = self.flat_loc(rec.get("location"))
        for name in LOC_LEAVES:
            if fl[name] != o.loc[name]:
                diffs.append("location." + name)
        return diffs

    def judge_store_view(self, records, opname, target, types, via):
        """C12: compare what an unfiltered read returned with the reference map.  `types` = requested types."""
        now = self.k.now_us
        key = f"{opname}/{self.backend}"
        seen = {}
        for rec in records:
            label, ver, kind = self.identify(rec)
            if kind == "unknown":
                self.sim.probe("unknown-record-returned")
                c = canon(rec)
                if c in self.unknown_seen:
                    continue
                self.unknown_seen.add(c)
                self.violate("C12", "content-differs", key, f"{via} after {opname} returned a record whose content no "
                             f"operation ever stored: {canon(rec)[:160]}")
                continue
            o = self.objs[label]
            seen[label] = seen.get(label, 0) + 1
            if label in self.unexpected:
                self.unexpected.discard(label)
                self.violate("C12", "unregistered-accepted", f"add_provider_data/{self.backend}", f"object #{label} added by "
                             f"unregistered provider {o.app!r} is stored (the add call itself raised)")
            if opname == "collect_trash" and label == self._target_label and self.sim.cur_opname != "collect_trash":
                continue                  # the object the running operation is about is judged by that operation's own audit
            unreg = opname == "update_provider_data" and target == label and self._last_exp == "refuse-unregistered"
            if kind == "bare":
                if not o.tainted:
                    rule = "update-changed-more" if opname == "update_provider_data" and target == label else "other-object-changed"
                    if unreg:
                        rule = "unregistered-accepted"
                    self.violate("C12", rule, key, f"object #{label}: stored record was replaced by the bare message "
                                 "(application id, timestamp, location and validity lost)")
                    o.tainted = True
                self.corrupt = True
                continue
            if o.tainted:
                continue
            st = self.status(o, now)
            if st == "no":
                rule = "returned-after-delete" if o.state == "deleted" else "returned-after-expiry-gc"
                self.violate("C12", rule, key, f"object #{label} ({TYPE_NAME.get(o.type)}) is still returned by {via} after "
                             + ("a successful delete" if o.state == "deleted" else "a maintenance pass ran past its expiry"))
                o.tainted = True
                continue
            extra = sorted(set(rec) - RECORD_KEYS)
            if extra:
                rule = "update-changed-more" if opname == "update_provider_data" and target == label else "other-object-changed"
                if unreg:
                    rule = "unregistered-accepted"
                self.violate("C12", rule, key, f"object #{label}: stored record gained top-level keys {extra}")
                o.tainted = True
                self.corrupt = True
                continue
            if ver == -1:
                self.violate("C12", "unregistered-accepted" if unreg else "content-differs", key, f"object #{label}: a refused "
                             "update nevertheless replaced the stored content")
                o.tainted = True
                continue
            if ver != len(o.versions) - 1:
                self.violate("C12", "content-differs", key, f"object #{label}: returned content is version {ver} of "
                             f"{len(o.versions) - 1} (a valid update is not reflected)")
                o.tainted = True
                continue
            diffs = self.compare_record(o, rec)
            if diffs:
                if opname == "update_provider_data" and target == label:
                    rule = "update-changed-more"
                elif opname == "add_provider_data" and target == label:
                    rule = "content-differs"
                else:
                    rule = "other-object-changed"
                self.violate("C12", rule, key + ("/" + diffs[0] if rule == "content-differs" else ""),
                             f"object #{label}: {', '.join(diffs)} differ from what it was added with "
                             f"(e.g. {diffs[0]}: returned {self._leaf(rec, diffs[0])!r})")
                o.tainted = True
        for label, o in self.objs.items():
            if o.tainted or label in seen or o.type not in types:
                continue
            if self.status(o, now) == "must":
                self.violate("C12", "add-lost", f"{key}/{'at-ldm-position' if o.zone == 'near' else 'inside-area'}",
                             f"object #{label} ({TYPE_NAME.get(o.type)}, zone {o.zone}, validity "
                             f"{o.validity}s, {(o.expiry_ms - its_ms(now)) / 1000:.1f}s before expiry) is not returned by {via}")
                if via.startswith("an unfiltered request") and o.zone != "near":
                    # the audit is itself a data request (no filter, all types): in a C13 run a stored object missing from it is a
                    # query defect in its own right (otherwise the taint below would silently blind every later C13 verdict on it)
                    self.violate("C13", "result-set-differs", f"{self.backend}/nofilter/all-types/stored-object-missing",
                                 f"an unfiltered request for all types after {opname} does not return object #{label} "
                                 f"({TYPE_NAME.get(o.type)}), which is stored, valid and of a requested type")
                o.tainted = True
        for label, n in seen.items():
            if n > 1:
                self.sim.probe("duplicate-record-returned")
                if not self.objs[label].tainted:
                    # a map from identifier to object holds every object once
                    self.violate("C12", "content-differs", key + "/object-returned-twice", f"object #{label} is returned {n} times by {via}")

    def _leaf(self, rec, name):
        if name.startswith("location."):
            v = find_leaf(rec.get("location"), name.split(".", 1)[1])
        else:
            v = rec.get(name, MISSING)
        return None if v is MISSING else v

    def check_registries(self, opname):
        key = f"{opname}/{self.backend}"
        try:
            rp = set(self.service.get_data_provider_its_aid())
            rc = set(self.service.get_data_consumer_its_aid())
        except Exception as e:          # noqa: BLE001
            self.violate("C12", "operation-raised", key + "/" + type(e).__name__, f"registry getter raised {e!r}")
            return
        if rp != self.providers:
            self.violate("C12", "registration-changed", key, f"provider registry is {sorted(map(str, rp))}, the history of "
                         f"registrations gives {sorted(map(str, self.providers))}")
            self.providers = rp
        if rc != self.consumers:
            self.violate("C12", "registration-changed", key, f"consumer registry is {sorted(map(str, rc))}, the history of "
                         f"registrations gives {sorted(map(str, self.consumers))}")
            self.consumers = rc

    def audit(self, opname, target=None):
        C = self.sim.C
        resp, exc = self.call("audit", self.if4.request_data_objects,
                              C.RequestDataObjectsReq(AUDITOR_APP, ALL_TYPES, None, None, None))
        self.pending = []
        if exc is not None:
            self.violate("C12", "operation-raised", f"request_data_objects/{self.backend}/{type(exc).__name__}/plain",
                         f"unfiltered request for all types after {opname} raised {exc!r}")
            return
        if int(resp.result) != 0:
            self.sim.probe("audit-refused")
            return
        self.judge_store_view(list(resp.data_objects), opname, target, set(ALL_TYPES), "an unfiltered request for all types")

    # ---------------------------------------------------------------- request builders
    def _location(self, lat, lon, alt, ell=None, radius=0, rel=1):
        C = self.sim.C
        maj, mino, ori = ell or (0, 0, 0)
        return C.Location.initializer(latitude=lat, longitude=lon, semi_major_confidence=maj, semi_major_orientation=ori,
                                      semi_minor_confidence=mino, altitude_value=alt, altitude_confidence=0,
                                      radius=radius, relevance_distance=rel, relevance_traffic_direction=0), \
            {"latitude": lat, "longitude": lon, "altitudeValue": alt, "altitudeConfidence": 0, "semiMajorConfidence": maj,
             "semiMinorConfidence": mino, "semiMajorOrientation": ori, "radius": radius, "relevanceDistance": rel,
             "relevanceTrafficDirection": 0}

    def _filter(self, flt):
        if flt is None:
            return None
        C = self.sim.C
        cmpop = {"==": 0, "!=": 1, ">": 2, "<": 3, ">=": 4, "<=": 5, "like": 6, "notlike": 7}

        def st(s):
            return C.FilterStatement(s["attr"], C.ComparisonOperators(cmpop[s["op"]]), s["val"])
        if flt.get("s2") is None:
            return C.Filter(st(flt["s1"]))
        return C.Filter(st(flt["s1"]), C.LogicalOperators(0 if flt["logic"] == "and" else 1), st(flt["s2"]))

    def _order(self, order, as_tuple):
        if order is None:
            return None
        C = self.sim.C
        seq = [C.OrderTupleValue(a, C.OrderingDirection(0 if d == "asc" else 1)) for a, d in order]
        return tuple(seq) if as_tuple else seq

    def _timestamp(self, mode):
        now = self.k.now_us
        if mode == "floor":
            return its_ms_floor_s(now)
        if isinstance(mode, int):
            return its_ms(now) - mode
        return its_ms(now)

    # ---------------------------------------------------------------- operations
    def apply(self, op, idx) -> str:
        kind = op["op"]
        fn = getattr(self, "op_" + kind)
        outcome = fn(op)
        if outcome == "skipped":
            return outcome
        self.drain()
        self.check_registries(OPNAME[kind])
        if kind != "query":                  # a request changes nothing and is judged itself
            self.audit(OPNAME[kind], self._target_label)
        return outcome

    _target_label = None
    _last_exp = None

    def op_register_provider(self, op):
        C = self.sim.C
        self._target_label = None
        app, perms = op["app"], tuple(op.get("perms", [op["app"]]))
        resp, exc = self.call("reg", self.if3.register_data_provider,
                              C.RegisterDataProviderReq(app, perms, C.TimeValidity(op.get("validity_s", 5))))
        valid = isinstance(app, int) and 1 <= app <= 21 and app in perms
        if exc is not None:
            self.violate("C12", "operation-raised", f"register_data_provider/{self.backend}/{type(exc).__name__}",
                         f"register_data_provider({app!r}, {perms!r}) raised {exc!r}")
            return "raised"
        ok = int(resp.result) == 0
        if valid or ok:
            self.providers.add(app)        # a refusal of a valid registration shows up as registration-changed
        return "ok" if ok else "refused"

    def op_deregister_provider(self, op):
        C = self.sim.C
        self._target_label = None
        app = op["app"]
        was = app in self.providers
        resp, exc = self.call("dereg", self.if3.deregister_data_provider, C.DeregisterDataProviderReq(app))
        if exc is not None:
            self.violate("C12", "operation-raised", f"deregister_data_provider/{self.backend}/{type(exc).__name__}",
                         f"deregister_data_provider({app!r}) raised {exc!r}")
            return "raised"
        self.providers.discard(app)
        ok = int(resp.result) == 0
        if ok != was:
            self.violate("C12", "registration-changed", f"deregister_data_provider/{self.backend}",
                         f"deregistration of provider {app!r} answered {'accepted' if ok else 'rejected'} although it was "
                         f"{'registered' if was else 'not registered'}")
        return "ok" if ok else "refused"

    def op_register_consumer(self, op):
        C = self.sim.C
        self._target_label = None
        app, perms = op["app"], tuple(op.get("perms", [op["app"]]))
        resp, exc = self.call("reg", self.if4.register_data_consumer,
                              C.RegisterDataConsumerReq(app, perms, C.GeometricArea(None, None, None)))
        valid = isinstance(app, int) and 1 <= app <= 21 and app in perms
        if exc is not None:
            self.violate("C12", "operation-raised", f"register_data_consumer/{self.backend}/{type(exc).__name__}",
                         f"register_data_consumer({app!r}, {perms!r}) raised {exc!r}")
            return "raised"
        ok = int(resp.result) == 0
        if valid or ok:
            self.consumers.add(app)
        return "ok" if ok else "refused"

    def op_deregister_consumer(self, op):
        C = self.sim.C
        self._target_label = None
        app = op["app"]
        was = app in self.consumers
        resp, exc = self.call("dereg", self.if4.deregister_data_consumer, C.DeregisterDataConsumerReq(app))
        if exc is not None:
            self.violate("C12", "operation-raised", f"deregister_data_consumer/{self.backend}/{type(exc).__name__}",
                         f"deregister_data_consumer({app!r}) raised {exc!r}")
            return "raised"
        self.consumers.discard(app)
        if was:
            for s in self.subs.values():
                if s.alive and s.app == app:
                    s.alive, s.dead_reason = False, "deregister"
                    self.sim.probe("subscription-ended-by-deregistration")
        ok = int(resp.ack) == 0
        if ok != was:
            self.violate("C12", "registration-changed", f"deregister_data_consumer/{self.backend}",
                         f"deregistration of consumer {app!r} answered {'succeed' if ok else 'failed'} although it was "
                         f"{'registered' if was else 'not registered'}")
        return "ok" if ok else "refused"

    def op_add(self, op):
        C, sim = self.sim.C, self.sim
        lat, lon, alt = op["loc"]
        label = op["n"]
        self._target_label = label
        content = make_content(op["tpl"], op["sid"], op["serial"], lat, lon, alt, op.get("fields"))
        ts = self._timestamp(op.get("ts", "now"))
        loc, flat = self._location(lat, lon, alt, op.get("ell"), op.get("radius", 0), op.get("rel", 1))
        req = C.AddDataProviderReq(application_id=op["app"], timestamp=C.TimestampIts(ts), location=loc,
                                   data_object=copy.deepcopy(content), time_validity=C.TimeValidity(op["validity_s"]))
        expected = op["app"] in self.providers
        gc_before = self.n_gc
        resp, exc = self.call("add", self.if3.add_provider_data, req)
        key = f"add_provider_data/{self.backend}"
        oid = None
        if exc is None:
            oid = resp.data_object_id
            accepted = isinstance(oid, int) and not isinstance(oid, bool) and oid >= 0
        else:
            accepted = None
        o = Obj(label=label, id=None, app=op["app"], type=TPL_TYPE[op["tpl"]], ts_ms=ts, loc=flat, validity=op["validity_s"],
                expiry_ms=ts + op["validity_s"] * 1000, versions=[canon(content)], content=content,
                zone="near" if op.get("near") else op.get("zone", "inside"),
                state="live", tainted=False, tpl=op["tpl"])
        if exc is not None:
            inner = any(ev[0] == "gc" and ev[2] is exc or ev[0] == "att" and ev[1]["exc"] is exc for ev in self.pending)
            if not inner:
                self.violate("C12", "operation-raised", f"{key}/{type(exc).__name__}",
                             f"add of a {op['tpl']} message by {'registered' if expected else 'unregistered'} provider "
                             f"{op['app']!r} raised {exc!r}")
            o.tainted = True               # stored or not is unknown to the caller: no further verdicts on this object
            self.objs[label] = o
            self.index(o)
            if not expected:
                self.unexpected.add(label)  # ... except that a refused provider's object must not show up
            return "raised"
        if accepted and not expected:
            self.violate("C12", "unregistered-accepted", key, f"add by unregistered provider {op['app']!r} was accepted")
        if expected and not accepted:
            self.violate("C12", "add-lost", key, f"add by registered provider {op['app']!r} was refused (data_object_id={oid!r})")
        if accepted:
            if oid in self.ids_seen:
                self.violate("C12", "id-reused", key, f"the identifier returned for object #{label} was handed out before")
            self.ids_seen.add(oid)
            o.id = oid
            self.objs[label] = o
            self.index(o)
            if self.n_gc + sum(1 for ev in self.pending if ev[0] == "gc") > gc_before:
                sim.probe("reactive-gc-fired")
            return "ok"
        return "refused"

    def _target(self, op):
        """-> (obj or None, id, skip)"""
        if "ref" in op:
            o = self.objs.get(op["ref"])
            if o is None or o.id is None:
                return None, None, True
            return o, o.id, False
        return None, op["bogus"], False

    def _expect_mutation(self, op, o):
        """refuse / accept / either for update and delete, from the statement"""
        if op["app"] not in self.providers:
            return "refuse-unregistered"
        if o is None:
            return "refuse"
        st = self.status(o, self.k.now_us)
        if st == "no":
            return "refuse"
        if st == "may":
            return "either"
        if op["app"] != o.app:
            return "either"                # whether a provider may touch another provider's object is not stated
        return "accept"

    def op_update(self, op):
        C = self.sim.C
        o, oid, skip = self._target(op)
        if skip:
            return "skipped"
        self._target_label = o.label if o else None
        if o is not None:
            lat, lon, alt = o.loc["latitude"], o.loc["longitude"], o.loc["altitudeValue"]
        else:
            lat, lon, alt = self.sim.cfg["ldm_pos"]
        content = make_content(op["tpl"], op["sid"], op["serial"], lat, lon, alt, op.get("fields"))
        exp = self._expect_mutation(op, o)
        if exp == "accept" and o is not None and TPL_TYPE[op["tpl"]] != o.type:
            exp = "either"                 # a type-changing update may be refused as inconsistent
        self._last_exp = exp
        loc, _ = self._location(lat + op.get("dlat", 0), lon, alt)
        req = C.UpdateDataProviderReq(application_id=op["app"], data_object_id=oid,
                                      time_stamp=C.TimestampIts(its_ms(self.k.now_us)), location=loc,
                                      data_object=copy.deepcopy(content), time_validity=C.TimeValidity(op.get("validity_s", 7)))
        resp, exc = self.call("update", self.if3.update_provider_data, req)
        key = f"update_provider_data/{self.backend}"
        if exc is not None:
            self.violate("C12", "operation-raised", f"{key}/{type(exc).__name__}", f"update of object "
                         f"#{o.label if o else 'unknown-id'} raised {exc!r}")
            if o is not None:
                o.tainted = True
            return "raised"
        ok = int(resp.result) == 0
        if exp == "refuse-unregistered" and ok:
            self.violate("C12", "unregistered-accepted", key, f"update by unregistered provider {op['app']!r} was accepted")
        if exp == "accept" and not ok:
            self.violate("C12", "content-differs", key + "/refused-valid", f"update of live object #{o.label} by its registered "
                         f"provider with a message of the same type was refused ({resp.result!s})")
        if exp == "refuse" and ok:
            self.sim.probe("update-of-absent-object-accepted")
        applied = o is not None and (exp == "accept" or (ok and exp in ("either", "refuse-unregistered")))
        if applied:
            o.versions.append(canon(content))
            o.content = content
            o.type = TPL_TYPE[op["tpl"]]
            self.index(o)
            self.sim.probe("update-applied-in-model")
        elif o is not None and self.status(o, self.k.now_us) != "no":
            # refused (rightly or not): the proposed content must not appear; remember it so that it is recognised
            self.by_content.setdefault(canon(content), (o.label, -1))
        return "ok" if ok else "refused"

    def op_delete(self, op):
        C = self.sim.C
        o, oid, skip = self._target(op)
        if skip:
            return "skipped"
        self._target_label = o.label if o else None
        exp = self._expect_mutation(op, o)
        req = C.DeleteDataProviderReq(application_id=op["app"], data_object_id=oid,
                                      time_stamp=C.TimestampIts(its_ms(self.k.now_us)))
        resp, exc = self.call("delete", self.if3.delete_provider_data, req)
        key = f"delete_provider_data/{self.backend}"
        if exc is not None:
            self.violate("C12", "operation-raised", f"{key}/{type(exc).__name__}", f"delete raised {exc!r}")
            if o is not None:
                o.tainted = True
            return "raised"
        ok = int(resp.result) == 0
        if exp == "refuse-unregistered" and ok:
            self.violate("C12", "unregistered-accepted", key, f"delete by unregistered provider {op['app']!r} was accepted")
        if exp == "accept" and not ok:
            self.violate("C12", "returned-after-delete", key + "/refused-valid", f"delete of live object #{o.label} by its "
                         "registered provider was refused")
        if o is not None and o.state == "live" and (exp == "accept" or (ok and exp == "either")):
            o.state = "deleted"
            self.sim.probe("delete-applied-in-model")
        elif o is not None and ok and exp == "refuse-unregistered":
            o.tainted = True               # reality unknown after an unauthorised delete was accepted
        return "ok" if ok else "refused"

    def op_collect_trash(self, op):
        self._target_label = None
        _, exc = self.call("collect_trash", self.maint.collect_trash)
        return "raised" if exc is not None else "ok"

    def op_attend(self, op):
        self._target_label = None
        self.explicit_attend = True
        try:
            _, exc = self.call("attend", self.service.attend_subscriptions)
        finally:
            self.explicit_attend = False
        return "raised" if exc is not None else "ok"

    def op_advance(self, op):
        self._target_label = None
        return "ok"                        # the clock is advanced once by the simulation, not per lane

    # ---------------------------------------------------------------- queries (C12 unfiltered part, C13)
    def classify(self, types, flt, now_us):
        """-> dict label -> 'must'|'may'|'not' for live-or-maybe objects of the requested types, plus presence/mismatch."""
        out, some_lack, mismatch = {}, False, False
        attrs = [] if flt is None else [flt["s1"]["attr"]] + ([flt["s2"]["attr"]] if flt.get("s2") else [])
        for label, o in self.objs.items():
            st = self.status(o, now_us)
            if st == "no" or o.type not in types:
                continue
            v, miss, mism = eval_filter(o.content, flt)
            if any(get_path(o.content, a) is MISSING for a in attrs):
                some_lack = True
            mismatch = mismatch or mism
            if v is False:
                out[label] = "not"
            elif v is True and st == "must":
                out[label] = "must"
            else:
                out[label] = "may"
        return out, some_lack, mismatch

    def c13_key(self, flt, some_lack, mismatch, types=None):
        """operator class + attribute condition + logical operator (coarse: one defect should not fan out into dozens of keys)"""
        if flt is None:
            return f"{self.backend}/nofilter/" + ("all-types" if types is None or set(types) >= set(ALL_TYPES) else "type-subset")
        logic = "single" if flt.get("s2") is None else flt["logic"]
        cond = "some-lack" if some_lack else ("type-mismatch" if mismatch else "all-have")
        return f"{self.backend}/{OPCLASS[flt['s1']['op']]}/{cond}/{logic}"

    def judge_result(self, prop, records, types, flt, order, what, rule_set, rule_order, key, okey_base=None):
        """Exact-matching oracle shared by C13 (requests) and C14 (notifications).  Returns set of identified labels."""
        now = self.k.now_us
        cls, some_lack, mismatch = self.classify(types, flt, now)
        got, recs_known = {}, []
        for rec in records:
            label, ver, kind = self.identify(rec)
            if kind != "record":
                continue                  # unknown / bare records are C12's business
            o = self.objs[label]
            if label in got and not o.tainted:
                # "exactly those stored objects": one stored object answered twice is not the set the statement describes
                self.violate(prop, rule_set, key + "/object-returned-twice", f"{what}: object #{label} is contained more than once")
            got[label] = rec
            recs_known.append(rec)
            if o.tainted or self.status(o, now) == "no":
                continue
            if o.type not in types:
                self.violate(prop, rule_set, key, f"{what}: object #{label} of type {TYPE_NAME.get(o.type)} returned although "
                             f"only types {sorted(types)} were requested")
            elif cls.get(label) == "not":
                self.violate(prop, rule_set, key, f"{what}: object #{label} returned although the filter "
                             f"{self.sim.show_filter(flt)} is false for it")
        for label, c in sorted(cls.items()):
            if c == "must" and label not in got:
                self.violate(prop, rule_set, key, f"{what}: object #{label} ({TYPE_NAME.get(self.objs[label].type)}) matches "
                             f"{self.sim.show_filter(flt)} and types {sorted(types)} but was not returned "
                             f"({len(records)} returned, {sum(1 for x in cls.values() if x == 'must')} must match)")
        if order:
            bad = order_violation(recs_known, order)
            if bad:
                dirs = sorted({d for _, d in order})
                okey = ((okey_base or key) + ("/mixed-directions" if len(dirs) > 1 else "")) if prop == "C14" else \
                    f"{self.backend}/{'mixed' if len(dirs) > 1 else dirs[0]}/{len(order)}-attr"
                self.violate(prop, rule_order, okey,
                             f"{what}: order {order} not respected, {bad}")
        return set(got), cls

    def op_query(self, op):
        C, sim = self.sim.C, self.sim
        self._target_label = None
        types, flt, order = set(op["types"]), op.get("filter"), op.get("order")
        req = C.RequestDataObjectsReq(op["app"], tuple(op["types"]), op.get("priority"),
                                      self._order(order, op.get("order_tuple", False)), self._filter(flt))
        expected = op["app"] in self.consumers
        resp, exc = self.call("query", self.if4.request_data_objects, req)
        self.last_query = None
        cls, some_lack, mismatch = self.classify(types, flt, self.k.now_us)
        key13 = self.c13_key(flt, some_lack, mismatch, types)
        if exc is not None:
            ctx = "order" if order else ("filter" if flt else "plain")
            if order and any(find_leaf(o.content, a) is MISSING for o in self.objs.values()
                             if self.status(o, self.k.now_us) != "no" for a, _ in order):
                ctx += "-some-lack"
            for p in ("C12", "C13"):
                if p == "C13" or (flt is None and not order):
                    self.violate(p, "operation-raised", f"request_data_objects/{self.backend}/{type(exc).__name__}/{ctx}"
                                 + ("/type-mismatch" if mismatch else ""),
                                 f"request types={sorted(types)} filter={sim.show_filter(flt)} order={order} raised {exc!r}")
            return "raised"
        ok = int(resp.result) == 0
        if not expected:
            if ok:
                self.violate("C12", "unregistered-accepted", f"request_data_objects/{self.backend}",
                             f"request by unregistered consumer {op['app']!r} was answered")
            return "ok-unregistered" if ok else "refused"
        if not ok:
            self.violate("C13", "result-set-differs", f"{self.backend}/refused:{resp.result!s}"
                         + ("/order-as-tuple" if order and op.get("order_tuple") else ""),
                         f"valid request types={sorted(types)} filter={sim.show_filter(flt)} order={order} "
                         f"(order passed as {'tuple' if op.get('order_tuple') else 'list'}) was refused: {resp.result!s}")
            return "refused"
        records = list(resp.data_objects)
        if flt is None:
            self.judge_store_view(records, "request_data_objects", None, types, f"an unfiltered request for types {sorted(types)}")
        got, cls = self.judge_result("C13", records, types, flt, order, "request", "result-set-differs", "order-differs", key13)
        firm = {l for l, o in self.objs.items() if o.type in types and self.status(o, self.k.now_us) == "must"}
        self.last_query = {"got": got, "cls": cls, "firm": firm, "key": key13.split("/", 1)[1]}
        # probes
        if flt is not None:
            sim.probe("filtered-query")
            sim.probe("filter-op:" + flt["s1"]["op"])
            if some_lack:
                sim.probe("filter-on-missing-attribute")
            if mismatch:
                sim.probe("filter-type-mismatch")
            if flt.get("s2") is not None:
                sim.probe("two-statement-filter-" + flt["logic"])
            if any(c == "must" for c in cls.values()) and any(c == "not" for c in cls.values()):
                sim.probe("filter-splits-store")
        elif types != set(ALL_TYPES) and any(o.type not in types and self.status(o, self.k.now_us) == "must" for o in self.objs.values()):
            sim.probe("type-selection-excludes-stored-object")
        if order:
            sim.probe("ordered-query")
            if any(d == "desc" for _, d in order):
                sim.probe("desc-order")
            if len(order) > 1:
                sim.probe("multi-attribute-order")
        if any(self.status(o, self.k.now_us) == "may" and not o.tainted and o.zone != "outside" for o in self.objs.values()):
            sim.probe("query-between-expiry-and-gc")
        if any(o.state == "gone" for o in self.objs.values()):
            sim.probe("query-after-gc-collected")
        return f"ok:{min(len(records), 9)}"

    # ---------------------------------------------------------------- subscriptions (C14)
    def op_subscribe(self, op):
        C, sim = self.sim.C, self.sim
        self._target_label = None
        label = op["n"]
        nt = op.get("notify_ms")
        req = C.SubscribeDataobjectsReq(application_id=op["app"], data_object_type=tuple(op["types"]),
                                        priority=op.get("priority"), filter=self._filter(op.get("filter")),
                                        notify_time=None if nt is None else C.TimestampIts(nt),
                                        multiplicity=op.get("multiplicity"), order=self._order(op.get("order"), True))
        invalid = []
        if op["app"] not in self.consumers:
            invalid.append("itsaid")
        if any(not (isinstance(t, int) and 1 <= t <= 21) for t in op["types"]):
            invalid.append("type")
        pr = op.get("priority")
        if pr is not None and not 0 <= pr <= 255:
            invalid.append("priority")
        if nt is not None and not 0 <= nt <= 4398046511103:
            invalid.append("interval")
        mu = op.get("multiplicity")
        if mu is not None and not 0 <= mu <= 255:
            invalid.append("multiplicity")
        lane = self

        def callback(resp, _label=label):
            lane.on_callback(_label, resp)
        resp, exc = self.call("subscribe", self.if4.subscribe_data_consumer, req, callback)
        key = f"subscribe:{'+'.join(invalid) or 'valid'}/{self.backend}"
        if exc is not None:
            self.violate("C14", "operation-raised", f"subscribe_data_consumer/{self.backend}/{type(exc).__name__}",
                         f"subscribe {sim.show_sub(op)} raised {exc!r}")
            return "raised"
        code = int(resp.result)
        allowed = {SUB_CODE[f] for f in invalid} or {0}
        if code not in allowed:
            self.violate("C14", "wrong-result-code", key, f"subscribe {sim.show_sub(op)}: invalid fields {invalid or 'none'} "
                         f"but result {resp.result!s}")
        if invalid:
            sim.probe("invalid-subscription:" + "+".join(invalid))
        if code == 0:
            self.subs[label] = Sub(label=label, app=op["app"], types=set(op["types"]), filter=op.get("filter"),
                                   order=op.get("order"), notify_ms=nt, mult=mu, t_sub_us=self.k.now_us, t_last_us=None,
                                   alive=True, dead_reason=None, cb=callback, flagged=False, real_id=resp.subscription_id,
                                   sig=canon({k_: v for k_, v in op.items() if k_ != "n"}))
            if any(s.alive and s is not self.subs[label] and s.sig == self.subs[label].sig for s in self.subs.values()):
                sim.probe("two-live-identical-subscriptions")
            return "ok"
        return f"refused:{code}"

    def op_unsubscribe(self, op):
        C = self.sim.C
        self._target_label = None
        s = self.subs.get(op["ref"]) if "ref" in op else None
        if "ref" in op and s is None:
            return "skipped"
        sid = s.real_id if s is not None else op["bogus"]
        resp, exc = self.call("unsubscribe", self.if4.unsubscribe_data_consumer, C.UnsubscribeDataConsumerReq(op["app"], sid))
        if exc is not None:
            self.violate("C14", "operation-raised", f"unsubscribe_data_consumer/{self.backend}/{type(exc).__name__}",
                         f"unsubscribe raised {exc!r}")
            return "raised"
        ok = int(resp.result) == 0
        if ok and s is not None and s.alive:
            s.alive, s.dead_reason = False, "unsubscribe"
            self.sim.probe("unsubscribed")
            if any(x.alive and x.sig == s.sig for x in self.subs.values()):
                self.sim.probe("unsubscribe-with-live-twin")
        elif not ok and s is not None and s.alive and op["app"] == s.app and op["app"] in self.consumers:
            self.sim.probe("unsubscribe-of-live-subscription-refused")
        return "ok" if ok else "refused"

    def on_callback(self, label, resp):
        try:
            recs = list(resp.data_objects)
        except Exception:                 # noqa: BLE001
            recs = []
        call = {"label": label, "records": recs, "t": self.k.now_us}
        if self.cur_att is not None:
            self.cur_att["calls"].append(call)
        else:
            self.event(("att", {"t": self.k.now_us, "kind": "outside-attendance", "calls": [call], "exc": None}))

    def process_att(self, rec):
        sim = self.sim
        t = rec["t"]
        kind = rec["kind"]
        key = f"{kind}/{self.backend}"
        sim.probe("attendance:" + kind)
        sim.kernel.record("att", self.idx, kind, len(rec["calls"]))
        if rec["exc"] is not None:
            self.violate("C14", "operation-raised", f"attend_subscriptions({kind})/{self.backend}/{type(rec['exc']).__name__}",
                         f"attendance raised {rec['exc']!r}")
        for label in sorted(self.subs):
            s = self.subs[label]
            calls = [c for c in rec["calls"] if c["label"] == label]
            if not s.alive:
                if calls:
                    rule = "called-after-unsubscribe" if s.dead_reason == "unsubscribe" else "called-after-deregister"
                    self.violate("C14", rule, key, f"subscription #{label} of consumer {s.app}: callback invoked "
                                 f"{(t - s.t_sub_us) / 1e6:.1f}s after subscribing although the "
                                 + ("subscription was cancelled" if s.dead_reason == "unsubscribe" else "consumer deregistered"))
                continue
            sim.att_judged += 1
            sim.probe("subscription-judged-at-attendance")
            cls, _, _ = self.classify(s.types, s.filter, t)
            n_must = sum(1 for c in cls.values() if c == "must")
            n_may = sum(1 for c in cls.values() if c == "may")
            thr = max(1, s.mult or 0)
            interval = s.notify_ms or 0
            fsuf = "/filtered" if s.filter else "/unfiltered"
            if s.t_last_us is None:
                too_early = False
                due = interval == 0 or (t - s.t_sub_us) // 1000 >= interval + 1000
            else:
                el_true = (t - s.t_last_us) // 1000
                el_floor = (t // 1_000_000 - s.t_last_us // 1_000_000) * 1000
                too_early = max(el_true, el_floor) < interval
                due = interval == 0 or el_true >= interval + 1000
                if not too_early and not due:
                    sim.probe("interval-resolution-window")
            if n_must + n_may >= thr and n_must < thr:
                sim.probe("multiplicity-undecided")
            if n_must == thr and thr > 1:
                sim.probe("multiplicity-gate-exact")
            if 0 < n_must + n_may < thr:
                sim.probe("multiplicity-gate-blocks")
            if calls:
                sim.probe("notified:" + kind)
                what = f"notification of subscription #{label} ({sim.show_sub_model(s)})"
                if len(calls) > 1 and interval > 0:
                    self.violate("C14", "notified-too-early", key, f"{what}: invoked {len(calls)} times in one attendance")
                if too_early:
                    self.violate("C14", "notified-too-early", key, f"{what}: invoked {(t - s.t_last_us) / 1e6:.3f}s after the "
                                 f"previous notification, interval {interval} ms")
                if n_must + n_may < thr and (s.mult or 0) > 0:
                    self.violate("C14", "wrong-objects", key + fsuf, f"{what}: invoked with {n_must + n_may} matching objects, "
                                 f"multiplicity {s.mult}")
                self.judge_result("C14", calls[-1]["records"], s.types, s.filter, s.order, what, "wrong-objects", "wrong-order",
                                  key + fsuf, key)
                s.t_last_us = t
                s.flagged = False
                if s.order:
                    sim.probe("ordered-notification")
                if s.filter:
                    sim.probe("filtered-notification")
            elif rec["exc"] is not None:
                sim.probe("attendance-aborted-before-subscription")
            elif due and n_must >= thr and not s.flagged:
                s.flagged = True
                stored = any(x.callback is s.cb for x in list(self.service.subscriptions))
                since = (t - (s.t_last_us if s.t_last_us is not None else s.t_sub_us)) / 1e6
                if stored:
                    self.violate("C14", "not-notified", key + fsuf, f"subscription #{label} ({sim.show_sub_model(s)}): {n_must} stored "
                                 f"objects match, {since:.1f}s since the previous notification/subscription, callback not invoked")
                else:
                    twin = any(x is not s and x.sig == s.sig for x in self.subs.values())
                    self.violate("C14", "other-subscription-affected", key + ("/identical-request-exists" if twin else ""),
                                 f"subscription #{label} ({sim.show_sub_model(s)}) "
                                 "was neither cancelled nor its consumer deregistered, yet the LDM no longer holds it")
            elif not calls and not due and n_must >= thr:
                sim.probe("attendance-before-interval")


# ------------------------------------------------------------------------------------------ 4. the simulation
def _load_classes():
    import flexstack.facilities.local_dynamic_map.ldm_classes as lc
    return lc


class LdmSim:
    def __init__(self, plan: dict):
        self.plan = plan
        self.cfg = plan["config"]
        self.checks = set(self.cfg.get("checks", ["C12", "C13", "C14"]))
        self.kernel = Kernel(self.cfg["t0_us"], max_events=400_000)
        self.violations: list = []
        self._vkeys: set = set()
        self.probes: dict = {}
        self.faults: dict = {}
        self.trace: list = []
        self.harness_exc = None
        self.att_judged = 0
        self.scratch = None
        self.tinydb_dir = None
        self.lanes: list[Lane] = []
        self.cur_opname = None

    def probe(self, name, n=1):
        self.probes[name] = self.probes.get(name, 0) + n

    def violate(self, prop, rule, key, detail):
        if prop not in self.checks:
            return
        if (prop, rule, key) in self._vkeys:
            self.probe("repeat-violation")
            return
        self._vkeys.add((prop, rule, key))
        self.violations.append({"property": prop, "rule": rule, "key": key,
                                "detail": f"op {self.cur_idx} ({self.cur_opname}) t=+{(self.kernel.now_us - self.kernel.t0_us) / 1e6:.3f}s: " + detail})

    cur_idx = -1

    @staticmethod
    def show_filter(flt):
        if flt is None:
            return "none"
        s = f"{flt['s1']['attr']} {flt['s1']['op']} {flt['s1']['val']!r}"
        if flt.get("s2"):
            s += f" {flt['logic']} {flt['s2']['attr']} {flt['s2']['op']} {flt['s2']['val']!r}"
        return "(" + s + ")"

    def show_sub(self, op):
        return (f"app={op['app']!r} types={op['types']} filter={self.show_filter(op.get('filter'))} order={op.get('order')} "
                f"notify_ms={op.get('notify_ms')} multiplicity={op.get('multiplicity')} priority={op.get('priority')}")

    def show_sub_model(self, s):
        return (f"app={s.app} types={sorted(s.types)} filter={self.show_filter(s.filter)} order={s.order} "
                f"notify_ms={s.notify_ms} multiplicity={s.mult}")

    # ------------------------------------------------------------------ run
    def run(self):
        import flexstack.facilities.local_dynamic_map.factory as fmod
        import flexstack.facilities.local_dynamic_map.ldm_service as m_s
        import flexstack.facilities.local_dynamic_map.ldm_service_reactive as m_sr
        import flexstack.facilities.local_dynamic_map.ldm_service_threads as m_st
        import flexstack.facilities.local_dynamic_map.ldm_maintenance as m_m
        import flexstack.facilities.local_dynamic_map.ldm_maintenance_reactive as m_mr
        import flexstack.facilities.local_dynamic_map.ldm_maintenance_thread as m_mt
        import flexstack.facilities.local_dynamic_map.tinydb_database as m_tdb
        from flexstack.utils import time_service
        self.C = _load_classes()
        self.factory_mod = fmod
        k = self.kernel
        shm = "/dev/shm" if os.path.isdir("/dev/shm") and os.access("/dev/shm", os.W_OK) else None   # fsync is free there
        self.scratch = tempfile.mkdtemp(prefix="fsim-ldm-", dir=shm) if "TinyDB" in self.cfg["backends"] else None
        real_tinydb = m_tdb.TinyDB
        sim = self

        def scratch_tinydb(*a, **kw):
            kw.setdefault("database_path", sim.tinydb_dir)
            return real_tinydb(*a, **kw)
        try:
            with Patches() as p:
                p.set(time_service.TimeService, "time", staticmethod(k.time))
                patch_module_time_threading(p, k, [m_s, m_sr, m_st, m_m, m_mr, m_mt], self.cfg["t0_us"] & 0xFFFF)
                p.set(fmod, "TinyDB", scratch_tinydb)
                p.mute_stdout()
                try:
                    for i, b in enumerate(self.cfg["backends"]):
                        lane = Lane(self, b, i)
                        self.lanes.append(lane)
                        lane.setup()
                        if b == "TinyDB":
                            self.probe("tinydb-used")
                    k.run(k.now_us)            # let the *_thread(s) variants start and park
                    for idx, op in enumerate(self.plan["ops"]):
                        self.step(idx, op)
                        if self.harness_exc is not None:
                            raise self.harness_exc
                        if k.exhausted:
                            break
                    self.finish_checks()
                finally:
                    for lane in self.lanes:
                        lane.close()
                    k.shutdown()
        finally:
            if self.scratch is not None:
                shutil.rmtree(self.scratch, ignore_errors=True)
        if self.harness_exc is not None:
            raise self.harness_exc

    def step(self, idx, op):
        k = self.kernel
        kind = op["op"]
        self.cur_idx, self.cur_opname = idx, OPNAME[kind]
        for lane in self.lanes:
            lane._target_label = None
        if kind == "advance":
            k.advance(op["dt_ms"] * 1000)
            if self.harness_exc is not None:
                raise self.harness_exc
        outs = []
        for lane in self.lanes:
            outs.append(lane.apply(op, idx))
        k.record("op", idx, kind, *outs)
        self.trace.append((kind, outs[0]) if len(outs) == 1 else (kind,) + tuple(outs))
        if kind == "query" and len(self.lanes) == 2:
            self.cross_compare(op)

    def cross_compare(self, op):
        a, b = self.lanes
        qa, qb = a.last_query, b.last_query
        if qa is None or qb is None:
            return
        both = qa["firm"] & qb["firm"]                       # stored for certain in both back-ends
        diff = sorted(l for l in both if (l in qa["got"]) != (l in qb["got"]))
        self.probe("backends-compared")
        # a difference on an object for which the reference predicate is decided is already reported as
        # result-set-differs for the deviating back-end; backends-differ reports the remaining ones
        open_ = [l for l in diff if qa["cls"].get(l) == "may" and qb["cls"].get(l) == "may"]
        if diff and not open_:
            self.probe("backend-difference-already-explained")
        if open_:
            only_a = [l for l in open_ if l in qa["got"]]
            only_b = [l for l in open_ if l in qb["got"]]
            self.violate("C13", "backends-differ", qa["key"], f"request types={op['types']} filter={self.show_filter(op.get('filter'))}: "
                         f"{a.backend} alone returns objects {only_a[:6]}, {b.backend} alone returns {only_b[:6]} "
                         f"(same history; the reference predicate leaves these objects open)")

    def finish_checks(self):
        for (kind, st, name, e) in self.kernel.task_errors:
            self.probe(f"simulated-thread-died:{type(e).__name__}")


def execute(plan: dict, nontrivial_probe: str | None = None) -> dict:
    sim = LdmSim(plan)
    sim.run()
    nt = bool(sim.probes.get(nontrivial_probe)) if nontrivial_probe else bool(sim.trace)
    return finish(sim, sim.trace, nontrivial=nt)


# ------------------------------------------------------------------------------------------ 5. plan generator
VALUE_POOL = {
    "header.stationId": [1001, 1002, 2001, 70000], "header.messageId": [1, 2, 3, 6, 16], "header.protocolVersion": [1, 2, 3],
    "cam.camParameters.basicContainer.stationType": [0, 5, 6, 15],
    "cam.camParameters.basicContainer.referencePosition.altitude.altitudeConfidence": ["alt-000-10", "alt-000-20", "unavailable"],
    "vam.vamParameters.basicContainer.stationType": [1, 2, 12],
    "vam.vamParameters.vruHighFrequencyContainer.speed.speedValue": [0, 150, 800],
    "vam.vamParameters.vruLowFrequencyContainer.sizeClass": ["low", "medium", "high"],
    "denm.management.stationType": [0, 5, 15], "denm.management.termination": ["isCancellation", "isNegation"],
    "denm.situation.informationQuality": [0, 3, 7], "denm.alacarte.externalTemperature": [-5, 20, 35],
    "poi.name": ["charging-point", "parking-lot"], "poi.category": [1, 2], "ivim.mandatory.iviStatus": [0, 1],
}
SERIAL_ATTRS = {"cam.generationDeltaTime", "vam.generationDeltaTime", "denm.management.actionId.sequenceNumber"}
WEIGHTS = {
    "C12": {"add": 30, "query": 14, "update": 8, "delete": 8, "advance": 16, "collect_trash": 6, "reg": 8, "unreg_try": 5,
            "subscribe": 2, "unsubscribe": 0, "attend": 1},
    "C13": {"add": 30, "query": 42, "update": 3, "delete": 3, "advance": 8, "collect_trash": 3, "reg": 3, "unreg_try": 1,
            "subscribe": 0, "unsubscribe": 0, "attend": 0},
    "C14": {"add": 30, "query": 3, "update": 2, "delete": 3, "advance": 24, "collect_trash": 3, "reg": 7, "unreg_try": 1,
            "subscribe": 13, "unsubscribe": 5, "attend": 10},
}
ADVANCES = [50, 200, 400, 500, 600, 900, 1000, 1100, 1500, 2000, 3000, 5000, 10000]
VALIDITIES = [0, 1, 1, 2, 3, 5, 10, 30, 300]


def _offset(lat, lon, north_m, east_m):
    dlat = north_m / 111_320.0
    dlon = east_m / (111_320.0 * math.cos(math.radians(lat / 1e7)))
    return lat + int(round(dlat * 1e7)), lon + int(round(dlon * 1e7))


class _Gen:
    def __init__(self, r, prop, tier):
        self.r, self.prop, self.tier = r, prop, tier
        self.serial = r.randrange(0, 500)
        self.n_add = 0
        self.n_sub = 0
        self.adds = []          # (label, tpl, app)
        self.subs = []          # (label, op)
        self.reg_p, self.reg_c = set(), set()

    def next_serial(self):
        self.serial += 1
        return self.serial

    def fields(self, tpl):
        r = self.r
        out = {}
        for path, (kind, tpls) in sorted(ATTRS.items()):
            if tpl in tpls and path in VALUE_POOL and not path.startswith("header.") and r.random() < 0.6:
                out[path] = r.choice(VALUE_POOL[path])
        return out

    def pick_tpl(self, knobs):
        r = self.r
        pool = ["cam"] * 5 + ["cam_pt"] * 2 + ["vam"] * 3 + ["vam_lf"] * 3 + ["denm"] * 2 + ["denm_sit"] * 2 + ["denm_ala"] * 2 + ["poi", "ivim"]
        if knobs["bits"]:
            pool += ["cam_lf"] * 2 + ["vam_lights"]
        return r.choice(pool)

    def position(self, cfg, knobs):
        r = self.r
        lat, lon, alt = cfg["ldm_pos"]
        dist = RELEVANCE_M[cfg["relevance"]]
        c = r.random()
        if knobs["near"] and c < 0.3:
            zone = "near"
            d = r.choice([0.0, 0.0, r.uniform(0, 0.004 * dist)])
        elif c > 0.9:
            zone = "outside"
            d = r.uniform(2.2, 3.5) * dist
        else:
            zone = "inside"
            d = r.uniform(0.03 * dist + 6, 0.45 * dist)
        ang = r.uniform(0, 2 * math.pi)
        la, lo = _offset(lat, lon, d * math.cos(ang), d * math.sin(ang))
        return zone if zone != "near" else "inside", [la, lo, alt], zone == "near"

    def statement(self, attr_pool, knobs):
        r = self.r
        attr = r.choice(attr_pool)
        kind = ATTRS[attr][0]
        op = r.choice(OPS8)
        if attr in SERIAL_ATTRS:
            pool = [self.serial - r.randrange(0, 12), self.serial // 2, 0]
        else:
            pool = VALUE_POOL[attr]
        c = r.random()
        if c < 0.78:
            val = r.choice(pool)
        elif c < 0.9:                              # reference value of the other type
            val = r.choice(["medium", "5", "alt"]) if kind == "int" else r.choice([5, 0, 1001])
        else:
            val = r.choice([-1, 0, 10 ** 9, 2.5]) if kind == "int" else r.choice(["", "a", "point", "is"])
        if op in ("like", "notlike") and kind == "str" and r.random() < 0.7:
            val = r.choice(["alt", "0-1", "med", "is", "ing", "x"])
        return {"attr": attr, "op": op, "val": val}

    def attr_pool(self, types, knobs, lack_ok):
        tpls = sorted({t for (_, t, _) in self.adds if TPL_TYPE[t] in types}) or ["cam"]
        common = [a for a, (_, carriers) in sorted(ATTRS.items()) if all(t in carriers for t in tpls)]
        anyone = [a for a, (_, carriers) in sorted(ATTRS.items()) if any(t in carriers for t in tpls)]
        if lack_ok and anyone and self.r.random() < 0.6:
            return anyone
        return common or ["header.stationId"]

    def make_filter(self, types, knobs):
        r = self.r
        pool = self.attr_pool(types, knobs, knobs["lack"])
        flt = {"s1": self.statement(pool, knobs), "logic": None, "s2": None}
        if r.random() < 0.38:
            flt["logic"] = r.choice(["and", "or"])
            flt["s2"] = self.statement(pool, knobs)
        return flt

    def make_order(self, types, knobs):
        r = self.r
        tpls = sorted({t for (_, t, _) in self.adds if TPL_TYPE[t] in types}) or ["cam"]
        common = [a for a, carriers in sorted(ORDER_ATTRS.items()) if all(t in carriers for t in tpls)]
        anyone = [a for a, carriers in sorted(ORDER_ATTRS.items()) if any(t in carriers for t in tpls)]
        pool = anyone if (knobs["order_lack"] and r.random() < 0.5) else common
        if not pool:
            return None
        n = 1 if r.random() < 0.6 or len(pool) < 2 else 2
        attrs = r.sample(pool, n)
        d0 = r.choice(["asc", "desc"])
        dirs = [d0] * n
        if n == 2 and knobs["mixed_dir"] and r.random() < 0.5:
            dirs[1] = "desc" if d0 == "asc" else "asc"
        return [[a, d] for a, d in zip(attrs, dirs)]

    def make_types(self):
        r = self.r
        present = sorted({TPL_TYPE[t] for (_, t, _) in self.adds}) or [2]
        c = r.random()
        if c < 0.3:
            return list(ALL_TYPES)
        if c < 0.65:
            return [r.choice(present)]
        if c < 0.85:
            return sorted(set(r.sample(present, min(len(present), 2))))
        return sorted(set(r.sample(list(ALL_TYPES), r.randint(1, 5))))


def gen_plan(run_seed: int, tier: str, prop: str) -> dict:
    r = random.Random(run_seed)
    g = _Gen(r, prop, tier)
    half = lambda p=0.5: r.random() < p      # noqa: E731
    knobs = {"updates": half(0.25 if prop == "C14" else 0.5), "deletes": half(), "near": half(), "bits": half(),
             "ellipse": half(), "order_tuple": False, "order_lack": half(), "mixed_dir": half(), "lack": half(),
             "cross_app": half(0.3), "past_ts": half(), "unreg": half(0.7)}
    if prop == "C13":
        backends = ["Dictionary", "TinyDB"]
    else:
        backends = ["TinyDB"] if r.random() < (0.3 if prop == "C12" else 0.25) else ["Dictionary"]
    lat0, lon0 = 413870000 + r.randrange(-2_000_000, 2_000_000), 21120000 + r.randrange(-2_000_000, 2_000_000)
    cfg = {"t0_us": 1_767_225_600_000_000 + r.randrange(0, 30 * 86_400_000) * 1000, "backends": backends,
           "maintenance": "Thread" if r.random() < {"C12": 0.4, "C13": 0.25, "C14": 0.3}[prop] else "Reactive",
           "service": "Thread" if r.random() < {"C12": 0.2, "C13": 0.15, "C14": 0.5}[prop] else "Reactive",
           "ldm_pos": [lat0, lon0, r.choice([0, 12000, 50000])], "relevance": r.choice([1, 2, 3, 4, 4, 5]),
           "knobs": knobs, "checks": [prop]}
    c = r.random()
    if c < 0.6:
        n_ops = r.randint(8, 40)
    elif c < 0.92 or tier == "quick":
        n_ops = r.randint(40, 100)
    else:
        n_ops = r.randint(100, 260)
    if "TinyDB" in backends:
        n_ops = min(n_ops, 70)
    prov_pool = sorted(r.sample(range(1, 21), 3))
    cons_pool = sorted(r.sample(range(1, 21), 3))
    bad_apps = [0, 22, 999, -1]
    ops = []
    for a in prov_pool[: r.randint(1, 3)]:
        ops.append({"op": "register_provider", "app": a, "perms": list(ALL_TYPES)})
        g.reg_p.add(a)
    for a in cons_pool[: r.randint(1, 3)]:
        ops.append({"op": "register_consumer", "app": a, "perms": list(ALL_TYPES)})
        g.reg_c.add(a)
    w = dict(WEIGHTS[prop])
    if not knobs["updates"]:
        w["update"] = 0
    if not knobs["deletes"]:
        w["delete"] = 0
    if not knobs["unreg"]:
        w["unreg_try"] = 0
    kinds = sorted(w)
    weights = [w[k_] for k_ in kinds]
    while len(ops) < n_ops:
        kind = r.choices(kinds, weights)[0]
        if kind == "add":
            tpl = g.pick_tpl(knobs)
            zone, loc, near = g.position(cfg, knobs)
            app = r.choice(sorted(g.reg_p) or prov_pool)
            if r.random() < 0.08:
                app = r.choice(prov_pool)
            g.n_add += 1
            op = {"op": "add", "n": g.n_add, "app": app, "tpl": tpl, "sid": r.choice(VALUE_POOL["header.stationId"]),
                  "serial": g.next_serial(), "fields": g.fields(tpl), "validity_s": r.choice(VALIDITIES), "loc": loc,
                  "zone": zone, "ts": "now"}
            if near:
                op["near"] = True
            if knobs["past_ts"] and r.random() < 0.4:
                op["ts"] = r.choice(["floor", 300, 1500, 2500])
            if knobs["ellipse"] and r.random() < 0.5:
                op["ell"] = [r.randint(1, 4000), r.randint(1, 4000), r.randint(0, 3600)]
                op["radius"] = r.choice([0, 50, 2000])
                op["rel"] = r.randint(0, 6)
            ops.append(op)
            g.adds.append((g.n_add, tpl, app))
            if r.random() < 0.25 and prop != "C14":      # bursts populate the store quickly
                continue
        elif kind in ("update", "delete"):
            if not g.adds:
                continue
            label, tpl, app = r.choice(g.adds[-12:])
            op = {"op": kind, "app": app if not (knobs["cross_app"] and r.random() < 0.3) else r.choice(sorted(g.reg_p) or prov_pool)}
            if r.random() < 0.1:
                op["bogus"] = r.choice([100_000 + r.randrange(1000), 5000])
            else:
                op["ref"] = label
            if kind == "update":
                ntpl = tpl
                if r.random() < 0.25:
                    same = sorted(t for t in TPL_TYPE if TPL_TYPE[t] == TPL_TYPE[tpl] and (knobs["bits"] or t not in TPL_BITS))
                    ntpl = r.choice(same)
                if r.random() < 0.06:
                    ntpl = g.pick_tpl(knobs)
                op.update({"tpl": ntpl, "sid": r.choice(VALUE_POOL["header.stationId"]), "serial": g.next_serial(),
                           "fields": g.fields(ntpl), "validity_s": r.choice(VALIDITIES), "dlat": r.choice([0, 0, 137])})
            ops.append(op)
        elif kind == "unreg_try":
            c2 = r.random()
            app = r.choice(bad_apps + [a for a in prov_pool + cons_pool if a not in g.reg_p and a not in g.reg_c][:2])
            if c2 < 0.35:
                g.n_add += 1
                zone, loc, near = g.position(cfg, dict(knobs, near=False))
                ops.append({"op": "add", "n": g.n_add, "app": app, "tpl": "cam", "sid": 1001, "serial": g.next_serial(), "fields": {},
                            "validity_s": 30, "loc": loc, "zone": zone, "ts": "now"})
            elif c2 < 0.6 and g.adds and (knobs["updates"] or knobs["deletes"]):
                label, tpl, _ = r.choice(g.adds[-8:])
                if knobs["updates"] and (not knobs["deletes"] or r.random() < 0.5):
                    ops.append({"op": "update", "app": app, "ref": label, "tpl": tpl, "sid": 1002, "serial": g.next_serial(),
                                "fields": {}, "validity_s": 5, "dlat": 0})
                else:
                    ops.append({"op": "delete", "app": app, "ref": label})
            elif c2 < 0.85:
                ops.append({"op": "query", "app": app, "types": g.make_types(), "filter": None, "order": None, "priority": None})
            else:
                ops.append({"op": "deregister_provider" if r.random() < 0.5 else "deregister_consumer", "app": app})
        elif kind == "query":
            types = g.make_types()
            app = r.choice(sorted(g.reg_c) or cons_pool)
            p_f = {"C12": 0.25, "C13": 0.78, "C14": 0.3}[prop]
            flt = g.make_filter(types, knobs) if r.random() < p_f else None
            order = g.make_order(types, knobs) if r.random() < {"C12": 0.1, "C13": 0.4, "C14": 0.1}[prop] else None
            op = {"op": "query", "app": app, "types": types, "filter": flt, "order": order,
                  "priority": r.choice([None, None, 0, 7, 255])}
            if order and knobs["order_tuple"] and r.random() < 0.3:
                op["order_tuple"] = True
            ops.append(op)
        elif kind == "advance":
            ops.append({"op": "advance", "dt_ms": r.choice(ADVANCES)})
        elif kind == "collect_trash":
            ops.append({"op": "collect_trash"})
        elif kind == "attend":
            ops.append({"op": "attend"})
        elif kind == "reg":
            c2 = r.random()
            if c2 < 0.3:
                a = r.choice(prov_pool)
                ops.append({"op": "register_provider", "app": a, "perms": list(ALL_TYPES)})
                g.reg_p.add(a)
            elif c2 < 0.5:
                a = r.choice(cons_pool)
                ops.append({"op": "register_consumer", "app": a, "perms": list(ALL_TYPES)})
                g.reg_c.add(a)
            elif c2 < 0.7:
                a = r.choice(sorted(g.reg_p) or prov_pool)
                ops.append({"op": "deregister_provider", "app": a})
                g.reg_p.discard(a)
            elif c2 < 0.9:
                a = r.choice(sorted(g.reg_c) or cons_pool)
                ops.append({"op": "deregister_consumer", "app": a})
                g.reg_c.discard(a)
            else:                                   # registrations the statement does not decide (outcome defines the model)
                a = r.choice(bad_apps + prov_pool)
                ops.append({"op": r.choice(["register_provider", "register_consumer"]), "app": a,
                            "perms": r.choice([[], [r.randint(1, 21)]])})
        elif kind == "subscribe":
            types = g.make_types()
            app = r.choice(sorted(g.reg_c) or cons_pool)
            g.n_sub += 1
            op = {"op": "subscribe", "n": g.n_sub, "app": app, "types": types,
                  "filter": g.make_filter(types, knobs) if r.random() < 0.35 else None,
                  "order": g.make_order(types, knobs) if r.random() < 0.3 else None,
                  "notify_ms": r.choice([None, 1, 500, 1000, 1000, 2000, 3000, 5000]),
                  "multiplicity": r.choice([None, 0, 1, 1, 2, 2, 3, 5]), "priority": r.choice([None, None, 0, 7, 255])}
            if g.subs and r.random() < 0.12:          # an identical request again (same consumer, other callback)
                op = dict(copy.deepcopy(r.choice(g.subs)[1]), n=g.n_sub)
            elif r.random() < 0.15:
                c2 = r.randrange(5)
                if c2 == 0:
                    op["app"] = r.choice(bad_apps + [a for a in cons_pool if a not in g.reg_c][:1])
                elif c2 == 1:
                    op["types"] = r.choice([[0], [22], [2, 99]])
                elif c2 == 2:
                    op["priority"] = r.choice([-1, 256, 1000])
                elif c2 == 3:
                    op["notify_ms"] = r.choice([-1, 4398046511104])
                else:
                    op["multiplicity"] = r.choice([-1, 256])
            ops.append(op)
            g.subs.append((g.n_sub, op))
        elif kind == "unsubscribe":
            if not g.subs:
                continue
            label, sop = r.choice(g.subs)
            op = {"op": "unsubscribe", "app": sop["app"] if r.random() < 0.85 else r.choice(cons_pool + bad_apps)}
            if r.random() < 0.1:
                op["bogus"] = r.choice([0, 12345])
            else:
                op["ref"] = label
            ops.append(op)
    return {"engine": "ldm", "property": prop, "config": cfg, "ops": ops}
