"""Batch runner: seed sharding over a fork pool, known-finding matching, minimisation,
replay files, evidence, VIOLATION / KNOWN-FINDING lines, exit codes.

Exit codes: 0 held on everything explored; 1 violation (VIOLATION line printed);
2 harness error (never counts as held); 3 replay did not reproduce.
"""
from __future__ import annotations

import faulthandler
import hashlib
import importlib
import json
import multiprocessing
import os
import subprocess
import sys
import time
import traceback
from concurrent.futures import ProcessPoolExecutor

VERIF = os.path.dirname(os.path.dirname(os.path.abspath(__file__)))
# FSIM_OUT_DIR redirects evidence and replay files (used when a check is run against a mutated scratch copy of the
# repository, so that /verif/evidence only ever holds results for /repo itself)
_OUT = os.environ.get("FSIM_OUT_DIR") or VERIF
EVIDENCE_DIR = os.path.join(_OUT, "evidence")
REPLAY_DIR = os.path.join(_OUT, "replays")
KNOWN = os.path.join(VERIF, "known_findings.json")

MAX_SAMPLES_PER_SIG = 3


def load_prop(pid: str):
    return importlib.import_module("fsim.props." + pid.lower())


def run_seed_for(base_seed: int, i: int) -> int:
    return base_seed * (1 << 20) + i


def load_known(pid: str):
    if not os.path.exists(KNOWN):
        return []
    with open(KNOWN) as f:
        data = json.load(f)
    return [e for e in data.get("findings", []) if e.get("property") == pid and e.get("status") == "open"]


def sig_of(v: dict) -> tuple:
    return (v["rule"], v["key"])


def is_known(v: dict, known: list) -> bool:
    return any(e["rule"] == v["rule"] and e["key"] == v["key"] for e in known)


# ------------------------------------------------------------------------- worker side
def _execute(mod, plan):
    """Run one plan; harness exceptions are kept apart from violations."""
    try:
        res = mod.execute(plan)
        res.setdefault("harness_error", None)
        res["violations"] = [v for v in res["violations"] if v.get("property", mod.ID) == mod.ID]
        return res
    except Exception:
        return {"violations": [], "probes": {}, "faults": {}, "sig": "harness-error", "nontrivial": False,
                "events": 0, "sim_us": 0, "digest": "", "harness_error": traceback.format_exc()}


def _worker(args):
    pid, tier, seeds, double_every, wall_limit = args
    faulthandler.dump_traceback_later(wall_limit, exit=True)
    mod = load_prop(pid)
    agg = {"runs": 0, "sigs": set(), "nontrivial": 0, "probes": {}, "faults": {}, "events": 0, "sim_us": 0,
           "viol": [], "harness": [], "double_runs": 0, "double_mismatch": [], "digests": [], "sample": None,
           "runs_with_fault": 0, "viol_runs": 0}
    for n, s in enumerate(seeds):
        plan = mod.gen_plan(s, tier)
        res = _execute(mod, plan)
        if res["harness_error"]:
            agg["harness"].append((s, res["harness_error"]))
            continue
        agg["runs"] += 1
        agg["digests"].append((s, res["digest"]))
        if res.get("nontrivial", True):
            agg["nontrivial"] += 1
            agg["sigs"].add(res["sig"])
        for k, v in res["probes"].items():
            agg["probes"][k] = agg["probes"].get(k, 0) + v
        for k, v in res["faults"].items():
            agg["faults"][k] = agg["faults"].get(k, 0) + v
        if res["faults"]:
            agg["runs_with_fault"] += 1
        agg["events"] += res["events"]
        agg["sim_us"] += res["sim_us"]
        if agg["sample"] is None and res.get("nontrivial", True) and not res["violations"]:
            agg["sample"] = {"run_seed": s, "plan": plan, "trace": res.get("trace", [])[:60]}
        if res["violations"]:
            agg["viol_runs"] += 1
            seen = set()
            for v in res["violations"]:
                if sig_of(v) in seen:
                    continue
                seen.add(sig_of(v))
                agg["viol"].append((s, v))
        if double_every and n % double_every == 0:
            res2 = _execute(mod, mod.gen_plan(s, tier))
            agg["double_runs"] += 1
            if res2["digest"] != res["digest"]:
                agg["double_mismatch"].append(s)
    faulthandler.cancel_dump_traceback_later()
    agg["sigs"] = list(agg["sigs"])
    return agg


# ------------------------------------------------------------------------- minimisation
def _fires(mod, plan, target) -> bool:
    res = _execute(mod, plan)
    if res["harness_error"]:
        return False
    return any(sig_of(v) == target for v in res["violations"])


def minimise(mod, plan: dict, target: tuple, budget_s: float = 20.0):
    """ddmin over plan['ops'] then stations (via mod.shrinkers) while the same (rule,key) fires."""
    t_end = time.time() + budget_s
    best = json.loads(json.dumps(plan))
    steps_before = len(best.get("ops", []))

    def ddmin_list(key):
        nonlocal best
        items = best.get(key, [])
        n = 2
        while len(items) >= 1 and time.time() < t_end:
            chunk = max(1, len(items) // n)
            removed = False
            i = 0
            while i < len(items) and time.time() < t_end:
                cand_items = items[:i] + items[i + chunk:]
                cand = dict(best)
                cand[key] = cand_items
                if _fires(mod, cand, target):
                    items = cand_items
                    best = cand
                    removed = True
                else:
                    i += chunk
            if not removed:
                if chunk == 1:
                    break
                n = min(len(items), n * 2)
            else:
                n = max(2, n - 1)
            if chunk == 1 and not removed:
                break
    ddmin_list("ops")
    for shrink in getattr(mod, "SHRINKERS", []):
        if time.time() >= t_end:
            break
        for cand in shrink(best):
            if time.time() >= t_end:
                break
            if _fires(mod, cand, target):
                best = cand
    ddmin_list("ops")
    return best, steps_before, len(best.get("ops", []))


def write_replay(pid, mod, run_seed, plan, v, minimised, before, after):
    os.makedirs(REPLAY_DIR, exist_ok=True)
    res = _execute(mod, plan)
    vv = next((x for x in res["violations"] if sig_of(x) == sig_of(v)), v)
    tag = hashlib.sha256(("%s|%s" % sig_of(v)).encode()).hexdigest()[:8]
    path = os.path.join(REPLAY_DIR, f"{pid}-{run_seed}-{tag}.json")
    doc = {"format": 1, "property": pid, "engine": getattr(mod, "ENGINE", "?"), "run_seed": run_seed,
           "violation": {"rule": vv["rule"], "key": vv["key"], "detail": vv["detail"]},
           "plan": plan, "minimised": minimised, "event_digest": "sha256:" + res["digest"],
           "repo_head": _repo_head(), "steps_before": before, "steps_after": after}
    with open(path, "w") as f:
        json.dump(doc, f, indent=1, sort_keys=True)
    return path


def _repo_head():
    try:
        return subprocess.run(["git", "-C", "/repo", "rev-parse", "--short", "HEAD"], capture_output=True,
                              text=True, timeout=10).stdout.strip()
    except Exception:
        return "?"


# ------------------------------------------------------------------------- fresh interpreter digests
def fresh_digests(pid: str, tier: str, seeds: list[int]) -> dict:
    env = dict(os.environ)
    env["PYTHONHASHSEED"] = "1"
    env["FSIM_NO_REEXEC"] = "1"
    out = subprocess.run([sys.executable, "-m", "fsim.cli", "digest", pid, "--tier", tier, "--seeds",
                          ",".join(map(str, seeds))], capture_output=True, text=True, env=env, cwd=VERIF, timeout=1500)
    if out.returncode != 0:
        raise RuntimeError("fresh interpreter digest run failed: " + out.stderr[-2000:])
    return {int(k): v for k, v in json.loads(out.stdout.strip().splitlines()[-1]).items()}


def cmd_digest(pid: str, tier: str, seeds: list[int]) -> int:
    mod = load_prop(pid)
    out = {}
    for s in seeds:
        res = _execute(mod, mod.gen_plan(s, tier))
        out[s] = res["digest"] if not res["harness_error"] else "ERR"
    print(json.dumps(out))
    return 0


# ------------------------------------------------------------------------- main check
def run_check(pid: str, tier: str, base_seed: int, runs: int | None = None, workers: int | None = None) -> int:
    t_start = time.time()
    mod = load_prop(pid)
    n_runs = runs or int(os.environ.get("VERIF_RUNS", 0)) or mod.RUNS[tier]
    workers = workers or int(os.environ.get("VERIF_WORKERS", 0)) or min(16, os.cpu_count() or 4)
    seeds = [run_seed_for(base_seed, i) for i in range(n_runs)]
    shards = [seeds[i::workers] for i in range(workers)]
    shards = [s for s in shards if s]
    double_total = getattr(mod, "DOUBLE", {"quick": 64, "thorough": 2000})[tier]
    double_every = max(1, n_runs // max(1, double_total))
    wall_limit = getattr(mod, "WALL_LIMIT", {"quick": 1500, "thorough": 14400})[tier]
    ctx = multiprocessing.get_context("fork")
    aggs = []
    try:
        with ProcessPoolExecutor(max_workers=len(shards), mp_context=ctx) as ex:
            for agg in ex.map(_worker, [(pid, tier, sh, double_every, wall_limit) for sh in shards]):
                aggs.append(agg)
    except Exception as e:
        print(f"HARNESS-ERROR property={pid} worker pool failed: {e!r}")
        return 2

    tot = {"runs": 0, "nontrivial": 0, "events": 0, "sim_us": 0, "double_runs": 0, "runs_with_fault": 0,
           "viol_runs": 0}
    sigs, probes, faults, viol, harness, mismatch, digests, sample = set(), {}, {}, [], [], [], {}, None
    for a in aggs:
        for k in tot:
            tot[k] += a[k]
        sigs.update(a["sigs"])
        for k, v in a["probes"].items():
            probes[k] = probes.get(k, 0) + v
        for k, v in a["faults"].items():
            faults[k] = faults.get(k, 0) + v
        viol.extend(a["viol"])
        harness.extend(a["harness"])
        mismatch.extend(a["double_mismatch"])
        digests.update(dict(a["digests"]))
        if a["sample"] is not None and (sample is None or a["sample"]["run_seed"] < sample["run_seed"]):
            sample = a["sample"]

    if harness:
        s, tb = sorted(harness)[0]
        print(f"HARNESS-ERROR property={pid} run_seed={s} ({len(harness)} runs)\n{tb}")
        return 2
    if mismatch:
        print(f"HARNESS-ERROR property={pid} nondeterministic digests for run seeds {sorted(mismatch)[:5]}")
        return 2

    # fresh-interpreter determinism sample (other hash seed, single process)
    fresh_n = getattr(mod, "FRESH", {"quick": 8, "thorough": 64})[tier]
    fresh_seeds = seeds[:: max(1, len(seeds) // max(1, fresh_n))][:fresh_n]
    fresh_mismatch = []
    if fresh_seeds and not os.environ.get("FSIM_SKIP_FRESH"):
        try:
            fd = fresh_digests(pid, tier, fresh_seeds)
        except Exception as e:
            print(f"HARNESS-ERROR property={pid} {e}")
            return 2
        fresh_mismatch = [s for s in fresh_seeds if fd.get(s) != digests.get(s)]
        if fresh_mismatch:
            print(f"HARNESS-ERROR property={pid} digest differs in fresh interpreter (PYTHONHASHSEED=1) for {fresh_mismatch[:5]}")
            return 2

    # group violations by signature, smallest run seed first
    known = load_known(pid)
    by_sig: dict[tuple, list] = {}
    for s, v in sorted(viol, key=lambda x: x[0]):
        by_sig.setdefault(sig_of(v), []).append((s, v))
    known_seen, unknown = [], []
    for sg, lst in sorted(by_sig.items()):
        (known_seen if is_known(lst[0][1], known) else unknown).append((sg, lst))

    exit_code = 0
    replay_paths = []
    drift = []
    for sg, lst in known_seen:
        e = next(e for e in known if (e["rule"], e["key"]) == sg)
        print(f"KNOWN-FINDING: property={pid} rule={sg[0]} key={sg[1]} runs={len(lst)} {e.get('what', '')}")
        # drift guard: a listed finding that suddenly shows in several times as many runs as it does on the tree it was recorded
        # on is not "the listed finding" any more - another defect is producing the same signature and must not hide behind it
        rate = e.get("rate")
        if rate is not None and len(lst) > 3 * rate * tot["runs"] + 20:
            drift.append((sg, lst, rate * tot["runs"]))
    min_budget = {"quick": 20.0, "thorough": 60.0}[tier]
    for sg, lst in unknown[:8]:
        s, v = lst[0]
        plan = mod.gen_plan(s, tier)
        try:
            mplan, before, after = minimise(mod, plan, sg, budget_s=min_budget)
            minimised = True
        except Exception:
            mplan, before, after, minimised = plan, len(plan.get("ops", [])), len(plan.get("ops", [])), False
        path = write_replay(pid, mod, s, mplan, v, minimised, before, after)
        replay_paths.append(path)
        print(f"VIOLATION property={pid} replay={path} rule={sg[0]} key={sg[1]} runs={len(lst)} detail={v['detail'][:300]}")
        exit_code = 1
    for sg, lst, expected in drift:
        s_, v = lst[0]
        path = write_replay(pid, mod, s_, mod.gen_plan(s_, tier), v, False, 0, 0)
        print(f"VIOLATION property={pid} replay={path} rule=known-finding-drift key={sg[0]}/{sg[1]} runs={len(lst)} "
              f"detail=the listed finding {sg[0]} {sg[1]} shows in {len(lst)} of {tot['runs']} runs, about {expected:.0f} are expected from the "
              f"tree it was recorded on: a different defect produces the same signature")
        exit_code = 1
    for sg, lst in unknown[8:]:
        print(f"VIOLATION property={pid} replay={replay_paths[0]} rule={sg[0]} key={sg[1]} runs={len(lst)} (not minimised; more than 8 signatures)")

    wall = time.time() - t_start
    ev = {
        "property_id": pid, "tier": tier, "seed": base_seed, "level": "exploration",
        "coverage": {
            "evaluations": tot["runs"],
            "distinct_nontrivial": len(sigs),
            "rule": getattr(mod, "RULE_TEXT", ""),
            "samples": [sample] if sample else [],
            "runs_per_hour": int(tot["runs"] / max(wall, 1e-6) * 3600),
            "seeds": {"first": seeds[0], "last": seeds[-1], "count": len(seeds)},
            "sim_time_s": round(tot["sim_us"] / 1e6, 3),
            "events": tot["events"],
            "nontrivial_runs": tot["nontrivial"],
            "faults_fired": dict(sorted(faults.items())),
            "runs_with_fault": tot["runs_with_fault"],
            "probes": dict(sorted(probes.items())),
            "components": getattr(mod, "COMPONENTS", {}),
            "determinism": {"double_runs": tot["double_runs"], "double_mismatches": len(mismatch),
                            "fresh_interpreter_runs": len(fresh_seeds), "fresh_mismatches": len(fresh_mismatch),
                            "fresh_pythonhashseed": 1},
            "known_findings_seen": [{"rule": sg[0], "key": sg[1], "runs": len(lst)} for sg, lst in known_seen],
            "violating_runs": tot["viol_runs"],
            "workers": len(shards),
        },
        "assumptions": getattr(mod, "ASSUMPTIONS", []),
        "wall_s": round(wall, 3),
        "violations": len(unknown) + len(drift),
    }
    os.makedirs(EVIDENCE_DIR, exist_ok=True)
    with open(os.path.join(EVIDENCE_DIR, pid + ".json"), "w") as f:
        json.dump(ev, f, indent=1, sort_keys=True, default=str)
    stuck = [p for p in getattr(mod, "EXPECTED_PROBES", []) if not probes.get(p)]
    print(f"{pid} tier={tier} seed={base_seed} runs={tot['runs']} distinct={len(sigs)} events={tot['events']} "
          f"sim_s={tot['sim_us'] / 1e6:.1f} wall_s={wall:.1f} known={len(known_seen)} unknown={len(unknown)}"
          + (f" stuck_probes={stuck}" if stuck else ""))
    return exit_code


def cmd_replay(path: str) -> int:
    with open(path) as f:
        doc = json.load(f)
    pid = doc["property"]
    mod = load_prop(pid)
    res = _execute(mod, doc["plan"])
    if res["harness_error"]:
        print("HARNESS-ERROR during replay\n" + res["harness_error"])
        return 2
    target = (doc["violation"]["rule"], doc["violation"]["key"])
    hit = [v for v in res["violations"] if sig_of(v) == target]
    if not hit:
        print(f"NOT-REPRODUCED property={pid} rule={target[0]} key={target[1]}; observed: "
              + ", ".join(sorted({'%s/%s' % sig_of(v) for v in res['violations']})))
        return 3
    same = ("sha256:" + res["digest"]) == doc.get("event_digest")
    print(f"VIOLATION property={pid} replay={os.path.abspath(path)} rule={target[0]} key={target[1]} "
          f"detail={hit[0]['detail'][:400]}" + ("" if same else " (reproduced, trace differs)"))
    if os.environ.get("FSIM_TRACE"):
        for line in res.get("trace", []):
            print("   ", line)
    return 1
