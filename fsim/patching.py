"""Patch manager: owns every nondeterminism seam of flexstack by replacing module
attributes for the duration of one run, and restores them afterwards."""
from __future__ import annotations

import io
import sys
import random as _random
import threading


class _Null(io.TextIOBase):
    def write(self, s):
        return len(s)

    def flush(self):
        pass


NULL = _Null()


class Patches:
    def __init__(self):
        self._undo = []
        self._stdout = None

    def set(self, obj, name, value):
        missing = object()
        old = obj.__dict__.get(name, missing) if isinstance(obj, type) else getattr(obj, name, missing)
        self._undo.append((obj, name, old, missing))
        setattr(obj, name, value)

    def mute_stdout(self):
        self._stdout = sys.stdout
        sys.stdout = NULL

    def restore(self):
        for obj, name, old, missing in reversed(self._undo):
            if old is missing:
                try:
                    delattr(obj, name)
                except AttributeError:
                    pass
            else:
                setattr(obj, name, old)
        self._undo.clear()
        if self._stdout is not None:
            sys.stdout = self._stdout
            self._stdout = None

    def __enter__(self):
        return self

    def __exit__(self, *a):
        self.restore()
        return False


class RandomFacade:
    """Stands in for the `random` module inside patched modules."""

    def __init__(self, seed):
        self._r = _random.Random(seed)

    def __getattr__(self, name):
        return getattr(self._r, name)


def patch_core(p: Patches, kernel, seed: int):
    """Seams shared by all engines: clock, GN router timers/threads/events/PRNG."""
    from .kernel import make_classes, TimeFacade, ThreadingFacade
    from flexstack.utils import time_service
    import flexstack.geonet.router as gr
    T, Th, E = make_classes(kernel)
    p.set(time_service.TimeService, "time", staticmethod(kernel.time))
    p.set(gr, "Timer", T)
    p.set(gr, "Thread", Th)
    p.set(gr, "Event", E)
    p.set(gr, "random", RandomFacade(seed ^ 0x5EED))
    return T, Th, E


def patch_module_time_threading(p: Patches, kernel, modules, seed: int = 0):
    """Replace `time`, `threading`, `random` attributes of the given modules (if present)."""
    from .kernel import TimeFacade, ThreadingFacade
    tf = TimeFacade(kernel)
    thf = ThreadingFacade(kernel)
    for i, m in enumerate(modules):
        if "time" in m.__dict__ and getattr(m.__dict__["time"], "__name__", "") == "time":
            p.set(m, "time", tf)
        if "threading" in m.__dict__ and m.__dict__["threading"] is threading:
            p.set(m, "threading", thf)
        if "random" in m.__dict__ and getattr(m.__dict__["random"], "__name__", "") == "random":
            p.set(m, "random", RandomFacade(seed + 7919 * (i + 1)))
    return tf, thf
