"""Reference models for C19, written from ETSI TS 102 687 V1.2.1 (2018-04): clause 5.3 + Annex A
(reactive approach), clause 5.4 + Table 3 (adaptive approach, LIMERIC steps 1-5) and Annex B
(gate keeper, equations B.1 / B.2).  Shares no code with /repo/src.

Where the text of the standard leaves a point open (or could not be consulted) the model returns a *set*
of acceptable answers instead of one, see the comments marked RELAX.
"""
from __future__ import annotations

import math

# ------------------------------------------------------------------------------------- reactive
STATES = ["RELAXED", "ACTIVE_1", "ACTIVE_2", "ACTIVE_3", "RESTRICTIVE"]

# Annex A, "Packet rate" / "T_off" columns.  (Hz, ms) per state, Relaxed .. Restrictive.
ROWS = {
    "A1": [(10.0, 100.0), (5.0, 200.0), (2.5, 400.0), (2.0, 500.0), (1.0, 1000.0)],   # T_on <= 1 ms
    "A2": [(20.0, 50.0), (10.0, 100.0), (5.0, 200.0), (4.0, 250.0), (1.0, 1000.0)],   # T_on <= 500 us
}

# Annex A, "CBR" column, as printed (per cent): "< 30 %", "30 % to 39 %", "40 % to 49 %", "50 % to X %", "> Y %".
# The printed bands leave the open intervals (39,40) and (49,50) unassigned (RELAX: either neighbour accepted).
# Upper end of Active 3: Table A.2 prints 65 %.  For Table A.1 the value could not be checked against the
# text (0.60 and 0.65 both circulate), therefore everything in (0.59, 0.65] is accepted as Active 3 or Restrictive
# for Table A.1 (RELAX).  The exact value 0.65 ("50 % to 65 %" / "> 65 %" vs. half-open reading) is accepted as either.
BOUNDARY_REPRESENTATIVES = [0.0, 0.30, 0.39, 0.40, 0.49, 0.50, 0.59, 0.60, 0.65, 1.0]


def table_for(t_on_max_us):
    """Which Annex A table applies to an assumed maximum transmission duration (None = default 1 ms)."""
    if t_on_max_us is None:
        return "A1"
    if t_on_max_us <= 500:
        return "A2"
    if t_on_max_us <= 1000:
        return "A1"
    return None      # outside both tables: no reference


def valid_cbr(v) -> bool:
    return isinstance(v, float) and 0.0 <= v <= 1.0      # NaN compares false


def band_states(table: str, cbr: float):
    """Set of state indices whose printed CBR band may contain `cbr` (1 or 2 members), and a tag
    naming the relaxation used (None when the answer is unique)."""
    if cbr < 0.30:
        return (0,), None
    if cbr <= 0.39:
        return (1,), None
    if cbr < 0.40:
        return (1, 2), "gap-39-40"
    if cbr <= 0.49:
        return (2,), None
    if cbr < 0.50:
        return (2, 3), "gap-49-50"
    if table == "A2":
        if cbr < 0.65:
            return (3,), None
        if cbr == 0.65:
            return (3, 4), "exact-65"
        return (4,), None
    # Table A.1
    if cbr <= 0.59:
        return (3,), None
    if cbr <= 0.65:
        return (3, 4), "a1-upper-boundary-uncertain"
    return (4,), None


# ------------------------------------------------------------------------------------- adaptive
TABLE3 = {"alpha": 0.016, "beta": 0.0012, "cbr_target": 0.68, "delta_max": 0.03, "delta_min": 0.0006,
          "delta_up_max": 0.0005, "delta_down_max": -0.00025}


class RefLimeric:
    """Clause 5.4: one evaluation = steps 1..5.

    step 1  CBR_ITS-S = 0.5 * CBR_ITS-S + 0.5 * ((CBR_L_0_Hop + CBR_L_0_Hop_Previous) / 2)       (1)
            (CBR_G / CBR_G_Previous instead of the local values when a global CBR is available)
    step 2  if sign(CBR_target - CBR_ITS-S) positive: delta_offset = min(beta * (CBR_target - CBR_ITS-S), G+max)  (2)
            else:                                      delta_offset = max(beta * (CBR_target - CBR_ITS-S), G-max)  (3)
    step 3  delta = (1 - alpha) * delta + delta_offset                                            (4)
    step 4  if delta > delta_max: delta = delta_max                                               (5)
    step 5  if delta < delta_min: delta = delta_min                                               (6)
    """

    def __init__(self, prm: dict, delta0: float, cbr0: float):
        self.a = prm["alpha"]
        self.b = prm["beta"]
        self.target = prm["cbr_target"]
        self.dmax = prm["delta_max"]
        self.dmin = prm["delta_min"]
        self.gplus = prm["delta_up_max"]
        self.gminus = prm["delta_down_max"]
        self.delta = delta0
        self.cbr = cbr0

    def step(self, l0, l1, g0=None, g1=None):
        """Returns (delta, offset_class, clamp_class)."""
        if g0 is not None and g1 is not None:
            mean = (g0 + g1) / 2.0
        else:
            mean = (l0 + l1) / 2.0
        self.cbr = 0.5 * self.cbr + 0.5 * mean
        err = self.target - self.cbr
        lin = self.b * err
        if err > 0.0:
            off, oc = (lin, "lin") if lin <= self.gplus else (self.gplus, "g+")
        else:
            off, oc = (lin, "lin") if lin >= self.gminus else (self.gminus, "g-")
        d = (1.0 - self.a) * self.delta + off
        cc = "none"
        if d > self.dmax:
            d, cc = self.dmax, "max"
        if d < self.dmin:
            d, cc = self.dmin, "min"
        self.delta = d
        return d, oc, cc


# ------------------------------------------------------------------------------------- gate keeper
T_MIN = 0.025     # s, Annex B: min(max(.., 0.025), 1)
T_MAX = 1.0


def _clamp(x):
    if x < T_MIN:
        return T_MIN, "min-clamp"
    if x > T_MAX:
        return T_MAX, "max-clamp"
    return x, "lin"


class RefGate:
    """Annex B.  B.1: after a packet passed at t_pg the gate opens at t_go = t_pg + min(max(T_on_pp/delta, 0.025), 1).
    B.2: when delta changes while the gate is closed, t_go = t_pg + min(max(delta_old/delta_new * (t_go - t_pg), 0.025), 1).

    B.2 is taken from the citation in the docstring of the code under test (the text of Annex B was not
    available).  The other reading, re-evaluating B.1 with the new delta (t_pg + min(max(T_on_pp/delta_new, .025), 1)),
    differs only when a clamp was active; it is tracked (probe b2-forms-differ) but no longer accepted.
    Intervals are kept as numbers (not as t_go - t_pg) together with a bound `err` on what float rounding of
    absolute times may contribute (at Unix-epoch magnitudes one ulp is 2.4e-7 s and B.2 multiplies it by the
    delta ratio).
    """

    def __init__(self, delta: float):
        self.delta = delta
        self.t_pg = None
        self.iv_r = None          # interval, rescaling form of B.2
        self.iv_d = None          # interval, "B.1 with the new delta" form
        self.t_on = None
        self.err = 0.0
        self.sit = "initial"
        self.unknown = False      # state could not be followed (delta update inside the tolerance zone)
        self.admissions = 0

    # -- queries
    def window(self):
        """(lo, hi, tol): closed for sure before lo - tol, open for sure from hi + tol."""
        if self.t_pg is None:
            return None
        # Judged against the rescaling form only (the equation cited as B.2 by the code under test and demanded "exactly"
        # by the statement); iv_d is still tracked for the `b2-forms-differ` probe.  Accepting any instant between both
        # forms hid seeded breakage C19c (closed interval recomputed as T_on_pp/delta_new after a clamped B.1).
        lo = hi = self.t_pg + self.iv_r
        tol = 1.0e-9 + self.err + 8.0 * math.ulp(hi)
        return lo, hi, tol

    def verdict(self, t: float) -> str:
        """'open' / 'closed' when the standard decides, 'either' inside the tolerance zone or unknown state."""
        if self.t_pg is None:
            return "open"
        if self.unknown:
            return "either"
        lo, hi, tol = self.window()
        if t < lo - tol:
            return "closed"
        if t >= hi + tol:
            return "open"
        return "either"

    def primary_go(self):
        return None if self.t_pg is None else self.t_pg + self.iv_r

    # -- transitions
    def admitted(self, t: float, t_on: float):
        self.t_pg = t
        self.t_on = t_on
        iv, cls = _clamp(t_on / self.delta)
        self.iv_r = self.iv_d = iv
        self.err = 4.0 * math.ulp(t + iv)
        self.sit = "b1/" + cls
        self.unknown = False
        self.admissions += 1
        return cls

    def delta_update(self, t: float, d_new: float):
        """Returns a tag: 'open' (only delta changes), 'rescaled:<class>' or 'unknown'."""
        d_old = self.delta
        self.delta = d_new
        if self.t_pg is None:
            return "open"
        if self.unknown:
            return "unknown"
        v = self.verdict(t)
        if v == "open":
            return "open"
        if v == "either":
            self.unknown = True
            return "unknown"
        ratio = d_old / d_new
        raw = ratio * self.iv_r
        self.iv_r, cls = _clamp(raw)
        self.iv_d, _ = _clamp(self.t_on / d_new)
        ulp = math.ulp(self.t_pg + T_MAX)
        e_raw = self.err * ratio
        bound = T_MIN if cls == "min-clamp" else T_MAX
        if cls != "lin" and abs(raw - bound) > e_raw:
            self.err = 4.0 * ulp                 # clamped on both sides of the rounding error: exact again
        else:
            self.err = e_raw + 4.0 * ulp
        self.sit = "b2/" + ("inc" if d_new > d_old else "dec" if d_new < d_old else "same") + "/" + cls
        return "rescaled:" + cls
