"""Turn a finished simulation into the result dict the runner aggregates."""
from __future__ import annotations

import hashlib


def finish(sim, trace, nontrivial=None, extra=None) -> dict:
    k = sim.kernel
    tr = [tuple(str(x) for x in t) if isinstance(t, (tuple, list)) else (str(t),) for t in trace]
    sig = hashlib.sha256(repr(tr).encode()).hexdigest()[:16]
    if k.exhausted:
        sim.probe("event-cap-reached")
    for (kind, st, name, e) in k.task_errors:
        sim.probe(f"task-error:{kind}:{type(e).__name__}")
    for v in sim.violations:
        k.record("violation", v["rule"], v["key"])
    res = {
        "violations": list(sim.violations),
        "probes": dict(sim.probes),
        "faults": dict(sim.faults),
        "sig": sig,
        "nontrivial": (len(tr) > 0) if nontrivial is None else nontrivial,
        "events": k.events_run,
        "sim_us": k.now_us - k.t0_us,
        "digest": k.digest(),
        "trace": ["/".join(t) for t in tr],
    }
    if extra:
        res.update(extra)
    return res
