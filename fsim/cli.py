"""fsim command line: check a property, replay a file, print digests."""
from __future__ import annotations

import argparse
import os
import sys


def main(argv=None) -> int:
    ap = argparse.ArgumentParser(prog="run")
    ap.add_argument("what", help="property id (C01..C20) | replay | digest | selftest")
    ap.add_argument("arg", nargs="?")
    ap.add_argument("--tier", default=os.environ.get("VERIF_TIER", "quick"), choices=["quick", "thorough"])
    ap.add_argument("--replay")
    ap.add_argument("--seeds")
    ap.add_argument("--runs", type=int)
    ap.add_argument("--workers", type=int)
    a = ap.parse_args(argv)
    from . import runner
    if a.what == "replay":
        return runner.cmd_replay(a.arg or a.replay)
    if a.what == "digest":
        return runner.cmd_digest(a.arg, a.tier, [int(x) for x in a.seeds.split(",")])
    if a.what == "mkreplay":
        # ./run mkreplay C02 --seeds <run_seed> --replay "<rule>|<key>|<outfile>"  (development helper)
        import shutil
        rule, key, out = a.replay.split("|")
        mod = runner.load_prop(a.arg)
        s0 = int(a.seeds)
        for s in range(s0, s0 + 5000):
            plan = mod.gen_plan(s, a.tier)
            res = runner._execute(mod, plan)
            v = next((v for v in res["violations"] if (v["rule"], v["key"]) == (rule, key)), None)
            if v:
                mplan, before, after = runner.minimise(mod, plan, (rule, key), budget_s=60)
                path = runner.write_replay(a.arg, mod, s, mplan, v, True, before, after)
                shutil.move(path, out)
                print("written", out, "ops", before, "->", after)
                return 0
        print("no run with that signature found")
        return 3
    if a.what == "selftest":
        from . import selftest
        return selftest.main(a.tier)
    if a.replay:
        return runner.cmd_replay(a.replay)
    seed = int(os.environ.get("VERIF_SEED", "0") or 0)
    return runner.run_check(a.what.upper(), a.tier, seed, a.runs, a.workers)


if __name__ == "__main__":
    sys.exit(main())
