"""`rx` engine: the real link-layer receive loops (RawLinkLayer.receive on a scripted fake socket,
PythonCV2XLinkLayer.callback_handler_loop on a scripted queue) feeding a real GN router, BTP router and the
CA / DEN / VRU reception paths (with or without LDM, security off / on), next to a twin station that only
receives the well-formed frames of the same script.

Real code: linklayer.RawLinkLayer (ctor, send, receive), linklayer.PythonCV2XLinkLayer (ctor, send,
callback_handler_loop), geonet.Router, btp.Router, CAM/VAM/DENM reception managements (+ LDM adaptation),
VerifyService/SignService when secured.  Stubs: socket module, cv2xlinklayer extension, multiprocessing,
clock, threads.
"""
from __future__ import annotations

import logging
import sys
import types
from typing import Any, Optional

from .kernel import Kernel, HarnessError, make_classes, ThreadingFacade, TimeFacade
from .patching import Patches, patch_core, RandomFacade
from . import refcodec as rc
from . import facsim
from .netsim import iso_time

from flexstack.geonet.router import Router as GNRouter
from flexstack.geonet.mib import MIB, GnSecurity
from flexstack.geonet import mib as gnmib
from flexstack.geonet.gn_address import GNAddress, M, ST, MID
from flexstack.btp.router import Router as BTPRouter
from flexstack.linklayer.link_layer import LinkLayer

ETHERTYPE = b"\x89\x47"
BCAST = b"\xff" * 6


# --------------------------------------------------------------------------------------------- fake socket
class FakeSock:
    def __init__(self, sim: "RxSim"):
        self.sim = sim
        self.queue: list = []
        self.waiter = None
        self.sent: list[bytes] = []
        self.closed = False
        self.bound = None
        self.eof = False

    def bind(self, addr):
        self.bound = addr

    def close(self):
        self.closed = True

    def send(self, data: bytes):
        self.sent.append(bytes(data))
        return len(data)

    def recv(self, n: int) -> bytes:
        k = self.sim.kernel
        while not self.queue:
            if self.eof:
                raise OSError("socket closed (end of script)")
            th = k.in_sim_thread()
            if th is None:
                raise HarnessError("recv() outside a SimThread")
            self.waiter = th
            k._park(th)
        item = self.queue.pop(0)
        if isinstance(item, BaseException):
            raise item
        return item[:n]

    # harness side
    def feed(self, frame) -> None:
        self.queue.append(frame)
        self._wake()

    def end(self) -> None:
        self.eof = True
        self._wake()

    def _wake(self):
        th, self.waiter = self.waiter, None
        if th is not None:
            k = self.sim.kernel
            k.call_later(0, k._resume, th, station=th.station, kind="wake", cause=th.cause)


class FakeSocketModule:
    AF_PACKET = 17
    SOCK_RAW = 3

    def __init__(self, sim: "RxSim"):
        self.sim = sim
        self.created: list[FakeSock] = []

    def socket(self, *a, **kw):
        s = FakeSock(self.sim)
        self.created.append(s)
        return s

    @staticmethod
    def htons(x):
        return ((x & 0xFF) << 8) | (x >> 8)


class SimQueue:
    """multiprocessing.Queue stand-in: get() parks the calling SimThread."""

    def __init__(self, sim: "RxSim"):
        self.sim = sim
        self.items: list = []
        self.waiter = None

    def put(self, x):
        self.items.append(x)
        th, self.waiter = self.waiter, None
        if th is not None:
            k = self.sim.kernel
            k.call_later(0, k._resume, th, station=th.station, kind="wake", cause=th.cause)

    def get(self):
        k = self.sim.kernel
        while not self.items:
            th = k.in_sim_thread()
            if th is None:
                raise HarnessError("Queue.get() outside a SimThread")
            self.waiter = th
            k._park(th)
        return self.items.pop(0)


class FakeMP:
    def __init__(self, sim):
        self.sim = sim

    def Event(self):
        class _E:
            def __init__(s): s.f = False
            def set(s): s.f = True
            def is_set(s): return s.f
        return _E()

    def Queue(self):
        return SimQueue(self.sim)

    def Process(self, target=None, args=(), daemon=None):
        class _P:
            def start(s): pass
            def join(s, timeout=None): pass
        return _P()


class FakeCV2X:
    """Stands in for the C-V2X SDK object (linklayer/cv2xlinklayer.so)."""

    def __init__(self):
        self.sent: list[bytes] = []

    def send(self, b):
        self.sent.append(bytes(b))

    def receive(self):
        return b""


def install_fake_cv2x_module():
    name = "flexstack.linklayer.cv2xlinklayer"
    if name not in sys.modules:
        m = types.ModuleType(name)
        m.CV2XLinkLayer = FakeCV2X
        sys.modules[name] = m
        import flexstack.linklayer as ll
        setattr(ll, "cv2xlinklayer", m)


# --------------------------------------------------------------------------------------------- hosts
class Host:
    """One complete station as in examples/all_sender_and_receiver.py (reception side)."""

    def __init__(self, sim: "RxSim", name: str, spec: dict, link_kind: str):
        self.sim = sim
        self.name = name
        self.spec = spec
        self.mac = bytes.fromhex(spec["mac"])
        self.router_calls: list = []          # frames that reached gn_data_indicate
        self.escaped: list = []               # exceptions that escaped the receive callback into the loop
        self.handled: list = []               # (port, payload) for every facility reception callback invocation
        self.link_kind = link_kind
        k = sim.kernel
        prev = (k.current_station, k.current_cause)
        k.current_station, k.current_cause = name, ("boot", name)
        try:
            self._build()
        finally:
            k.current_station, k.current_cause = prev

    def _build(self):
        sim, spec = self.sim, self.spec
        kw: dict[str, Any] = {"itsGnLocalGnAddr": GNAddress(m=M(0), st=ST(spec.get("st", 5)), mid=MID(self.mac))}
        for kx, v in spec.get("mib", {}).items():
            if kx == "itsGnAreaForwardingAlgorithm":
                v = gnmib.AreaForwardingAlgorithm[v]
            kw[kx] = v
        sign = verify = None
        if spec.get("secure"):
            kw["itsGnSecurity"] = GnSecurity.ENABLED
            sign, verify = sim.pki.services_for(0, preload=list(range(1, len(sim.pki.tickets))))
        self.mib = MIB(**kw)
        self.gn = GNRouter(self.mib, sign_service=sign, verify_service=verify)
        self.verify = verify
        orig_indicate = self.gn.gn_data_indicate
        host = self

        def receive_callback(packet: bytes) -> None:
            host.router_calls.append(bytes(packet))
            try:
                orig_indicate(packet)
            except BaseException as e:
                from .kernel import SimExit
                if not isinstance(e, SimExit):
                    host.escaped.append((len(host.router_calls) - 1, e))
                raise
        if self.link_kind == "raw":
            from flexstack.linklayer.raw_link_layer import RawLinkLayer
            self.ll = RawLinkLayer("sim0", self.mac, receive_callback)
            self.sock = self.ll.sock
            self.thread = self.ll.receiving_thread
        else:
            from flexstack.linklayer.cv2x_link_layer import PythonCV2XLinkLayer
            self.ll = PythonCV2XLinkLayer(receive_callback)
            self.sock = None
            self.thread = self.ll.callback_thread
        self.gn.link_layer = self.ll
        self.btp = BTPRouter(self.gn)
        self.gn.register_indication_callback(self.btp.btp_data_indication)
        self.ldm = None
        if spec.get("ldm"):
            from flexstack.facilities.local_dynamic_map.factory import LDMFactory
            from flexstack.facilities.local_dynamic_map.ldm_classes import Location
            loc = Location.initializer(latitude=spec["pos"][0] + 5_000_000, longitude=spec["pos"][1])   # LDM position away from traffic
            self.ldm = LDMFactory().create_ldm(loc, ldm_maintenance_type="Reactive", ldm_service_type="Reactive",
                                               ldm_database_type="Dictionary")
        fac = spec.get("facilities", [])
        if "ca" in fac:
            from flexstack.facilities.ca_basic_service.ca_basic_service import CooperativeAwarenessBasicService
            from flexstack.facilities.ca_basic_service.cam_transmission_management import VehicleData
            self.ca = CooperativeAwarenessBasicService(self.btp, VehicleData(station_id=spec.get("station_id", 7), station_type=5), ldm=self.ldm)
        if "vru" in fac:
            from flexstack.facilities.vru_awareness_service.vru_awareness_service import VRUAwarenessService
            from flexstack.facilities.vru_awareness_service.vam_transmission_management import DeviceDataProvider
            self.vru = VRUAwarenessService(self.btp, DeviceDataProvider(station_id=spec.get("station_id", 7), station_type=1), ldm=self.ldm)
            if getattr(self.vru, "clustering_manager", None) is not None:
                self.vru.clustering_manager._time_fn = sim.kernel.time
        if "den" in fac:
            from flexstack.facilities.decentralized_environmental_notification_service.den_service import \
                DecentralizedEnvironmentalNotificationService
            from flexstack.facilities.ca_basic_service.cam_transmission_management import VehicleData
            self.den = DecentralizedEnvironmentalNotificationService(self.btp, VehicleData(station_id=spec.get("station_id", 7), station_type=5), ldm=self.ldm)
        for port in list(self.btp.pre_indication_callbacks):
            self._wrap_port(port)
        for port in spec.get("extra_ports", []):
            if port not in self.btp.pre_indication_callbacks:
                self.btp.register_indication_callback_btp(port, lambda ind, p=port: self.handled.append((p, bytes(ind.data), None)))
        self.btp.freeze_callbacks()
        tpv = {"class": "TPV", "lat": spec["pos"][0] / 1e7, "lon": spec["pos"][1] / 1e7, "speed": 0.0, "track": 0.0,
               "time": iso_time(sim.kernel.now_us)}
        self.gn.refresh_ego_position_vector(tpv)

    def _wrap_port(self, port: int):
        orig = self.btp.pre_indication_callbacks[port]
        host = self

        def cb(ind):
            rec = [port, bytes(ind.data), None]
            host.handled.append(rec)
            try:
                orig(ind)
            except BaseException as e:
                rec[2] = type(e).__name__
                raise
        self.btp.pre_indication_callbacks[port] = cb

    # ---- observations
    def alive(self) -> bool:
        return self.thread.is_alive()

    def emitted(self) -> list[bytes]:
        if self.link_kind == "raw":
            return list(self.sock.sent)
        return list(self.ll.link_layer.sent)

    def loct(self) -> list:
        out = []
        lt = self.gn.location_table
        with lt.loc_t_lock:
            items = list(lt.loc_t.items())
        for addr, e in items:
            pv = e.position_vector
            out.append((addr.mid.mid.hex(), pv.tst.msec, pv.latitude, pv.longitude, bool(pv.pai), pv.s, pv.h, bool(e.is_neighbour),
                        bool(e.ls_pending)))
        return sorted(out)

    def trust(self) -> list:
        if self.verify is None:
            return []
        lib = self.verify.certificate_library
        out = []
        for name in ("known_root_certificates", "known_authorization_authorities", "known_authorization_tickets"):
            d = getattr(lib, name, {})
            out.append(sorted(k.hex() if isinstance(k, (bytes, bytearray)) else str(k) for k in d))
        return out

    def ldm_count(self) -> Optional[int]:
        if self.ldm is None:
            return None
        try:
            return len(self.ldm.ldm_service.ldm_maintenance.get_all_data_containers())
        except Exception:
            return -1

    def feed(self, eth_frame: bytes) -> None:
        if self.link_kind == "raw":
            self.sock.feed(eth_frame)
        else:
            self.ll.callback_queue.put(eth_frame[14:])

    def end(self) -> None:
        if self.link_kind == "raw":
            self.sock.end()
        else:
            self.ll.callback_queue.put(None)


class RxSim:
    def __init__(self, plan: dict):
        self.plan = plan
        self.cfg = plan["config"]
        self.kernel = Kernel(self.cfg.get("t0_us", 1_767_225_600_000_000), max_events=self.cfg.get("max_events", 30_000))
        self.violations: list[dict] = []
        self.probes: dict[str, int] = {}
        self.faults: dict[str, int] = {}
        self.pki = None
        self.trace: list = []

    def probe(self, n, c=1):
        self.probes[n] = self.probes.get(n, 0) + c

    def fault(self, n, c=1):
        self.faults[n] = self.faults.get(n, 0) + c

    def violate(self, prop, rule, key, detail):
        self.violations.append({"property": prop, "rule": rule, "key": key, "detail": detail,
                                "t_us": self.kernel.now_us - self.kernel.t0_us, "seq": self.kernel.seq})

    def patches(self, p: Patches):
        k = self.kernel
        patch_core(p, k, self.cfg.get("net_seed", 0))
        import flexstack.linklayer.raw_link_layer as rll
        self.sockmod = FakeSocketModule(self)
        p.set(rll, "socket", self.sockmod)
        p.set(rll, "threading", ThreadingFacade(k))
        install_fake_cv2x_module()
        import flexstack.linklayer.cv2x_link_layer as cll
        p.set(cll, "multiprocessing", FakeMP(self))
        p.set(cll, "threading", ThreadingFacade(k))
        import flexstack.facilities.ca_basic_service.ca_basic_service as cabs
        import flexstack.facilities.ca_basic_service.cam_transmission_management as camtm
        import flexstack.facilities.vru_awareness_service.vru_awareness_service as vas
        import flexstack.facilities.vru_awareness_service.vru_clustering as vcl
        import flexstack.facilities.decentralized_environmental_notification_service.den_service as dsv
        import flexstack.facilities.decentralized_environmental_notification_service.denm_transmission_management as dtm
        import flexstack.facilities.local_dynamic_map.ldm_service_reactive as lsr
        import flexstack.facilities.local_dynamic_map.ldm_maintenance_reactive as lmr
        import time as _time_mod
        p.set(camtm, "threading", ThreadingFacade(k))
        p.set(camtm, "random", RandomFacade(1))
        p.set(cabs, "CAMCoder", lambda: facsim.coder("cam"))
        p.set(vas, "VAMCoder", lambda: facsim.coder("vam"))
        p.set(dsv, "DENMCoder", lambda: facsim.coder("denm"))
        p.set(vcl, "random", RandomFacade(2))
        p.set(vcl, "time", TimeFacade(k))
        p.set(dtm, "time", TimeFacade(k))
        p.set(dtm, "threading", ThreadingFacade(k))
        p.set(lsr, "time", TimeFacade(k))
        p.set(lmr, "time", TimeFacade(k))
        p.set(_time_mod, "time", k.time)
