"""`net` engine: several real GN+BTP stacks on a simulated ether, executed from a plan.

Real code: flexstack.geonet.Router, LocationTable, header classes, flexstack.btp.Router.
Stubs: SimLinkLayer (radio), clock, timers, beacon thread host, GNSS, PRNG.
"""
from __future__ import annotations

import datetime
import hashlib
import struct
from typing import Any, Optional

from .kernel import Kernel, HarnessError
from .patching import Patches, patch_core
from . import refcodec as rc

from flexstack.linklayer.link_layer import LinkLayer
from flexstack.linklayer.exceptions import SendingException, PacketTooLongException
from flexstack.geonet.router import Router as GNRouter
from flexstack.geonet import mib as gnmib
from flexstack.geonet.mib import MIB
from flexstack.geonet.gn_address import GNAddress, M, ST, MID
from flexstack.geonet.service_access_point import (
    Area, PacketTransportType, HeaderType, TopoBroadcastHST, GeoBroadcastHST, GeoAnycastHST,
    TrafficClass, CommonNH, GNDataRequest,
)
from flexstack.btp.router import Router as BTPRouter
from flexstack.btp.service_access_point import BTPDataRequest
from flexstack.security.security_profiles import SecurityProfile

DEFAULT_T0_US = 1_767_225_600_000_000  # 2026-01-01T00:00:00Z

_ENUMS = {
    "itsGnIsMobile": gnmib.GnIsMobile,
    "itsGnSecurity": gnmib.GnSecurity,
    "itsGnNonAreaForwardingAlgorithm": gnmib.NonAreaForwardingAlgorithm,
    "itsGnAreaForwardingAlgorithm": gnmib.AreaForwardingAlgorithm,
    "itsGnIfType": gnmib.GnIfType,
}

SHAPES_GBC = {0: GeoBroadcastHST.GEOBROADCAST_CIRCLE, 1: GeoBroadcastHST.GEOBROADCAST_RECT,
              2: GeoBroadcastHST.GEOBROADCAST_ELIP}
SHAPES_GAC = {0: GeoAnycastHST.GEOANYCAST_CIRCLE, 1: GeoAnycastHST.GEOANYCAST_RECT,
              2: GeoAnycastHST.GEOANYCAST_ELIP}


def keyed(*parts) -> int:
    """Order-independent per-site randomness: 64 bits from a keyed hash of the parts."""
    h = hashlib.blake2b(repr(parts).encode(), digest_size=8).digest()
    return struct.unpack(">Q", h)[0]


def keyed_unit(*parts) -> float:
    return keyed(*parts) / 2.0 ** 64


def iso_time(unix_us: int) -> str:
    dt = datetime.datetime.fromtimestamp(unix_us // 1_000_000, tz=datetime.timezone.utc)
    return dt.strftime("%Y-%m-%dT%H:%M:%S") + ".%03dZ" % ((unix_us % 1_000_000) // 1000)


class SimLinkLayer(LinkLayer):
    def __init__(self, sim: "NetSim", station: "Station"):
        super().__init__(lambda b: None)
        self.sim = sim
        self.station = station
        self.alive = True
        self.fail_next: list = []

    def send(self, packet: bytes) -> None:
        if not self.alive:
            return
        if self.fail_next:
            kind = self.fail_next.pop(0)
            self.sim.fault("send_error")
            if kind == "toolong":
                raise PacketTooLongException("injected")
            raise SendingException("injected")
        self.sim.transmit(self.station, bytes(packet))


class Station:
    def __init__(self, sim: "NetSim", idx: int, spec: dict):
        self.sim = sim
        self.idx = idx
        self.spec = spec
        self.role = spec.get("role", "stack")
        self.mac = bytes.fromhex(spec["mac"])
        self.pos = list(spec["pos"])
        self.gen = 0
        self.gn: Optional[GNRouter] = None
        self.btp: Optional[BTPRouter] = None
        self.link: Optional[SimLinkLayer] = None
        self.tx_count = 0
        self.extra: dict = {}
        if self.role == "stack":
            self.build()

    # -- addresses ---------------------------------------------------------
    @property
    def addr_bytes(self) -> bytes:
        return rc.enc_addr(self.spec.get("m", 0), self.spec.get("st", 5), self.mac)

    def gn_address(self) -> GNAddress:
        return GNAddress(m=M(self.spec.get("m", 0)), st=ST(self.spec.get("st", 5)), mid=MID(self.mac))

    def make_mib(self) -> MIB:
        kw: dict[str, Any] = {"itsGnLocalGnAddr": self.gn_address()}
        for k, v in self.spec.get("mib", {}).items():
            if k in _ENUMS:
                v = _ENUMS[k][v] if isinstance(v, str) else _ENUMS[k](v)
            kw[k] = v
        return MIB(**kw)

    def build(self) -> None:
        sim = self.sim
        k = sim.kernel
        prev_station, prev_cause = k.current_station, k.current_cause
        k.current_station, k.current_cause = self.idx, ("boot", self.idx)
        try:
            self.gen += 1
            if self.link is not None:
                self.link.alive = False
            self.mib = self.make_mib()
            sign, verify = sim.security_for(self)
            self.gn = GNRouter(self.mib, sign_service=sign, verify_service=verify)
            self.link = SimLinkLayer(sim, self)
            self.gn.link_layer = self.link
            self.btp = BTPRouter(self.gn)
            self.gn.register_indication_callback(self._gn_indication)
            for port in self.spec.get("ports", []):
                self.btp.register_indication_callback_btp(port, self._make_handler(port))
            sim.wire_facilities(self)
            self.btp.freeze_callbacks()
            sn0 = self.spec.get("sn0")
            if sn0 is not None:
                self.gn.sequence_number = sn0
            self.gnss(self.pos[0], self.pos[1], self.spec.get("speed", 0.0), self.spec.get("track", 0.0))
        finally:
            k.current_station, k.current_cause = prev_station, prev_cause

    def _make_handler(self, port: int):
        def handler(ind):
            self.sim.hist.ind.append({"t": self.sim.kernel.now_us, "ev": self.sim.kernel.events_run, "st": self.idx, "port": port, "ind": ind,
                                      "cause": self.sim.kernel.current_cause, "gen": self.gen})
            self.sim.kernel.record("ind", self.idx, port, ind.data)
        return handler

    def _gn_indication(self, gnind) -> None:
        self.sim.hist.gnind.append({"t": self.sim.kernel.now_us, "st": self.idx, "ind": gnind,
                                    "cause": self.sim.kernel.current_cause, "gen": self.gen})
        self.btp.btp_data_indication(gnind)

    def gnss(self, lat_i: int, lon_i: int, speed: float = 0.0, track: float = 0.0) -> None:
        """Position report; coordinates are integers in 1/10 microdegree."""
        self.pos = [lat_i, lon_i]
        if self.role != "stack":
            return
        tpv = {"class": "TPV", "lat": lat_i / 1e7, "lon": lon_i / 1e7, "speed": speed, "track": track,
               "time": iso_time(self.sim.kernel.station_now_us(self.idx))}
        self.gn.refresh_ego_position_vector(tpv)
        self.sim.on_gnss(self, tpv)

    def ego(self):
        return self.gn.ego_position_vector


class Hist:
    def __init__(self):
        self.tx: list[dict] = []
        self.rx: list[dict] = []
        self.ind: list[dict] = []
        self.gnind: list[dict] = []
        self.ops: list[dict] = []
        self.notes: list = []


class NetSim:
    def __init__(self, plan: dict, security_factory=None):
        self.plan = plan
        cfg = plan["config"]
        self.cfg = cfg
        self.kernel = Kernel(cfg.get("t0_us", DEFAULT_T0_US), max_events=cfg.get("max_events", 20_000))
        self.hist = Hist()
        self.faults: dict[str, int] = {}
        self.probes: dict[str, int] = {}
        self.violations: list[dict] = []
        self.monitors: list = []
        self.security_factory = security_factory
        self.patches = Patches()
        self.stations: list[Station] = []
        self.links: dict[int, set[int]] = {}
        self._last_delivery: dict[tuple, int] = {}
        self.net_seed = cfg.get("net_seed", 0)
        self.rates = cfg.get("rates", {})
        self.fifo = cfg.get("fifo", True)

    # ------------------------------------------------------------------ hooks for subclasses / engines
    def security_for(self, station: Station):
        if self.security_factory is not None and station.spec.get("secure"):
            return self.security_factory(self, station)
        return None, None

    def wire_facilities(self, station: Station) -> None:
        pass

    def on_gnss(self, station: Station, tpv: dict) -> None:
        pass

    def extra_patches(self, p: Patches) -> None:
        pass

    # ------------------------------------------------------------------ bookkeeping
    def fault(self, kind: str, n: int = 1) -> None:
        self.faults[kind] = self.faults.get(kind, 0) + n

    def probe(self, name: str, n: int = 1) -> None:
        self.probes[name] = self.probes.get(name, 0) + n

    def violate(self, prop: str, rule: str, key: str, detail: str) -> None:
        self.violations.append({"property": prop, "rule": rule, "key": key, "detail": detail,
                                "t_us": self.kernel.now_us - self.kernel.t0_us, "seq": self.kernel.seq})

    # ------------------------------------------------------------------ ether
    def neighbours(self, idx: int) -> list[int]:
        return sorted(self.links.get(idx, ()))

    def set_link(self, a: int, b: int, up: bool) -> None:
        if up:
            self.links.setdefault(a, set()).add(b)
            self.links.setdefault(b, set()).add(a)
        else:
            self.links.get(a, set()).discard(b)
            self.links.get(b, set()).discard(a)

    def transmit(self, station: Station, frame: bytes, injected: bool = False, to=None) -> int:
        k = self.kernel
        txi = len(self.hist.tx)
        rec = {"i": txi, "t": k.now_us, "ev": k.events_run, "st": station.idx, "frame": frame, "cause": k.current_cause,
               "gen": station.gen, "injected": injected, "n": station.tx_count}
        self.hist.tx.append(rec)
        k.record("tx", station.idx, frame)
        n = station.tx_count
        station.tx_count += 1
        if not injected:
            for m in self.monitors:
                m.on_tx(self, rec)
        targets = self.neighbours(station.idx) if to is None else [t for t in to if t != station.idx]
        lo, hi = self.cfg.get("latency_us", [100, 2000])
        for r in targets:
            u = keyed_unit(self.net_seed, "lat", station.idx, n, r)
            lat = lo + int(u * (hi - lo + 1))
            if self.rates.get("drop", 0) and keyed_unit(self.net_seed, "drop", station.idx, n, r) < self.rates["drop"]:
                self.fault("drop")
                continue
            if self.rates.get("delay", 0) and keyed_unit(self.net_seed, "delay", station.idx, n, r) < self.rates["delay"]:
                self.fault("delay")
                lat += int(keyed_unit(self.net_seed, "delay2", station.idx, n, r) ** 3 * self.cfg.get("delay_max_us", 200_000))
            self._schedule_delivery(station.idx, r, frame, txi, lat, None)
            if self.rates.get("dup", 0) and keyed_unit(self.net_seed, "dup", station.idx, n, r) < self.rates["dup"]:
                self.fault("dup")
                extra = int(keyed_unit(self.net_seed, "dup2", station.idx, n, r) * self.cfg.get("dup_max_us", 50_000))
                self._schedule_delivery(station.idx, r, frame, txi, lat + 1 + extra, "dup")
        return txi

    def _schedule_delivery(self, s: int, r: int, frame: bytes, txi: int, lat: int, fault: Optional[str]) -> None:
        k = self.kernel
        t = k.now_us + lat
        if self.fifo and fault is None:
            last = self._last_delivery.get((s, r), 0)
            if t <= last:
                t = last + 1
            self._last_delivery[(s, r)] = t
        k.call_at(t, self._deliver, r, frame, txi, fault, station=r, kind="rx", cause=("rx", len(self.hist.rx)))

    def _deliver(self, r: int, frame: bytes, txi: int, fault: Optional[str]) -> None:
        k = self.kernel
        st = self.stations[r]
        rxi = len(self.hist.rx)
        k.current_cause = ("rx", rxi)
        rec = {"i": rxi, "t": k.now_us, "ev": k.events_run, "st": r, "frame": frame, "tx": txi, "fault": fault, "exc": None,
               "gen": st.gen}
        self.hist.rx.append(rec)
        k.record("rx", r, frame, fault)
        if st.role != "stack":
            return
        for m in self.monitors:
            m.before_rx(self, rec)
        try:
            st.gn.gn_data_indicate(frame)
        except Exception as e:  # what a link-layer receive loop would see
            rec["exc"] = e
            self.probe("rx-exception:" + type(e).__name__)
        for m in self.monitors:
            m.after_rx(self, rec)

    # ------------------------------------------------------------------ ops
    def _resolve_pkt(self, pkt: dict) -> dict:
        """JSON packet description -> refcodec dict (hex -> bytes, tst offsets -> tst)."""
        now_ms = self.kernel.now_us // 1000

        def pv(d):
            o = dict(d)
            o["addr"] = bytes.fromhex(d["addr"])
            if "tst" not in o:
                o["tst"] = rc.tst_from_unix_ms(now_ms + d.get("tst_off_ms", 0))
            return o
        p = {"basic": dict(pkt["basic"]), "common": dict(pkt["common"]), "so": pv(pkt["so"])}
        for kx in ("sn", "ext_reserved"):
            if kx in pkt:
                p[kx] = pkt[kx]
        if "de" in pkt:
            p["de"] = pv(pkt["de"])
        if "area" in pkt:
            p["area"] = dict(pkt["area"])
        if "req_addr" in pkt:
            p["req_addr"] = bytes.fromhex(pkt["req_addr"])
        p["payload"] = bytes.fromhex(pkt.get("payload", ""))
        if "media" in pkt:
            p["media"] = bytes.fromhex(pkt["media"])
        return p

    def make_btp_request(self, st: Station, op: dict) -> BTPDataRequest:
        typ = op["type"]
        area = Area()
        if typ == "shb":
            ptt = PacketTransportType(header_type=HeaderType.TSB, header_subtype=TopoBroadcastHST.SINGLE_HOP)
        elif typ == "gbc":
            ptt = PacketTransportType(header_type=HeaderType.GEOBROADCAST, header_subtype=SHAPES_GBC[op["area"]["shape"]])
        elif typ == "gac":
            ptt = PacketTransportType(header_type=HeaderType.GEOANYCAST, header_subtype=SHAPES_GAC[op["area"]["shape"]])
        elif typ == "guc":
            ptt = PacketTransportType(header_type=HeaderType.GEOUNICAST, header_subtype=gnsap_unspecified())
        else:
            raise HarnessError("bad type " + typ)
        if "area" in op and op["area"] is not None:
            a = op["area"]
            area = Area(latitude=a["lat"], longitude=a["lon"], a=a["a"], b=a["b"], angle=a["angle"])
        tc = op.get("tc", 0)
        kw = dict(
            btp_type=CommonNH.BTP_A if op.get("btp", "b") == "a" else CommonNH.BTP_B,
            source_port=op.get("sport", 0),
            destination_port=op["dport"],
            destination_port_info=op.get("dpinfo", 0),
            gn_packet_transport_type=ptt,
            gn_area=area,
            gn_max_hop_limit=op.get("hl", 1),
            gn_max_packet_lifetime=op.get("lt"),
            traffic_class=TrafficClass(scf=bool(tc & 0x80), channel_offload=bool(tc & 0x40), tc_id=tc & 0x3F),
            data=bytes.fromhex(op.get("payload", "")),
            length=len(op.get("payload", "")) // 2,
        )
        if typ == "guc":
            kw["gn_destination_address"] = self.stations[op["dest"]].gn_address() if isinstance(op["dest"], int) \
                else GNAddress(m=M(0), st=ST(op["dest"].get("st", 5)), mid=MID(bytes.fromhex(op["dest"]["mac"])))
        prof = op.get("profile")
        if prof:
            kw["security_profile"] = SecurityProfile[prof]
            kw["its_aid"] = op.get("its_aid", 0)
        return BTPDataRequest(**kw)

    def _run_op(self, idx: int, op: dict) -> None:
        k = self.kernel
        rec = {"idx": idx, "t": k.now_us, "ev": k.events_run, "op": op, "result": None, "exc": None, "skipped": False}
        self.hist.ops.append(rec)
        kind = op["op"]
        k.record("op", idx, kind)
        k.current_cause = ("op", idx)
        if "st" in op:
            if op["st"] >= len(self.stations):
                rec["skipped"] = True
                return
            st = self.stations[op["st"]]
            k.current_station = st.idx
        if kind == "req":
            if st.role != "stack" or (op["type"] == "guc" and isinstance(op["dest"], int) and op["dest"] >= len(self.stations)):
                rec["skipped"] = True
                return
            rec["ego_before"] = st.ego()
            rec["sn_before"] = st.gn.sequence_number
            rec["tx_from"] = len(self.hist.tx)
            try:
                req = self.make_btp_request(st, op)
                rec["result"] = st.btp.btp_data_request(req)
            except Exception as e:
                rec["exc"] = e
            rec["tx_to"] = len(self.hist.tx)
        elif kind == "gnss":
            st.gnss(op["lat"], op["lon"], op.get("speed", 0.0), op.get("track", 0.0))
        elif kind == "inject":
            frm = self.stations[op["frm"]] if op.get("frm") is not None and op["frm"] < len(self.stations) else None
            if frm is None:
                rec["skipped"] = True
                return
            frame = bytes.fromhex(op["frame"]) if "frame" in op else rc.build_packet(self._resolve_pkt(op["pkt"]))
            rec["frame"] = frame
            to = op.get("to")
            self.fault("inject")
            rec["tx"] = self.transmit(frm, frame, injected=True, to=to)
        elif kind == "replay":
            cands = [t for t in self.hist.tx if t["i"] == op["tx"]]
            if not cands or op["to"] >= len(self.stations):
                rec["skipped"] = True
                return
            self.fault("replay")
            self._schedule_delivery(cands[0]["st"], op["to"], cands[0]["frame"], cands[0]["i"],
                                    op.get("lat_us", 100), "replay")
        elif kind == "restart":
            self.fault("restart")
            st.build()
        elif kind == "link":
            if max(op["a"], op["b"]) < len(self.stations):
                self.fault("partition" if not op["up"] else "heal")
                self.set_link(op["a"], op["b"], op["up"])
        elif kind == "clock":
            self.fault("clock_jump")
            k.offsets_us[st.idx] = k.offsets_us.get(st.idx, 0) + op["jump_ms"] * 1000
        elif kind == "send_error":
            if st.link is not None:
                st.link.fail_next.append(op.get("kind", "sending"))
        elif kind == "noop":
            pass
        else:
            self.custom_op(idx, op, rec)
        for m in self.monitors:
            m.after_op(self, rec)

    def custom_op(self, idx: int, op: dict, rec: dict) -> None:
        raise HarnessError("unknown op " + op["op"])

    # ------------------------------------------------------------------ run
    def run(self) -> None:
        cfg = self.cfg
        k = self.kernel
        with self.patches as p:
            p.mute_stdout()
            patch_core(p, k, self.net_seed)
            self.extra_patches(p)
            try:
                for i, spec in enumerate(self.plan["stations"]):
                    if spec.get("clock_offset_ms"):
                        k.offsets_us[i] = spec["clock_offset_ms"] * 1000
                        self.fault("clock_skew")
                    self.stations.append(Station(self, i, spec))
                topo = cfg.get("topology", "mesh")
                n = len(self.stations)
                if topo == "mesh":
                    for a in range(n):
                        for b in range(a + 1, n):
                            self.set_link(a, b, True)
                elif topo == "line":
                    for a in range(n - 1):
                        self.set_link(a, a + 1, True)
                elif topo == "ring":
                    for a in range(n):
                        if n > 1:
                            self.set_link(a, (a + 1) % n, True)
                else:
                    for a, b in topo:
                        if max(a, b) < n:
                            self.set_link(a, b, True)
                for m in self.monitors:
                    m.on_start(self)
                for idx, op in enumerate(self.plan["ops"]):
                    k.call_at(k.t0_us + op.get("t", 0), self._run_op, idx, op, station=None, kind="op", cause=("op", idx))
                k.run(k.t0_us + cfg.get("run_limit_us", 30_000_000))
                for m in self.monitors:
                    m.on_end(self)
            finally:
                k.shutdown()


def gnsap_unspecified():
    from flexstack.geonet.service_access_point import HeaderSubType
    return HeaderSubType.UNSPECIFIED


class Monitor:
    def on_start(self, sim): pass
    def on_tx(self, sim, rec): pass
    def before_rx(self, sim, rec): pass
    def after_rx(self, sim, rec): pass
    def after_op(self, sim, rec): pass
    def on_end(self, sim): pass
