"""Secured multi-station ether: NetSim stations with real SignService / VerifyService sharing a deterministic PKI
(fsim/seccrypto.py).  Records every verification at every receiver and decodes every emitted secured packet."""
from __future__ import annotations

from . import refcodec as rc
from . import seccrypto as sc
from .netsim import Monitor
from .wiremon import ego_fields
from .props import c01


class SecNetSim(c01.C01Sim):
    def __init__(self, plan: dict):
        super().__init__(plan)
        self.security_factory = self._services
        cfg = plan["config"]
        n = sum(1 for s in plan["stations"] if s.get("secure"))
        self.n_tickets = n + cfg.get("extra_tickets", 0)
        self.pki = None
        self.verifs: list[dict] = []        # every VerifyService.verify call
        self.sectx: list[dict] = []         # every emitted secured packet, decoded independently
        self.h8_to_station: dict[bytes, int] = {}
        self.monitors.append(_SecTxMonitor())

    def make_pki(self):
        cfg = self.cfg
        psids = cfg.get("psid_sets")
        self.pki = sc.make_pki(("secnet", cfg.get("pki_seed", 0)), n_tickets=self.n_tickets,
                               psid_sets=psids, now=sc.its_s(cfg["t0_us"] // 1_000_000 - 3600))
        for s in self.plan["stations"]:
            if s.get("secure"):
                self.h8_to_station[sc.hashed_id8(self.pki.ticket_bytes[s["ticket"]])] = self.plan["stations"].index(s)

    def extra_patches(self, p):
        super().extra_patches(p)
        self.make_pki()

    def _services(self, sim, station):
        spec = station.spec
        sign, verify = self.pki.services_for(spec["ticket"], preload=spec.get("preload", []))
        orig = verify.verify
        me = self

        def recording_verify(request):
            rec = {"t": me.kernel.now_us, "ev": me.kernel.events_run, "st": station.idx, "gen": station.gen, "msg": bytes(request.message),
                   "report": None, "plain": None, "exc": None, "cause": me.kernel.current_cause}
            me.verifs.append(rec)
            try:
                conf = orig(request)
            except Exception as e:
                rec["exc"] = e
                raise
            rec["report"] = conf.report.name
            rec["plain"] = bytes(conf.plain_message) if getattr(conf, "plain_message", None) else None
            return conf
        verify.verify = recording_verify
        return sign, verify

    def make_mib_secure(self):
        pass


class _SecTxMonitor(Monitor):
    def on_tx(self, sim, rec):
        frame = rec["frame"]
        if len(frame) < 5 or (frame[0] & 0x0F) != rc.NH_SECURED:
            return
        m = sc.parse_signed_message(frame[4:])
        ego = None
        st = sim.stations[rec["st"]]
        if st.role == "stack":
            try:
                ego = ego_fields(st.ego())          # the sender's position vector at the instant of transmission (reference for the signed GN-PDU)
            except Exception:
                ego = None
        sim.sectx.append({"i": rec["i"], "t": rec["t"], "ev": rec["ev"], "st": rec["st"], "gen": rec["gen"], "msg": bytes(frame[4:]), "m": m,
                          "cause": rec["cause"], "injected": rec.get("injected", False), "ego": ego})
