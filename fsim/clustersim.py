"""`fac` engine, VRU clustering part.

Two execution modes share one oracle (`ClusterWatch`, public API of VBSClusteringManager only):

(a) `SingleSim`   one real VBSClusteringManager driven through its public API by a history over
                  {role on/off, try-create, initiate-join, cancel-join, confirm-join-failed, leave, break-up,
                   receive VAM (plain / cluster info / join / leave / break-up; from leader or others), update}
                  with a virtual `time_fn`; received VAMs are either what the real VAM decoder returns (built by the
                  harness, encoded and decoded by the real coder) or hand-built dictionaries.
(b) `ClusterNetSim` 2-4 real stations (GN+BTP on the simulated ether) each with real VAMTransmissionManagement,
                  VAMReceptionManagement and VBSClusteringManager wired as VRUAwarenessService wires them; VAMs travel
                  real coder -> BTP -> GN -> ether -> GN -> BTP -> reception -> peer's manager.  The harness plays the
                  VRU application: GNSS reports, `update()` once per report (knob), try-create / join-the-advertised-
                  cluster / leave / break-up commands.

Private attributes of the manager are never used for verdicts (only `_join_substate` as an optional probe).
"""
from __future__ import annotations

import logging
import time as _time_mod
from typing import Optional

from .kernel import Kernel, HarnessError
from .netsim import NetSim, Station
from .patching import Patches, RandomFacade

from flexstack.btp.service_access_point import BTPDataIndication
import flexstack.facilities.vru_awareness_service.vru_clustering as vc_mod
from flexstack.facilities.vru_awareness_service.vru_clustering import (
    VBSClusteringManager, VBSState, ClusterLeaveReason, ClusterBreakupReason,
)
from flexstack.facilities.vru_awareness_service import vam_constants as vconst
from flexstack.facilities.vru_awareness_service.vam_coder import VAMCoder
from flexstack.facilities.vru_awareness_service.vam_transmission_management import (
    VAMTransmissionManagement, DeviceDataProvider,
)
from flexstack.facilities.vru_awareness_service.vam_reception_management import VAMReceptionManagement

PROP = "C18"
logging.getLogger("vru_basic_service").addHandler(logging.NullHandler())     # keep WARNING records off stderr
GUARD_US = 1_000          # boundary guard: no verdict within 1 ms of a specified duration
_VAM_CODER: Optional[VAMCoder] = None

LEAVE_REASONS = [r.name for r in ClusterLeaveReason]
BREAKUP_REASONS = [r.name for r in ClusterBreakupReason]
CPM_REASON = "receptionOfCpmContainingCluster"


def vam_coder() -> VAMCoder:
    """One compiled VAM coder per worker process (compilation takes ~10 s)."""
    global _VAM_CODER
    if _VAM_CODER is None:
        _VAM_CODER = VAMCoder()
    return _VAM_CODER


class EdgeRandom(RandomFacade):
    """PRNG seam for `vru_clustering.random`: seeded, with `randint` biased to the ends of the range."""

    def randint(self, a, b):
        u = self._r.random()
        if u < 0.2:
            return a
        if u < 0.4:
            return b
        return self._r.randint(a, b)


# ----------------------------------------------------------------------------- VAM construction (harness side)
def valid_cluster_id(v) -> bool:
    """ClusterId ::= INTEGER (0..255)"""
    return isinstance(v, int) and not isinstance(v, bool) and 0 <= v <= 255


def build_vam(spec: dict, decoded: bool) -> dict:
    """VAM dict from a JSON spec.  decoded=True: exactly what the real decoder returns for the encoded message;
    decoded=False: a hand-built dictionary in the style of the repository's unit tests."""
    # the UPER coder does not range-check: an identifier outside 0..255 would be written as garbage and the harness's own decode
    # below would fail.  Traffic built by the harness must be valid - a value outside the range here is a harness error by name.
    for part in ("cluster", "join", "leave"):
        v = (spec.get(part) or {}).get("id")
        if v is not None and not valid_cluster_id(v):
            raise HarnessError(f"build_vam: {part} cluster id {v!r} outside 0..255 (harness traffic must be encodable)")
    vam = {
        "header": {"protocolVersion": 3, "messageId": 16, "stationId": spec["sid"]},
        "vam": {"generationDeltaTime": spec.get("gdt", 0), "vamParameters": {
            "basicContainer": {"stationType": spec.get("stype", 1), "referencePosition": {
                "latitude": spec["lat"], "longitude": spec["lon"],
                "positionConfidenceEllipse": {"semiMajorAxisLength": 4095, "semiMinorAxisLength": 4095,
                                              "semiMajorAxisOrientation": 3601},
                "altitude": {"altitudeValue": 800001, "altitudeConfidence": "unavailable"}}},
            "vruHighFrequencyContainer": {
                "heading": {"value": spec.get("heading", 3601), "confidence": 127},
                "speed": {"speedValue": spec.get("speed", 100), "speedConfidence": 127},
                "longitudinalAcceleration": {"longitudinalAccelerationValue": 161, "longitudinalAccelerationConfidence": 102}},
        }},
    }
    params = vam["vam"]["vamParameters"]
    if spec.get("cluster") is not None:
        c = spec["cluster"]
        info = {"clusterCardinalitySize": c.get("card", 1)}
        if c.get("id") is not None:
            info["clusterId"] = c["id"]
        if c.get("radius") is not None:
            info["clusterBoundingBoxShape"] = ("circular", {"radius": c["radius"]}) if decoded else {"circular": {"radius": c["radius"]}}
        if c.get("profiles") is not None:
            info["clusterProfiles"] = (bytes([c["profiles"]]), 4) if decoded else bytes([c["profiles"]])
        params["vruClusterInformationContainer"] = {"vruClusterInformation": info}
    op = {}
    if spec.get("join") is not None:
        op["clusterJoinInfo"] = {"clusterId": spec["join"]["id"], "joinTime": spec["join"].get("time", 12)}
    if spec.get("leave") is not None:
        op["clusterLeaveInfo"] = {"clusterId": spec["leave"]["id"], "clusterLeaveReason": spec["leave"].get("reason", "notProvided")}
    if spec.get("breakup") is not None:
        op["clusterBreakupInfo"] = {"clusterBreakupReason": spec["breakup"].get("reason", "notProvided"),
                                    "breakupTime": spec["breakup"].get("time", 12)}
    if op:
        params["vruClusterOperationContainer"] = op
    if spec.get("lf"):
        params["vruLowFrequencyContainer"] = {"profileAndSubprofile": ("pedestrian", "unavailable")}
    if decoded:
        coder = vam_coder()
        vam = coder.decode(coder.encode(vam))
        vam["utc_timestamp"] = spec.get("utc", 0)
    return vam


class RecordingLdmAdapter:
    """Stand-in for VRUBasicServiceLDM (swarm knob `ldm`): the reception / transmission management hand every VAM to it."""

    def __init__(self):
        self.added = 0

    def add_provider_data_to_ldm(self, vam: dict) -> None:
        self.added += 1


def _quiet(fn):
    try:
        return fn()
    except Exception:
        return None


def bad_delta_time(opc) -> Optional[str]:
    """DeltaTimeQuarterSecond is INTEGER (1..255): name the operation-container field that is outside."""
    if isinstance(opc, dict):
        for ctr, fld in (("clusterJoinInfo", "joinTime"), ("clusterBreakupInfo", "breakupTime")):
            v = opc.get(ctr, {}).get(fld) if isinstance(opc.get(ctr), dict) else None
            if v is not None and not 1 <= v <= 255:
                return f"{fld}={v}"
    return None


def cluster_fields(vam: dict) -> dict:
    """Oracle-side view of a received/emitted VAM (tolerant of both dictionary styles)."""
    out = {"sid": None, "cid": None, "has_info": False, "bbox": False, "join": None, "leave": None, "breakup": None}
    try:
        out["sid"] = vam["header"]["stationId"]
        params = vam["vam"]["vamParameters"]
    except (KeyError, TypeError):
        return out
    info = params.get("vruClusterInformationContainer")
    if info:
        vci = info.get("vruClusterInformation", {})
        out["has_info"] = True
        out["cid"] = vci.get("clusterId", 0)
        out["card"] = vci.get("clusterCardinalitySize")
        out["bbox"] = vci.get("clusterBoundingBoxShape") is not None
    opc = params.get("vruClusterOperationContainer")
    if opc:
        out["join"] = opc.get("clusterJoinInfo")
        out["leave"] = opc.get("clusterLeaveInfo")
        out["breakup"] = opc.get("clusterBreakupInfo")
    return out


# ----------------------------------------------------------------------------- oracle
class Obs:
    __slots__ = ("state", "tx", "cid", "info", "opc", "ok")


class ClusterWatch:
    """Drives one VBSClusteringManager through its public API and judges it after every event.

    `sim` needs: kernel (now_us), violate(prop, rule, key, detail), probe(name)."""

    def __init__(self, sim, mgr: VBSClusteringManager, name: str):
        self.sim = sim
        self.mgr = mgr
        self.name = name
        self.join: Optional[dict] = None          # {"c", "t0", "phase": notify|waiting|uncertain, "tw"}
        self.notifs: list[dict] = []
        self.passive: Optional[dict] = None       # {"cid", "leader", "since", "last_heard"}
        self.was_passive = False
        self.join_quiet = True
        self.join_last_t = 0
        self.pending_breakup: Optional[dict] = None
        self.fired: set = set()
        self.fired_aspects: set = set()
        self.trace: list = []
        self.prev = self.observe("init")
        self.ever_passive = False
        self.joined_at: list = []
        self.stats = {"leader_lost": 0, "breakup_rx": 0, "join_done": 0}

    # -- plumbing
    def now(self) -> int:
        return self.sim.kernel.now_us

    def violate(self, rule: str, key: str, detail: str) -> None:
        if (rule, key) in self.fired:
            return
        self.fired.add((rule, key))
        self.sim.violate(PROP, rule, key, f"{self.name} at +{(self.now() - self.sim.kernel.t0_us) / 1e6:.3f} s: {detail}")

    def _api(self, ctx: str, fn, *args):
        try:
            return True, fn(*args)
        except Exception as e:  # code under test raised through its public API
            self.violate("api-raised", f"{ctx}/{type(e).__name__}", f"{ctx} raised {type(e).__name__}: {str(e)[:160]}")
            return False, None

    def observe(self, ctx: str) -> Obs:
        m = self.mgr
        o = Obs()
        ok1, o.state = self._api("state", lambda: m.state)
        ok2, o.tx = self._api("should_transmit_vam", m.should_transmit_vam)
        ok3, o.cid = self._api("get_cluster_id", m.get_cluster_id)
        ok4, o.info = self._api("get_cluster_information_container", m.get_cluster_information_container)
        ok5, o.opc = self._api("get_cluster_operation_container", m.get_cluster_operation_container)
        o.ok = ok1 and ok2 and ok3 and ok4 and ok5
        return o

    # -- events
    def call(self, method: str, *args):
        """Public API command issued by the application."""
        m = self.mgr
        t = self.now()
        prev = self.prev
        fn = {"role_on": m.set_vru_role_on, "role_off": m.set_vru_role_off, "try_create": m.try_create_cluster,
              "join": m.initiate_join, "cancel_join": m.cancel_join, "join_failed": m.confirm_join_failed,
              "leave": m.trigger_leave_cluster, "breakup": m.trigger_breakup_cluster, "update": m.update}[method]
        ok, res = self._api(method, fn, *args)
        ev = {"kind": method, "args": args, "res": res, "ok": ok, "t": t}
        self._after(ev, prev)
        return res

    def rx(self, vam: dict, deliver=None, variant: str = ""):
        """A received VAM handed to the manager (deliver defaults to on_received_vam)."""
        prev = self.prev
        f = cluster_fields(vam)
        ok, _ = self._api("on_received_vam", deliver or self.mgr.on_received_vam, vam)
        kind = "rx-" + ("breakup" if f["breakup"] else "cluster" if f["has_info"] else "join" if f["join"] else
                        "leave" if f["leave"] else "plain")
        ev = {"kind": kind, "f": f, "ok": ok, "t": self.now(), "variant": variant}
        self._after(ev, prev)

    # -- the judgement
    def _after(self, ev: dict, prev: Obs) -> None:
        t = ev["t"]
        kind = ev["kind"]
        o = self.observe(kind)
        self.prev = o
        if not o.ok or not prev.ok:
            self.trace.append((kind, "api-raised"))
            return
        S = VBSState
        ctx = kind + (("/" + ev["variant"]) if ev.get("variant") else "")
        # ---------------- model bookkeeping driven by the event
        if kind == "role_off":
            self.join = None
            self.notifs = []
            self.passive = None
            self.pending_breakup = None
        elif kind == "try_create":
            if ev["res"] is True and o.cid in (1, 255):
                self.sim.probe("cluster-id-edge")
            if ev["res"] is True and self.join is not None:
                self.join["phase"] = "uncertain"          # join suspended by becoming leader (not specified)
        elif kind == "join":
            if ev["res"] is True:
                c = ev["args"][0]
                self.join = {"c": c, "t0": t, "phase": "notify", "tw": None}
                self._expect("join-notification", t, vconst.TIME_CLUSTER_JOIN_NOTIFICATION,
                             lambda opc, c=c: bool(opc) and "clusterJoinInfo" in opc and opc["clusterJoinInfo"].get("clusterId") == c,
                             S.VRU_ACTIVE_STANDALONE, f"clusterJoinInfo(clusterId={c})")
            elif ev["ok"] and prev.state is S.VRU_ACTIVE_STANDALONE and o.state is S.VRU_ACTIVE_STANDALONE and self.join is None and \
                    self.join_quiet and \
                    not any(e["what"] in ("cancelled-join-leave-notification", "failed-join-leave-notification") for e in self.notifs):
                # stand-alone, no join procedure in progress (none started, or the last one completed / was cancelled and its
                # notification is over): the state machine is consistent only if a new join can be initiated
                self.violate("join-refused", "standalone/no-join-in-progress" + ("/after-membership" if self.was_passive else ""),
                             f"initiate_join({ev['args'][0]}) returned {ev['res']!r} although the station is stand-alone and no join procedure is in progress")
            else:
                self.sim.probe("join-refused-legitimately")
        elif kind in ("cancel_join", "leave") and prev.state is S.VRU_ACTIVE_STANDALONE:
            j = self.join
            if j is not None and (j["phase"] == "notify" or (kind == "cancel_join" and j["phase"] == "waiting")):
                self._end("join-notification")
                self._expect("cancelled-join-leave-notification", t, vconst.TIME_CLUSTER_LEAVE_NOTIFICATION,
                             self._leave_match(j["c"], "cancelledJoin"), S.VRU_ACTIVE_STANDALONE,
                             f"clusterLeaveInfo(clusterId={j['c']}, cancelledJoin)")
                self.join = None
            elif j is not None and j["phase"] == "uncertain" and kind == "cancel_join":
                self._end("join-notification")
                self.join = None
        elif kind == "leave" and prev.state is S.VRU_PASSIVE:
            reason = ev["args"][0].value if ev["args"] else "notProvided"
            if o.state is S.VRU_ACTIVE_STANDALONE and self.passive is not None:
                self._expect("leave-notification", t, vconst.TIME_CLUSTER_LEAVE_NOTIFICATION,
                             self._leave_match(self.passive["cid"], reason), S.VRU_ACTIVE_STANDALONE,
                             f"clusterLeaveInfo(clusterId={self.passive['cid']}, {reason})")
            self.passive = None
            self.pending_breakup = None
        elif kind == "join_failed":
            j = self.join
            if j is not None and j["phase"] == "waiting" and prev.state is S.VRU_ACTIVE_STANDALONE:
                self._expect("failed-join-leave-notification", t, vconst.TIME_CLUSTER_LEAVE_NOTIFICATION,
                             self._leave_match(j["c"], "failedJoin"), S.VRU_ACTIVE_STANDALONE,
                             f"clusterLeaveInfo(clusterId={j['c']}, failedJoin)")
                self.join = None
            # an uncertain join is kept: confirm_join_failed() only acts on a join that waits for its leader
        elif kind == "breakup":
            if ev["res"] is True:
                reason = ev["args"][0].value if ev["args"] else "notProvided"
                self._expect("breakup-warning", t, vconst.TIME_CLUSTER_BREAKUP_WARNING,
                             lambda opc, reason=reason: bool(opc) and "clusterBreakupInfo" in opc
                             and opc["clusterBreakupInfo"].get("clusterBreakupReason") == reason,
                             S.VRU_ACTIVE_CLUSTER_LEADER, f"clusterBreakupInfo({reason})")
        elif kind == "update":
            self._on_update(t, prev, o)
        elif kind.startswith("rx-"):
            self._on_rx(ev, prev, o)
        # ---------------- state became PASSIVE: only through a completed join
        if o.state is S.VRU_PASSIVE and prev.state is not S.VRU_PASSIVE:
            j = self.join
            if kind.startswith("rx-") and j is not None and j["phase"] in ("waiting", "uncertain") and o.cid == j["c"]:
                self.passive = {"cid": o.cid, "leader": ev["f"]["sid"], "since": t, "last_heard": t}
                self.ever_passive = True
                self.joined_at.append((t, o.cid))
                self.stats["join_done"] += 1
                self.sim.probe("join-completed")
                self._end("join-notification")
                self.join = None
            else:
                self._inv("passive-invariant", kind, "passive-without-completed-join",
                             f"state became VRU_PASSIVE (cluster id {o.cid}) after {kind} although no join towards that cluster "
                             f"was waiting for its leader (model: {self._join_txt()})")
                self.passive = {"cid": o.cid, "leader": ev.get("f", {}).get("sid"), "since": t, "last_heard": t}
                self.join = None
        if o.state is not S.VRU_PASSIVE and prev.state is S.VRU_PASSIVE:
            self.was_passive = True
            if self.passive is not None and kind in ("update", "rx-breakup", "rx-cluster", "rx-plain", "rx-join", "rx-leave") \
                    and o.state is S.VRU_ACTIVE_STANDALONE:
                # left on its own (leader lost / disbanded): a leave notification for that cluster is due
                cid = self.passive["cid"]
                li = o.opc.get("clusterLeaveInfo") if isinstance(o.opc, dict) else None
                reasons = (li.get("clusterLeaveReason"),) if (li and li.get("clusterId") == cid) else ("clusterLeaderLost", "clusterDisbandedByLeader")
                self._expect("leave-notification", t, vconst.TIME_CLUSTER_LEAVE_NOTIFICATION,
                             lambda opc, cid=cid, reasons=reasons: bool(opc) and "clusterLeaveInfo" in opc
                             and opc["clusterLeaveInfo"].get("clusterId") == cid and opc["clusterLeaveInfo"].get("clusterLeaveReason") in reasons,
                             S.VRU_ACTIVE_STANDALONE, f"clusterLeaveInfo(clusterId={cid}, {'/'.join(str(x) for x in reasons)})")
                if kind == "update" and t - self.passive["last_heard"] < vconst.TIME_CLUSTER_CONTINUITY * 1e6 - GUARD_US:
                    self.sim.probe("left-although-leader-heard-recently")
            self.passive = None
            self.pending_breakup = None
        # ---------------- "no join procedure can be in progress any more" (for the join-refused rule): the sub-states only advance
        #                  inside update(), so an update later than the longest notification after the last join activity is required
        if kind in ("join", "cancel_join", "join_failed", "leave", "try_create", "breakup") or self.join is not None \
                or (kind.startswith("rx-") and prev.state is not o.state):
            self.join_last_t = t
            self.join_quiet = False
        elif kind == "role_off":
            self.join_quiet = True
        elif kind == "update" and t - self.join_last_t > int((vconst.TIME_CLUSTER_LEAVE_NOTIFICATION + 0.2) * 1e6):
            self.join_quiet = True
        # ---------------- invariants (public API)
        self._invariants(ctx, o)
        self._notifications(ctx, kind, t, o)
        self.trace.append((kind, o.state.name[4:] if o.state else "?", "tx" if o.tx else "silent",
                           "J" if self.join else "-", len(self.notifs)))

    def _join_txt(self) -> str:
        return "none" if self.join is None else f"cluster {self.join['c']} in phase {self.join['phase']}"

    def _on_update(self, t: int, prev: Obs, o: Obs) -> None:
        S = VBSState
        # leader lost
        if prev.state is S.VRU_PASSIVE and self.passive is not None:
            silent = t - self.passive["last_heard"]
            limit = int(vconst.TIME_CLUSTER_CONTINUITY * 1e6)
            if silent >= limit + GUARD_US:
                self.sim.probe("leader-lost")
                self.stats["leader_lost"] += 1
                if not (o.state is S.VRU_ACTIVE_STANDALONE and o.tx):
                    self.violate("leader-lost-not-recovered", "update",
                                 f"leader (station {self.passive['leader']}) silent for {silent / 1e6:.3f} s >= timeClusterContinuity, "
                                 f"after update() state={o.state.name} should_transmit_vam={o.tx}")
            if self.pending_breakup is not None:
                if not (o.state is S.VRU_ACTIVE_STANDALONE and o.tx):
                    self.violate("breakup-not-recovered", "update/" + self.pending_breakup["variant"],
                                 f"leader (station {self.passive['leader']}) announced break-up ({self.pending_breakup['reason']}) "
                                 f"{(t - self.pending_breakup['t']) / 1e6:.3f} s ago, after update() state={o.state.name} "
                                 f"should_transmit_vam={o.tx}")
                self.pending_breakup = None
        # join phases (only meaningful while stand-alone)
        j = self.join
        if j is not None and prev.state is S.VRU_ACTIVE_STANDALONE:
            if j["phase"] == "notify":
                d = t - j["t0"] - int(vconst.TIME_CLUSTER_JOIN_NOTIFICATION * 1e6)
                if d >= GUARD_US:
                    j["phase"], j["tw"] = "waiting", t
                elif d > -GUARD_US:
                    j["phase"] = "uncertain"
                    self.sim.probe("boundary-exact")
            elif j["phase"] == "waiting":
                d = t - j["tw"] - int(vconst.TIME_CLUSTER_JOIN_SUCCESS * 1e6)
                if d >= GUARD_US:
                    self.sim.probe("join-failed-timeout")
                    self._expect("failed-join-leave-notification", t, vconst.TIME_CLUSTER_LEAVE_NOTIFICATION,
                                 self._leave_match(j["c"], "failedJoin"), S.VRU_ACTIVE_STANDALONE,
                                 f"clusterLeaveInfo(clusterId={j['c']}, failedJoin)")
                    self.join = None
                elif d > -GUARD_US:
                    j["phase"] = "uncertain"
                    self.sim.probe("boundary-exact")
        # notifications that must be over by now
        for e in self.notifs:
            if t >= e["t0"] + e["dur"] + GUARD_US:
                e["over"] = True

    def _on_rx(self, ev: dict, prev: Obs, o: Obs) -> None:
        S = VBSState
        f = ev["f"]
        t = ev["t"]
        if prev.state is S.VRU_PASSIVE and self.passive is not None and f["sid"] == self.passive["leader"]:
            self.passive["last_heard"] = t
            if f["breakup"]:
                reason = f["breakup"].get("clusterBreakupReason", "notProvided")
                self.sim.probe("breakup-received-from-leader")
                self.stats["breakup_rx"] += 1
                if reason == CPM_REASON:
                    self.sim.probe("breakup-cpm-reason-relaxed")
                else:
                    self.pending_breakup = {"t": t, "reason": reason,
                                            "variant": ("bbox" if f["bbox"] else "no-bbox") + ("/" + ev["variant"] if ev["variant"] else "")}
        j = self.join
        if j is not None and j["phase"] == "waiting" and prev.state is S.VRU_ACTIVE_STANDALONE and f["has_info"] and f["cid"] == j["c"]:
            if f["breakup"]:
                # admitted and disbanded by the same VAM: either outcome is accepted
                self.sim.probe("cluster-vam-with-breakup-while-waiting")
                if o.state is not S.VRU_PASSIVE:
                    li = (o.opc or {}).get("clusterLeaveInfo") if isinstance(o.opc, dict) else None
                    if li and li.get("clusterId") == j["c"] and li.get("clusterLeaveReason") != "failedJoin":
                        self._end("join-notification")
                        self._expect("leave-notification", t, vconst.TIME_CLUSTER_LEAVE_NOTIFICATION,
                                     lambda opc, cid=j["c"]: bool(opc) and "clusterLeaveInfo" in opc and opc["clusterLeaveInfo"].get("clusterId") == cid,
                                     S.VRU_ACTIVE_STANDALONE, f"clusterLeaveInfo(clusterId={j['c']})")
                        self.join = None
                    else:
                        j["phase"] = "uncertain"
            elif o.state is not S.VRU_PASSIVE:
                self.violate("join-not-completed", ("bbox" if f["bbox"] else "no-bbox") + ("/" + ev["variant"] if ev["variant"] else ""),
                             f"waiting for the leader of cluster {j['c']} since {(t - j['tw']) / 1e6:.3f} s; a cluster VAM of station {f['sid']} "
                             f"advertising cluster {f['cid']} (bounding box {'present' if f['bbox'] else 'absent'}) was received, state stays "
                             f"{o.state.name}")

    # -- notifications
    def _leave_match(self, cid, reason):
        return lambda opc: bool(opc) and "clusterLeaveInfo" in opc and opc["clusterLeaveInfo"].get("clusterId") == cid \
            and opc["clusterLeaveInfo"].get("clusterLeaveReason") == reason

    def _expect(self, what: str, t0: int, dur_s: float, match, state, txt: str) -> None:
        self.notifs = [e for e in self.notifs if e["what"] != what]         # superseded
        self.notifs.append({"what": what, "t0": t0, "dur": int(dur_s * 1e6), "match": match, "state": state, "txt": txt,
                            "over": False, "seen": False})

    def _end(self, what: str) -> None:
        self.notifs = [e for e in self.notifs if e["what"] != what]

    def _notifications(self, ctx: str, kind: str, t: int, o: Obs) -> None:
        keep = []
        for e in self.notifs:
            try:
                visible = bool(e["match"](o.opc))
            except Exception:
                visible = False
            age = t - e["t0"]
            if visible:
                e["seen"] = True
                if e["over"]:
                    self.violate("notification-duration",
                                 "too-long/resumed-after-other-state" if e.get("hidden") else f"{e['what']}/too-long",
                                 f"{e['txt']} started {age / 1e6:.3f} s ago (specified {e['dur'] / 1e6:.1f} s) and update() has been called "
                                 f"after it expired, but after {kind} the operation container still carries it (state {o.state.name})")
                    continue
                keep.append(e)
            elif age <= e["dur"] - GUARD_US:
                if o.state is not e["state"]:
                    if e["what"] == "breakup-warning":
                        # only VRU_ROLE_OFF (which clears the expectations) may end a leader's warning phase early
                        self.violate("notification-duration", "breakup-warning/too-short",
                                     f"{e['txt']}: the cluster was disbanded (state {o.state.name} after {kind}) {age / 1e6:.3f} s after the warning "
                                     f"started (specified {e['dur'] / 1e6:.1f} s)")
                        continue
                    e["hidden"] = True
                    keep.append(e)                      # hidden by another state: not judged now
                elif o.opc:
                    self.sim.probe("notification-masked-by-other")
                    keep.append(e)
                else:
                    self.violate("notification-duration", f"{e['what']}/too-short",
                                 f"{e['txt']} is absent from the operation container {age / 1e6:.3f} s after it started, after {kind} "
                                 f"(specified {e['dur'] / 1e6:.1f} s; state {o.state.name})")
            elif o.state is not e["state"] and age < 120_000_000:
                e["hidden"] = True
                keep.append(e)                          # may still re-appear when the state is entered again
        self.notifs = keep

    def _inv(self, rule: str, ctx: str, aspect: str, detail: str) -> None:
        """One report per broken aspect and run; the key names the first event after which it was seen broken."""
        if (rule, aspect) in self.fired_aspects:
            return
        self.fired_aspects.add((rule, aspect))
        self.violate(rule, f"{ctx.split('/')[0]}/{aspect}", detail)

    def _invariants(self, ctx: str, o: Obs) -> None:
        S = VBSState
        info = None
        if o.info is not None:
            try:
                info = o.info["vruClusterInformation"]
            except Exception:
                info = {}
        if o.state is S.VRU_ACTIVE_CLUSTER_LEADER:
            cid = info.get("clusterId") if info is not None else None
            card = info.get("clusterCardinalitySize") if info is not None else None
            if info is None:
                self._inv("leader-invariant", ctx, "no-cluster", "state is VRU_ACTIVE_CLUSTER_LEADER but there is no cluster information container")
            elif not (isinstance(cid, int) and 1 <= cid <= 255) or o.cid != cid:
                self._inv("leader-invariant", ctx, "cluster-id", f"leader of a cluster with id {cid} (get_cluster_id() = {o.cid}); must be 1..255")
            elif not (isinstance(card, int) and card >= 1):
                self._inv("leader-invariant", ctx, "cardinality", f"leader of cluster {cid} reports cardinality {card}")
        else:
            if info is not None:
                self._inv("leader-invariant", ctx, "cluster-without-leader-state",
                          f"state {o.state.name} but a cluster information container is reported ({info})")
        if o.state is S.VRU_PASSIVE:
            if not isinstance(o.cid, int) or not 0 <= o.cid <= 255:
                self._inv("passive-invariant", ctx, "no-joined-cluster", f"state VRU_PASSIVE but get_cluster_id() = {o.cid}")
            elif self.passive is not None and o.cid != self.passive["cid"]:
                self._inv("passive-invariant", ctx, "joined-cluster-changed", f"passive member of cluster {self.passive['cid']} now reports cluster {o.cid}")
        elif o.state is not S.VRU_ACTIVE_CLUSTER_LEADER and o.cid is not None:
            self._inv("passive-invariant", ctx, "cluster-id-while-not-member", f"state {o.state.name} but get_cluster_id() = {o.cid}")
        if not o.tx and o.state in (S.VRU_ACTIVE_STANDALONE, S.VRU_ACTIVE_CLUSTER_LEADER):
            self._inv("suppressed-while-active", ctx, o.state.name[4:].lower(), f"should_transmit_vam() is False in state {o.state.name}")


# ----------------------------------------------------------------------------- (a) single manager
class SingleSim:
    def __init__(self, plan: dict):
        self.plan = plan
        self.cfg = plan["config"]
        self.kernel = Kernel(self.cfg.get("t0_us", 1_767_225_600_000_000))
        self.violations: list[dict] = []
        self.probes: dict[str, int] = {}
        self.faults: dict[str, int] = {}
        self.patches = Patches()
        self.watch: Optional[ClusterWatch] = None

    def probe(self, name: str, n: int = 1) -> None:
        self.probes[name] = self.probes.get(name, 0) + n

    def violate(self, prop: str, rule: str, key: str, detail: str) -> None:
        self.violations.append({"property": prop, "rule": rule, "key": key, "detail": detail,
                                "t_us": self.kernel.now_us - self.kernel.t0_us, "seq": self.kernel.log_lines})

    def run(self) -> None:
        k = self.kernel
        cfg = self.cfg
        with self.patches as p:
            p.mute_stdout()
            p.set(vc_mod, "random", EdgeRandom(cfg.get("prng_seed", 0)))
            try:
                mgr = VBSClusteringManager(own_station_id=cfg.get("own_id", 1000), own_vru_profile=cfg.get("profile", "pedestrian"),
                                           time_fn=k.time)
                w = self.watch = ClusterWatch(self, mgr, "manager")
                own = (cfg.get("lat", 413_870_000), cfg.get("lon", 21_120_000))
                for i, op in enumerate(self.plan["ops"]):
                    k.now_us += int(op.get("dt_ms", 0)) * 1000
                    kind = op["op"]
                    k.record("op", i, kind)
                    if kind == "rx":
                        self._rx(op, own)
                    elif kind == "try_create":
                        w.call("try_create", own[0] / 1e7, own[1] / 1e7)
                    elif kind == "join":
                        w.call("join", self._cid(op))
                    elif kind == "leave":
                        w.call("leave", ClusterLeaveReason[op.get("reason", "NOT_PROVIDED")])
                    elif kind == "breakup":
                        w.call("breakup", ClusterBreakupReason[op.get("reason", "NOT_PROVIDED")])
                    elif kind == "update":
                        w.call("update", own[0] / 1e7, own[1] / 1e7, op.get("speed", 1.0), op.get("heading", 0.0))
                    elif kind in ("role_on", "role_off", "cancel_join", "join_failed"):
                        w.call(kind)
                    else:
                        raise HarnessError("unknown op " + kind)
                    o = w.prev
                    k.record("obs", i, o.state.name if o.state else "?", o.tx, o.cid)
            finally:
                k.shutdown()

    def _cid(self, op: dict) -> int:
        ref = op.get("cid", 1)
        w = self.watch
        if ref == "target":
            v = w.join["c"] if w.join else op.get("alt", 1)
        elif ref == "joined":
            v = w.passive["cid"] if w.passive else op.get("alt", 1)
        elif ref == "own":
            v = w.prev.cid if (w.prev.ok and w.prev.state is VBSState.VRU_ACTIVE_CLUSTER_LEADER and w.prev.cid is not None) else op.get("alt", 1)
        else:
            return ref
        if not valid_cluster_id(v):
            # an identifier reported by the code under test that is no ClusterId (judged by the invariants): the harness does not
            # build traffic from it
            self.probe("dut-cluster-id-out-of-range")
            return op.get("alt", 1)
        return v

    def _rx(self, op: dict, own) -> None:
        w = self.watch
        sender = op.get("sender", 2)
        if sender == "leader":
            sender = w.passive["leader"] if (w.passive and w.passive["leader"] is not None) else op.get("alt_sender", 2)
        lat = own[0] + op.get("dlat", 0)
        lon = own[1] + op.get("dlon", 0)
        spec = {"sid": sender, "lat": lat, "lon": lon, "speed": op.get("speed", 100), "heading": op.get("heading", 0),
                "gdt": op.get("gdt", 0), "lf": op.get("lf", False)}
        what = op.get("what", "plain")
        cid = self._cid(op)
        if what in ("cluster", "breakup") or op.get("with_info"):
            spec["cluster"] = {"id": None if op.get("no_id") else cid, "card": op.get("card", 2), "radius": op.get("radius"),
                               "profiles": op.get("profiles")}
        if what == "join":
            spec["join"] = {"id": cid, "time": op.get("time", 12)}
        elif what == "leave":
            spec["leave"] = {"id": cid, "reason": ClusterLeaveReason[op.get("reason", "NOT_PROVIDED")].value}
        elif what == "breakup":
            spec["breakup"] = {"reason": ClusterBreakupReason[op.get("reason", "NOT_PROVIDED")].value, "time": op.get("time", 12)}
        decoded = bool(op.get("decoded", True))
        vam = build_vam(spec, decoded)
        self.kernel.record("rx", sender, what, cid, decoded)
        w.rx(vam, variant="decoded" if decoded else "hand-built")


# ----------------------------------------------------------------------------- (b) closed loop on the ether
class ClusterNetSim(NetSim):
    """Stations with the VRU awareness service parts wired as VRUAwarenessService wires them (ctor seam `time_fn`)."""

    def __init__(self, plan: dict):
        plan["config"].setdefault("max_events", 200_000)
        super().__init__(plan)
        self.fac: dict[int, dict] = {}
        self.vam_tx: list[dict] = []
        self.loc_errors: list[dict] = []
        self.reports: list[dict] = []

    def extra_patches(self, p: Patches) -> None:
        p.set(vc_mod, "random", EdgeRandom(self.cfg.get("prng_seed", 0)))
        # vam_transmission_management._attach_lf_container_if_due does `import time; time.time()`
        p.set(_time_mod, "time", self.kernel.time)

    def wire_facilities(self, station: Station) -> None:
        spec = station.spec
        k = self.kernel
        sim = self
        if not spec.get("vru", True):
            return
        coder = vam_coder()
        ddp = DeviceDataProvider(station_id=spec["station_id"], station_type=spec.get("stype", 1))
        mgr = VBSClusteringManager(own_station_id=spec["station_id"], own_vru_profile=spec.get("profile", "pedestrian"), time_fn=k.time)
        shim = self.cfg.get("shim", "none")
        if shim != "none":
            orig_info = mgr.get_cluster_information_container

            def info_shim():
                c = orig_info()
                if c is None:
                    return None
                vci = dict(c["vruClusterInformation"])
                bb = vci.get("clusterBoundingBoxShape")
                if shim in ("strip-bbox", "full"):
                    vci.pop("clusterBoundingBoxShape", None)
                elif shim == "fix-encode" and isinstance(bb, dict) and len(bb) == 1:
                    (name, val), = bb.items()
                    vci["clusterBoundingBoxShape"] = (name, val)
                if shim in ("fix-encode", "full") and isinstance(vci.get("clusterProfiles"), (bytes, bytearray)):
                    vci["clusterProfiles"] = (bytes(vci["clusterProfiles"]), 4)
                return {"vruClusterInformation": vci}
            mgr.get_cluster_information_container = info_shim
        watch = ClusterWatch(self, mgr, f"station {station.idx}")
        # -- recording wrapper around the BTP request primitive (emitted VAMs)
        orig_req = station.btp.btp_data_request

        def btp_data_request(request):
            if request.destination_port == 2018:
                sim.vam_tx.append({"t": k.now_us, "st": station.idx, "data": bytes(request.data), "state": watch.prev.state,
                                   "gen": station.gen, "opc": _quiet(mgr.get_cluster_operation_container),
                                   "info": _quiet(mgr.get_cluster_information_container), "mstate": _quiet(lambda: mgr.state)})
                k.record("vam-tx", station.idx, bytes(request.data))
            return orig_req(request)
        station.btp.btp_data_request = btp_data_request
        ldm = RecordingLdmAdapter() if self.cfg.get("ldm", "none") == "stub" else None     # VRUAwarenessService(ldm=...) is optional
        tx = VAMTransmissionManagement(btp_router=station.btp, vam_coder=coder, device_data_provider=ddp,
                                       vru_basic_service_ldm=ldm, clustering_manager=mgr)
        rx = VAMReceptionManagement(vam_coder=coder, btp_router=station.btp, vru_basic_service_ldm=ldm, clustering_manager=mgr)
        # -- the manager's reception entry point is observed (called by the real reception management)
        orig_on_rx = mgr.on_received_vam
        received: list[dict] = []

        def on_received_vam(vam):
            received.append({"t": k.now_us, "f": cluster_fields(vam)})
            watch.rx(vam, deliver=orig_on_rx, variant="decoded")
        mgr.on_received_vam = on_received_vam
        # -- what the station HEARS is observed below the facilities (BTP indication on port 2018, decoded by the harness): the manager
        #    must be given every VAM that is indicated there
        heard: list[dict] = []
        inner_cb = station.btp.pre_indication_callbacks.get(2018)

        def port_2018(indication):
            try:
                d = coder.decode(bytes(indication.data))
            except Exception:               # not a VAM: nothing the manager could be given
                d = None
            n0 = len(received)
            if d is not None:
                heard.append({"t": k.now_us, "f": cluster_fields(d), "delivered": False})
            try:
                return inner_cb(indication)
            finally:
                if d is not None:
                    heard[-1]["delivered"] = len(received) > n0
        if inner_cb is not None:
            station.btp.pre_indication_callbacks[2018] = port_2018
        # -- update() calls made by the service itself (location_service_callback) are observed like the application's
        orig_update = mgr.update
        in_watch = [False]

        def update(*a):
            if in_watch[0]:
                return orig_update(*a)
            in_watch[0] = True
            try:
                return watch.call("update", *a)
            finally:
                in_watch[0] = False
        mgr.update = update
        self.fac[station.idx] = {"mgr": mgr, "watch": watch, "tx": tx, "rx": rx, "received": received, "heard": heard, "gen": station.gen,
                                 "silent": False, "joins": [], "ldm": ldm, "breakups": []}

    def on_gnss(self, station: Station, tpv: dict) -> None:
        fac = self.fac.get(station.idx)
        if fac is None or fac["gen"] != station.gen or fac["silent"]:
            return
        k = self.kernel
        if self.cfg.get("app_calls_update", True):
            fac["watch"].call("update", tpv["lat"], tpv["lon"], tpv.get("speed", 0.0), tpv.get("track", 0.0))
        st_before = fac["watch"].prev.state
        rep = {"t": k.now_us, "st": station.idx, "state": st_before, "raised": False}
        self.reports.append(rep)
        try:
            fac["tx"].location_service_callback(tpv)
        except Exception as e:
            rep["raised"] = True
            self.loc_errors.append({"t": k.now_us, "st": station.idx, "exc": e, "state": st_before,
                                    "opc": _quiet(fac["mgr"].get_cluster_operation_container),
                                    "info": _quiet(fac["mgr"].get_cluster_information_container)})
        # what the manager reports once the callback is over (no virtual time passes inside it): the containers a VAM emitted by this
        # callback was built from
        o = fac["watch"].prev
        rep["after"] = {"state": o.state, "tx": o.tx, "opc": o.opc, "cid": o.cid} if o.ok else None

    def custom_op(self, idx: int, op: dict, rec: dict) -> None:
        kind = op["op"]
        st = self.stations[op["st"]]
        fac = self.fac.get(st.idx)
        if fac is None:
            rec["skipped"] = True
            return
        w: ClusterWatch = fac["watch"]
        lat, lon = st.pos[0] / 1e7, st.pos[1] / 1e7
        if kind == "cluster":
            call = op["call"]
            if call == "try_create":
                rec["result"] = w.call("try_create", lat, lon)
            elif call == "join_advertised":
                # the application joins a cluster it has seen advertised in a received VAM (most recent one)
                adv = [r for r in fac["heard"] if r["f"]["has_info"] and r["f"]["cid"] is not None
                       and r["t"] >= self.kernel.now_us - 2_000_000]
                if not adv:
                    rec["skipped"] = True
                    self.probe("join-skipped-nothing-advertised")
                    return
                a = adv[-1]["f"]
                res = w.call("join", a["cid"])
                rec["result"] = res
                if res is True:
                    fac["joins"].append({"t": self.kernel.now_us, "cid": a["cid"], "leader": a["sid"], "bbox": a["bbox"], "idx": idx})
            elif call == "join":
                rec["result"] = w.call("join", op["cid"])
            elif call == "leave":
                w.call("leave", ClusterLeaveReason[op.get("reason", "NOT_PROVIDED")])
            elif call == "breakup":
                cid_before = w.prev.cid if w.prev.ok and w.prev.state is VBSState.VRU_ACTIVE_CLUSTER_LEADER else None
                rec["result"] = w.call("breakup", ClusterBreakupReason[op.get("reason", "NOT_PROVIDED")])
                if rec["result"] is True and cid_before is not None:
                    # members at this instant (public API of their managers): they are owed the announcement
                    members = [i for i, f2 in sorted(self.fac.items()) if i != st.idx and f2["watch"].prev.ok
                               and f2["watch"].prev.state is VBSState.VRU_PASSIVE and f2["watch"].prev.cid == cid_before
                               and f2["watch"].passive is not None and f2["watch"].passive.get("leader") == st.spec["station_id"]]
                    fac["breakups"].append({"t": self.kernel.now_us, "idx": idx, "cid": cid_before, "members": members,
                                            "reason": ClusterBreakupReason[op.get("reason", "NOT_PROVIDED")].value})
            elif call == "update":
                w.call("update", lat, lon, 1.0, 0.0)
            elif call in ("role_on", "role_off", "cancel_join", "join_failed"):
                w.call(call)
            else:
                raise HarnessError("unknown cluster call " + call)
        elif kind == "silence":
            fac["silent"] = bool(op.get("on", True))       # the station's GNSS/application stops (device switched off)
        elif kind == "phantom_vam":
            # a further VRU in the vicinity: plain VAM, reference-encoded, handed to the reception callback as bytes
            spec = {"sid": op["sid"], "lat": st.pos[0] + op.get("dlat", 0), "lon": st.pos[1] + op.get("dlon", 0), "speed": 100}
            data = vam_coder().encode(build_vam(spec, decoded=False))
            cb = st.btp.indication_callbacks.get(2018) if st.btp.indication_callbacks is not None else None
            if cb is None:
                rec["skipped"] = True
                return
            try:
                cb(BTPDataIndication(destination_port=2018, length=len(data), data=data))
            except Exception as e:
                rec["exc"] = e
        else:
            raise HarnessError("unknown op " + kind)
