"""Store a confirmed seeded breakage under /verif/seeded/<id>/ (patch.diff, demo.py, NOTES.md, meta.json).
usage: seedstore.py <id> <PROP> <caught:yes|no|after-strengthening> "<needs>" "<detected-by rules>" """
import json, os, shutil, subprocess, sys
sid, prop, caught, needs, rules = sys.argv[1:6]
src = f"/tmp/seedout/{sid}"
dst = f"/verif/seeded/{sid}"
os.makedirs(dst, exist_ok=True)
for f in ("patch.diff", "demo.py", "NOTES.md"):
    shutil.copy(os.path.join(src, f), os.path.join(dst, f))
head = subprocess.run(["git", "-C", "/repo", "rev-parse", "--short", "HEAD"], capture_output=True, text=True).stdout.strip()
meta = {"id": sid, "property": prop, "breaks": open(os.path.join(src, "NOTES.md")).read().strip().split("\n\n")[0][:600],
        "needs_to_manifest": needs, "caught_by_check": caught, "violation_rules_reported": rules,
        "what_was_run": [f"tools/seedcheck.sh /tmp/seedout/{sid} {prop}  (scratch copy of /repo at {head}: demo on clean tree -> exit 0, patch applied, "
                         f"demo -> exit 1, pinned suite via tools/baseline.sh -> 930/930 stable_pass, FSIM_REPO_SRC=<scratch>/src ./run {prop} --tier quick -> exit 1)"],
        "author": "independent sub-agent given only the property text and a scratch worktree", "repo_head": head}
json.dump(meta, open(os.path.join(dst, "meta.json"), "w"), indent=1)
print("stored", dst)
