"""Re-run every stored seeded breakage (/verif/seeded/<id>/patch.diff) against the current quick check of its property.
For each: scratch copy of /repo/src (or of the commit named in meta.json 'repo_head' when it says 'pre ...'), apply the patch,
FSIM_REPO_SRC/FSIM_OUT_DIR to scratch, ./run <PROP> --tier quick; record exit code and signatures in /verif/seeded/RESULTS.json.
usage: tools/seeded_all.py [--out FILE] [--fraction F] [ID ...]   (F < 1: only that share of the quick-tier runs, a faster smoke test)"""
import json, os, re, shutil, subprocess, sys, tempfile
VERIF = os.path.dirname(os.path.dirname(os.path.abspath(__file__)))
args = sys.argv[1:]
out = args[args.index("--out") + 1] if "--out" in args else os.path.join(VERIF, "seeded/RESULTS.json")
frac = float(args[args.index("--fraction") + 1]) if "--fraction" in args else 1.0
ids = [a for a in args if re.fullmatch(r"C\d\d[a-z]", a)] or sorted(d for d in os.listdir(os.path.join(VERIF, "seeded")) if re.fullmatch(r"C\d\d[a-z]", d))
res = json.load(open(out)) if os.path.exists(out) else {}
for sid in ids:
    d = os.path.join(VERIF, "seeded", sid)
    meta = json.load(open(os.path.join(d, "meta.json")))
    prop = meta["property"]
    scratch = tempfile.mkdtemp(prefix="fsim-seeded-")
    try:
        head = str(meta.get("repo_head", ""))
        if "pre" in head:       # written against an older tree on which it is (still) a violation
            commit = head.split()[0]
            subprocess.run(f"git -C /repo archive {commit} src | tar -x -C {scratch}", shell=True, check=True)
        else:
            shutil.copytree("/repo/src", os.path.join(scratch, "src"))
        p = subprocess.run(["patch", "-p1", "-s", "-i", os.path.join(d, "patch.diff")], cwd=scratch, capture_output=True, text=True)
        if p.returncode != 0:
            res[sid] = {"property": prop, "status": "patch-does-not-apply", "detail": (p.stdout + p.stderr)[-300:]}
            print(sid, res[sid]["status"], flush=True)
            continue
        env = dict(os.environ, FSIM_REPO_SRC=os.path.join(scratch, "src"), FSIM_OUT_DIR=os.path.join(scratch, "out"), FSIM_SKIP_FRESH="1")
        if frac < 1.0:
            sys.path.insert(0, VERIF)
            import importlib
            os.environ.setdefault("PYTHONPATH", "/repo/src")
            n_quick = int(re.search(r'RUNS = \{"quick": ([\d_]+)', open(os.path.join(VERIF, "fsim/props", prop.lower() + ".py")).read()).group(1).replace("_", ""))
            env["VERIF_RUNS"] = str(max(200, int(n_quick * frac)))
        r = subprocess.run(["./run", prop, "--tier", "quick"], cwd=VERIF, env=env, capture_output=True, text=True, timeout=7200)
        sigs = sorted(set(re.findall(r"^VIOLATION property=\S+ replay=\S+ rule=(\S+) key=(\S+) runs=(\d+)", r.stdout, re.M)))
        status = "caught" if r.returncode == 1 and sigs else ("harness-error" if r.returncode == 2 else "missed")
        res[sid] = {"property": prop, "status": status, "exit": r.returncode, "tree": head or "HEAD",
                    "signatures": [f"{a} {b} runs={c}" for a, b, c in sigs][:10], "runs_fraction": frac}
        print(sid, status, len(sigs), "signatures", flush=True)
    finally:
        shutil.rmtree(scratch, ignore_errors=True)
    json.dump(res, open(out, "w"), indent=1, sort_keys=True)
